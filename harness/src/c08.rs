// c08.rs — range lists, location lists, indexed tables and the Dwarf-level range helpers
// (read/rnglists.rs, read/loclists.rs, read/addr.rs, read/str.rs, read/dwarf.rs).
use crate::util::*;
use gimli::{
    DebugAddr, DebugAddrBase, DebugAddrIndex, DebugLoc, DebugLocLists, DebugLocListsBase,
    DebugLocListsIndex, DebugRanges, DebugRngLists, DebugRngListsBase, DebugRngListsIndex,
    DebugStrOffsets, DebugStrOffsetsBase, DebugStrOffsetsIndex, DwarfFileType, Encoding,
    EndianSlice, Format, LocationLists, LocationListsOffset, Range, RangeLists, RangeListsOffset,
    RawLocListEntry, RawRngListEntry, Reader, RunTimeEndian, SectionId,
};

type R<'a> = EndianSlice<'a, RunTimeEndian>;

fn enc(asize: &str, version: &str, fmt64: bool) -> Encoding {
    Encoding {
        address_size: asize.parse::<u8>().unwrap(),
        version: version.parse::<u16>().unwrap(),
        format: if fmt64 { Format::Dwarf64 } else { Format::Dwarf32 },
    }
}

fn us(tok: &str) -> usize {
    u(tok) as usize
}

/// spec-level oracle evaluated on the implementation alone: every yielded range is non-empty and
/// begins below the tombstones -2/-1 at the address size (property C08, last sentence).
fn range_ok(r: &Range, asize: u8) -> bool {
    let tomb: u64 = match asize {
        1..=7 => (1u64 << (8 * asize as u32)) - 2,
        8 => u64::MAX - 1,
        _ => return r.begin < r.end, // no tombstone is defined for such a size
    };
    r.begin < r.end && r.begin < tomb
}

fn data_hex(r: &R) -> String {
    tohex(r.slice())
}

fn raw_rng(e: &RawRngListEntry<usize>) -> String {
    match *e {
        RawRngListEntry::AddressOrOffsetPair { begin, end } => format!("pair {} {}", begin, end),
        RawRngListEntry::BaseAddress { addr } => format!("base {}", addr),
        RawRngListEntry::BaseAddressx { addr } => format!("basex {}", addr.0),
        RawRngListEntry::StartxEndx { begin, end } => format!("sxex {} {}", begin.0, end.0),
        RawRngListEntry::StartxLength { begin, length } => format!("sxlen {} {}", begin.0, length),
        RawRngListEntry::OffsetPair { begin, end } => format!("offp {} {}", begin, end),
        RawRngListEntry::StartEnd { begin, end } => format!("se {} {}", begin, end),
        RawRngListEntry::StartLength { begin, length } => format!("sl {} {}", begin, length),
    }
}

fn raw_loc(e: &RawLocListEntry<R>) -> String {
    match e {
        RawLocListEntry::AddressOrOffsetPair { begin, end, data } => {
            format!("pair {} {} {}", begin, end, data_hex(&data.0))
        }
        RawLocListEntry::BaseAddress { addr } => format!("base {}", addr),
        RawLocListEntry::BaseAddressx { addr } => format!("basex {}", addr.0),
        RawLocListEntry::StartxEndx { begin, end, data } => {
            format!("sxex {} {} {}", begin.0, end.0, data_hex(&data.0))
        }
        RawLocListEntry::StartxLength { begin, length, data } => {
            format!("sxlen {} {} {}", begin.0, length, data_hex(&data.0))
        }
        RawLocListEntry::OffsetPair { begin, end, data } => {
            format!("offp {} {} {}", begin, end, data_hex(&data.0))
        }
        RawLocListEntry::DefaultLocation { data } => format!("dflt {}", data_hex(&data.0)),
        RawLocListEntry::StartEnd { begin, end, data } => {
            format!("se {} {} {}", begin, end, data_hex(&data.0))
        }
        RawLocListEntry::StartLength { begin, length, data } => {
            format!("sl {} {} {}", begin, length, data_hex(&data.0))
        }
    }
}

/// Drain an iterator given as a closure: every call of `next` until Ok(None); errors are recorded and
/// iteration goes on. `cap` bounds the number of calls (the model proves |input| + 2 suffice).
fn drain<F: FnMut() -> Result<Option<String>, gimli::Error>>(mut next: F, cap: usize) -> String {
    let mut out = String::from("ok");
    for _ in 0..cap {
        match next() {
            Ok(None) => return out,
            Ok(Some(s)) => {
                if s.contains("-mismatch") {
                    return s;
                }
                out.push(' ');
                out.push_str(&s);
            }
            Err(e) => {
                out.push_str(" e ");
                out.push_str(&errname(&e));
            }
        }
    }
    format!("hang-mismatch {}", cap)
}

fn drain_ranges(mut it: gimli::RngListIter<R>, asize: u8, cap: usize) -> String {
    drain(
        || {
            it.next().map(|o| {
                o.map(|r| {
                    if !range_ok(&r, asize) {
                        format!("range-mismatch {} {}", r.begin, r.end)
                    } else {
                        format!("r {} {}", r.begin, r.end)
                    }
                })
            })
        },
        cap,
    )
}

// ---- a one-DIE compilation unit for the Dwarf-level helpers ------------------------------------
fn uleb(v: u64, out: &mut Vec<u8>) {
    let mut v = v;
    loop {
        let b = (v & 0x7f) as u8;
        v >>= 7;
        if v == 0 {
            out.push(b);
            return;
        }
        out.push(b | 0x80);
    }
}

fn put(out: &mut Vec<u8>, v: u64, n: usize, be: bool) {
    let le = v.to_le_bytes();
    if be {
        for i in (0..n).rev() {
            out.push(le[i]);
        }
    } else {
        out.extend_from_slice(&le[..n]);
    }
}

/// (.debug_abbrev, .debug_info) holding one DW_TAG_compile_unit DIE with the given attributes
fn build_unit(e: Encoding, be: bool, attrs: &[(u64, u64, Vec<u8>)]) -> (Vec<u8>, Vec<u8>) {
    let mut ab = Vec::new();
    uleb(1, &mut ab);
    uleb(0x11, &mut ab);
    ab.push(0);
    for (at, form, _) in attrs {
        uleb(*at, &mut ab);
        uleb(*form, &mut ab);
    }
    ab.extend_from_slice(&[0, 0, 0]);
    let mut body = Vec::new();
    put(&mut body, e.version as u64, 2, be);
    let w = if e.format == Format::Dwarf64 { 8 } else { 4 };
    if e.version >= 5 {
        body.push(1); // DW_UT_compile
        body.push(e.address_size);
        put(&mut body, 0, w, be);
    } else {
        put(&mut body, 0, w, be);
        body.push(e.address_size);
    }
    body.push(1); // abbreviation code
    for (_, _, v) in attrs {
        body.extend_from_slice(v);
    }
    let mut info = Vec::new();
    if w == 8 {
        put(&mut info, 0xffff_ffff, 4, be);
    }
    put(&mut info, body.len() as u64, w, be);
    info.extend_from_slice(&body);
    (ab, info)
}

fn parse_attrs(t: &[&str]) -> Vec<(u64, u64, Vec<u8>)> {
    let n: usize = t[0].parse().unwrap();
    (0..n).map(|k| (u(t[1 + 3 * k]), u(t[2 + 3 * k]), hex(t[3 + 3 * k]))).collect()
}

pub fn run(t: &[&str]) -> String {
    match t[0] {
        // c08.rng* be asize version base addr_base offset debug_addr debug_ranges debug_rnglists
        "c08.rng" | "c08.rngm" | "c08.rngb" => {
            let e = endian(t[1]);
            let en = enc(t[2], t[3], false);
            let (addr, ranges, rnglists) = (hex(t[7]), hex(t[8]), hex(t[9]));
            let rl = RangeLists::new(DebugRanges::new(&ranges, e), DebugRngLists::new(&rnglists, e));
            let da = DebugAddr::from(EndianSlice::new(&addr[..], e));
            let cap = ranges.len().max(rnglists.len()) + 2;
            match rl.ranges(RangeListsOffset(us(t[6])), en, u(t[4]), &da, DebugAddrBase(us(t[5]))) {
                Err(x) => err(&x),
                Ok(it) => drain_ranges(it, en.address_size, cap),
            }
        }
        // c08.loc* be asize version dwo base addr_base offset debug_addr debug_loc debug_loclists
        "c08.loc" | "c08.locm" | "c08.locb" => {
            let e = endian(t[1]);
            let en = enc(t[2], t[3], false);
            let dwo = t[4] == "1";
            let (addr, loc, loclists) = (hex(t[8]), hex(t[9]), hex(t[10]));
            let ll = LocationLists::new(DebugLoc::new(&loc, e), DebugLocLists::new(&loclists, e));
            let da = DebugAddr::from(EndianSlice::new(&addr[..], e));
            let cap = loc.len().max(loclists.len()) + 2;
            let off = LocationListsOffset(us(t[7]));
            let it = if dwo {
                ll.locations_dwo(off, en, u(t[5]), &da, DebugAddrBase(us(t[6])))
            } else {
                ll.locations(off, en, u(t[5]), &da, DebugAddrBase(us(t[6])))
            };
            match it {
                Err(x) => err(&x),
                Ok(mut it) => drain(
                    || {
                        it.next().map(|o| {
                            o.map(|l| {
                                if !range_ok(&l.range, en.address_size) {
                                    format!("range-mismatch {} {}", l.range.begin, l.range.end)
                                } else {
                                    format!("r {} {} {}", l.range.begin, l.range.end, data_hex(&l.data.0))
                                }
                            })
                        })
                    },
                    cap,
                ),
            }
        }
        // c08.rraw be asize version offset debug_ranges debug_rnglists
        "c08.rraw" => {
            let e = endian(t[1]);
            let en = enc(t[2], t[3], false);
            let (ranges, rnglists) = (hex(t[5]), hex(t[6]));
            let rl = RangeLists::new(DebugRanges::new(&ranges, e), DebugRngLists::new(&rnglists, e));
            let cap = ranges.len().max(rnglists.len()) + 2;
            match rl.raw_ranges(RangeListsOffset(us(t[4])), en) {
                Err(x) => err(&x),
                Ok(mut it) => drain(|| it.next().map(|o| o.map(|x| raw_rng(&x))), cap),
            }
        }
        // c08.lraw be asize version dwo offset debug_loc debug_loclists
        "c08.lraw" => {
            let e = endian(t[1]);
            let en = enc(t[2], t[3], false);
            let dwo = t[4] == "1";
            let (loc, loclists) = (hex(t[6]), hex(t[7]));
            let ll = LocationLists::new(DebugLoc::new(&loc, e), DebugLocLists::new(&loclists, e));
            let cap = loc.len().max(loclists.len()) + 2;
            let off = LocationListsOffset(us(t[5]));
            let it = if dwo { ll.raw_locations_dwo(off, en) } else { ll.raw_locations(off, en) };
            match it {
                Err(x) => err(&x),
                Ok(mut it) => drain(|| it.next().map(|o| o.map(|x| raw_loc(&x))), cap),
            }
        }
        // c08.tbl kind be (fmt64 | asize) base index section
        "c08.tbl" => {
            let e = endian(t[2]);
            let be = t[2] == "1";
            let (base, index) = (us(t[4]), us(t[5]));
            let sect = hex(t[6]);
            let fmt64 = t[3] == "1";
            let en = enc("4", "5", fmt64);
            let (res, width, add_base): (Result<u64, gimli::Error>, u64, bool) = match t[1] {
                "ro" => {
                    let rl = RangeLists::new(DebugRanges::new(&[], e), DebugRngLists::new(&sect, e));
                    (
                        rl.get_offset(en, DebugRngListsBase(base), DebugRngListsIndex(index)).map(|x| x.0 as u64),
                        if fmt64 { 8 } else { 4 },
                        true,
                    )
                }
                "lo" => {
                    let ll = LocationLists::new(DebugLoc::new(&[], e), DebugLocLists::new(&sect, e));
                    (
                        ll.get_offset(en, DebugLocListsBase(base), DebugLocListsIndex(index)).map(|x| x.0 as u64),
                        if fmt64 { 8 } else { 4 },
                        true,
                    )
                }
                "so" => {
                    let so = DebugStrOffsets::from(EndianSlice::new(&sect[..], e));
                    (
                        so.get_str_offset(en.format, DebugStrOffsetsBase(base), DebugStrOffsetsIndex(index))
                            .map(|x| x.0 as u64),
                        if fmt64 { 8 } else { 4 },
                        false,
                    )
                }
                _ => {
                    let asize: u8 = t[3].parse().unwrap();
                    let da = DebugAddr::from(EndianSlice::new(&sect[..], e));
                    (da.get_address(asize, DebugAddrBase(base), DebugAddrIndex(index)), asize as u64, false)
                }
            };
            match res {
                Err(x) => err(&x),
                Ok(v) => {
                    // oracle: the value is the word at base + index * width, computed without gimli
                    let pos = (base as u128) + (index as u128) * (width as u128);
                    let end = pos + width as u128;
                    if end > sect.len() as u128 {
                        return format!("lookup-mismatch out-of-bounds {}", v);
                    }
                    let w = &sect[pos as usize..end as usize];
                    let mut x: u64 = 0;
                    for k in 0..w.len() {
                        let b = if be { w[k] } else { w[w.len() - 1 - k] };
                        x = (x << 8) | b as u64;
                    }
                    let want = if add_base { (base as u64).checked_add(x) } else { Some(x) };
                    if want != Some(v) {
                        return format!("lookup-mismatch {} {:?}", v, want);
                    }
                    format!("ok {}", v)
                }
            }
        }
        // c08.die be asize version fmt64 dwo low_pc addr_base rnglists_base debug_addr debug_ranges debug_rnglists
        //         nattrs (at form valuehex)*
        "c08.die" => {
            let e = endian(t[1]);
            let be = t[1] == "1";
            let en = enc(t[2], t[3], t[4] == "1");
            let dwo = t[5] == "1";
            let (addr, ranges, rnglists) = (hex(t[9]), hex(t[10]), hex(t[11]));
            let attrs = parse_attrs(&t[12..]);
            let (ab, info) = build_unit(en, be, &attrs);
            let mut dwarf = gimli::Dwarf::load(|id| -> Result<R, ()> {
                Ok(EndianSlice::new(
                    match id {
                        SectionId::DebugAbbrev => &ab[..],
                        SectionId::DebugInfo => &info[..],
                        SectionId::DebugAddr => &addr[..],
                        SectionId::DebugRanges => &ranges[..],
                        SectionId::DebugRngLists => &rnglists[..],
                        _ => &[],
                    },
                    e,
                ))
            })
            .unwrap();
            dwarf.file_type = if dwo { DwarfFileType::Dwo } else { DwarfFileType::Main };
            let header = match dwarf.units().next() {
                Ok(Some(h)) => h,
                other => return format!("harness-unit-header {:?}", other.err()),
            };
            // Unit::new would resolve DW_AT_low_pc itself (through .debug_addr at base 0) and fail early; all
            // fields of Unit are public, so build it directly with the values under test
            let abbreviations = match dwarf.abbreviations(&header) {
                Ok(x) => x,
                Err(x) => return format!("harness-abbrev {}", errname(&x)),
            };
            let unit = gimli::Unit {
                header,
                abbreviations,
                name: None,
                comp_dir: None,
                low_pc: u(t[6]),
                str_offsets_base: DebugStrOffsetsBase(0),
                addr_base: DebugAddrBase(us(t[7])),
                loclists_base: DebugLocListsBase(0),
                rnglists_base: DebugRngListsBase(us(t[8])),
                line_program: None,
                dwo_id: None,
            };
            let cap = ranges.len().max(rnglists.len()) + 3;
            let mut cursor = unit.entries();
            let root = match cursor.next_dfs() {
                Ok(Some(r)) => r.clone(),
                other => return format!("harness-root {:?}", other.err()),
            };
            let a = match dwarf.die_ranges(&unit, &root) {
                Err(x) => err(&x),
                Ok(mut it) => drain(|| it.next().map(|o| o.map(|r| format!("r {} {}", r.begin, r.end))), cap),
            };
            let b = match dwarf.unit_ranges(&unit) {
                Err(x) => err(&x),
                Ok(mut it) => drain(|| it.next().map(|o| o.map(|r| format!("r {} {}", r.begin, r.end))), cap),
            };
            if a != b {
                return format!("unitranges-mismatch {} / {}", a, b);
            }
            a
        }
        // c08.aoff be asize version fmt64 dwo rnglists_base loclists_base debug_rnglists debug_loclists at form valuehex
        "c08.aoff" => {
            let e = endian(t[1]);
            let be = t[1] == "1";
            let en = enc(t[2], t[3], t[4] == "1");
            let dwo = t[5] == "1";
            let (rnglists, loclists) = (hex(t[8]), hex(t[9]));
            let attrs = vec![(u(t[10]), u(t[11]), hex(t[12]))];
            let (ab, info) = build_unit(en, be, &attrs);
            let mut dwarf = gimli::Dwarf::load(|id| -> Result<R, ()> {
                Ok(EndianSlice::new(
                    match id {
                        SectionId::DebugAbbrev => &ab[..],
                        SectionId::DebugInfo => &info[..],
                        SectionId::DebugRngLists => &rnglists[..],
                        SectionId::DebugLocLists => &loclists[..],
                        _ => &[],
                    },
                    e,
                ))
            })
            .unwrap();
            let ft = if dwo { DwarfFileType::Dwo } else { DwarfFileType::Main };
            dwarf.file_type = ft;
            let header = match dwarf.units().next() {
                Ok(Some(h)) => h,
                other => return format!("harness-unit-header {:?}", other.err()),
            };
            let mut unit = match gimli::Unit::new(&dwarf, header) {
                Ok(x) => x,
                Err(x) => return format!("unit-err {}", errname(&x)),
            };
            // defaults chosen by Unit::new = the public default_for_encoding_and_file
            let drb = DebugRngListsBase::<usize>::default_for_encoding_and_file(en, ft).0;
            let dlb = DebugLocListsBase::<usize>::default_for_encoding_and_file(en, ft).0;
            if unit.rnglists_base.0 != drb || unit.loclists_base.0 != dlb {
                return format!("defaultbase-mismatch {} {} {} {}", unit.rnglists_base.0, drb, unit.loclists_base.0, dlb);
            }
            unit.rnglists_base = DebugRngListsBase(us(t[6]));
            unit.loclists_base = DebugLocListsBase(us(t[7]));
            let mut cursor = unit.entries();
            let root = match cursor.next_dfs() {
                Ok(Some(r)) => r.clone(),
                other => return format!("harness-root {:?}", other.err()),
            };
            let v = match root.attrs().first() {
                Some(a) => a.value(),
                None => return "harness-noattr".into(),
            };
            let ro = match dwarf.attr_ranges_offset(&unit, v.clone()) {
                Ok(None) => "none".to_string(),
                Ok(Some(o)) => format!("{}", o.0),
                Err(x) => format!("E{}", errname(&x)),
            };
            let lo = match dwarf.attr_locations_offset(&unit, v) {
                Ok(None) => "none".to_string(),
                Ok(Some(o)) => format!("{}", o.0),
                Err(x) => format!("E{}", errname(&x)),
            };
            format!("ok {} {} {} {}", ro, lo, drb, dlb)
        }
        _ => format!("unknown-stream {}", t[0]),
    }
}
