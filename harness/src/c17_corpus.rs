// c17_corpus.rs — stub
pub fn run(_t: &[&str]) -> String { "ok".into() }
