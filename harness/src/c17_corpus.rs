// c17_corpus.rs — compiler-built corpus: every accelerated lookup is compared with an exhaustive scan of the
// same data (`lookup-mismatch <what>`), and a unit fetched from a package is compared with the unit of the
// standalone .dwo (`package-mismatch <what>`).
use super::{drain, R};
use crate::util::*;
use gimli::{
    AttributeValue, DebugAddrIndex, DebugInfoOffset, DebugPubNames, DebugPubTypes, DebugStrOffsetsIndex, Dwarf,
    DwarfPackage, DwoId, EndianSlice, NameTableIndex, Reader, RunTimeEndian, Section, SectionId, Unit, UnitOffset,
    UnitSectionOffset,
};
use std::collections::{BTreeMap, BTreeSet, HashMap};

type Sections = HashMap<String, Vec<u8>>;
const LE: RunTimeEndian = RunTimeEndian::Little;
static EMPTY: [u8; 0] = [];

fn corpus_dir() -> String {
    std::env::var("GV_CORPUS")
        .unwrap_or_else(|_| concat!(env!("CARGO_MANIFEST_DIR"), "/../corpus/sections").to_string())
}

fn load_variant(variant: &str) -> Option<Sections> {
    let mut m = Sections::new();
    let dir = format!("{}/{}", corpus_dir(), variant);
    for e in std::fs::read_dir(&dir).ok()?.flatten() {
        if let (Ok(name), Ok(data)) = (e.file_name().into_string(), std::fs::read(e.path())) {
            m.insert(name, data);
        }
    }
    Some(m)
}

fn sec<'a>(m: &'a Sections, name: &str) -> &'a [u8] {
    m.get(name).map(|v| &v[..]).unwrap_or(&EMPTY)
}

fn load_main(m: &Sections) -> Dwarf<R<'_>> {
    Dwarf::load(|id: SectionId| Ok::<_, gimli::Error>(EndianSlice::new(sec(m, &id.name()[1..]), LE))).unwrap()
}
fn load_dwo<'a>(m: &'a Sections, parent: &Dwarf<R<'a>>) -> Dwarf<R<'a>> {
    let mut d = Dwarf::load(|id: SectionId| {
        Ok::<_, gimli::Error>(EndianSlice::new(id.dwo_name().map(|n| sec(m, &n[1..])).unwrap_or(&EMPTY), LE))
    })
    .unwrap();
    d.make_dwo(parent);
    d
}

type Res = Result<String, String>;
fn ge<T>(what: &str, r: gimli::Result<T>) -> Result<T, String> {
    r.map_err(|e| format!("corpus-error {} {}", what, errname(&e)))
}

fn units<'a>(d: &Dwarf<R<'a>>) -> Result<Vec<Unit<R<'a>>>, String> {
    units_of(d, true)
}
fn info_units<'a>(d: &Dwarf<R<'a>>) -> Result<Vec<Unit<R<'a>>>, String> {
    units_of(d, false)
}
fn units_of<'a>(d: &Dwarf<R<'a>>, types: bool) -> Result<Vec<Unit<R<'a>>>, String> {
    let mut v = Vec::new();
    let mut it = d.units();
    while let Some(h) = ge("units", it.next())? {
        v.push(ge("unit", d.unit(h))?);
    }
    let mut it = d.type_units();
    while let Some(h) = if types { ge("type_units", it.next())? } else { None } {
        v.push(ge("type unit", d.unit(h))?);
    }
    Ok(v)
}

/// exhaustive scan of a unit: (die offset, tag, DW_AT_name, DW_AT_linkage_name)
fn scan_dies<'a>(d: &Dwarf<R<'a>>, u: &Unit<R<'a>>) -> Result<BTreeMap<usize, (u16, Option<Vec<u8>>, Option<Vec<u8>>)>, String> {
    let mut m = BTreeMap::new();
    let mut origins: BTreeMap<usize, usize> = BTreeMap::new();
    let mut cur = u.entries();
    while let Some(e) = ge("next_dfs", cur.next_dfs())? {
        let name = match e.attr_value(gimli::DW_AT_name) {
            Some(v) => d.attr_string(u, v).ok().map(|s| s.slice().to_vec()),
            None => None,
        };
        let link = match e.attr_value(gimli::DW_AT_linkage_name).or_else(|| e.attr_value(gimli::DW_AT_MIPS_linkage_name)) {
            Some(v) => d.attr_string(u, v).ok().map(|s| s.slice().to_vec()),
            None => None,
        };
        let origin = match e.attr_value(gimli::DW_AT_abstract_origin).or_else(|| e.attr_value(gimli::DW_AT_specification)) {
            Some(AttributeValue::UnitRef(o)) => Some(o.0),
            _ => None,
        };
        m.insert(e.offset().0, (e.tag().0, name, link));
        if let Some(o) = origin {
            origins.insert(e.offset().0, o);
        }
    }
    // a DIE without a name of its own is named by its abstract origin / specification (two hops at most)
    for _ in 0..2 {
        for (off, o) in &origins {
            let target = m.get(o).cloned();
            if let (Some(entry), Some(t)) = (m.get_mut(off), target) {
                if entry.1.is_none() {
                    entry.1 = t.1;
                }
                if entry.2.is_none() {
                    entry.2 = t.2;
                }
            }
        }
    }
    Ok(m)
}

fn unit_info_offset(u: &Unit<R>) -> Option<usize> {
    match u.header.offset() {
        UnitSectionOffset(o) => Some(o),
    }
}

// ------------------------------------------------------------------ aranges

fn check_aranges(m: &Sections) -> Res {
    let d = load_main(m);
    let us = info_units(&d)?;
    let mut by_unit: BTreeMap<usize, Vec<(u64, u64)>> = BTreeMap::new();
    let mut it = d.debug_aranges.headers();
    let mut nsets = 0;
    let mut nent = 0;
    while let Some(h) = ge("arange header", it.next())? {
        nsets += 1;
        // header(offset) finds the same set
        let h2 = ge("header(offset)", d.debug_aranges.header(h.offset()))?;
        if h2 != h {
            return Err("lookup-mismatch aranges header(offset)".into());
        }
        let mut es = h.entries();
        let (v, st) = drain(|| es.next());
        if !st.is_empty() {
            return Err(format!("corpus-error arange entries {}", st));
        }
        for e in v {
            nent += 1;
            by_unit.entry(h.debug_info_offset().0).or_default().push((e.range().begin, e.range().end));
        }
    }
    // exhaustive scan: the ranges of every unit, from its DIE
    let mut covered = 0;
    for u in &us {
        let off = unit_info_offset(u).unwrap();
        let mut rs: Vec<(u64, u64)> = Vec::new();
        let mut it = ge("unit_ranges", d.unit_ranges(u))?;
        while let Some(r) = ge("unit range", it.next())? {
            if r.begin < r.end {
                rs.push((r.begin, r.end));
            }
        }
        let ar = by_unit.get(&off).cloned().unwrap_or_default();
        // every arange of the set lies inside a range of its unit, and every unit range inside an arange
        for (b, e) in &ar {
            if !rs.iter().any(|(rb, re)| rb <= b && e <= re) {
                return Err(format!("lookup-mismatch aranges unit {:#x}: arange [{:#x},{:#x}) not in the unit's ranges {:x?}", off, b, e, rs));
            }
        }
        if by_unit.contains_key(&off) {
            covered += 1;
            for (rb, re) in &rs {
                if !ar.iter().any(|(b, e)| b <= rb && re <= e) {
                    return Err(format!("lookup-mismatch aranges unit {:#x}: unit range [{:#x},{:#x}) not in its aranges {:x?}", off, rb, re, ar));
                }
            }
        }
    }
    // every set names a unit that exists
    for off in by_unit.keys() {
        if !us.iter().any(|u| unit_info_offset(u) == Some(*off)) {
            return Err(format!("lookup-mismatch aranges set for unknown unit {:#x}", off));
        }
    }
    if nsets == 0 || nent == 0 || covered == 0 {
        return Err("corpus-error aranges: nothing checked".into());
    }
    Ok("ok".into())
}

// ------------------------------------------------------------------ pubnames / pubtypes

fn check_pub(m: &Sections) -> Res {
    let d = load_main(m);
    let us = info_units(&d)?;
    let mut scans: BTreeMap<usize, BTreeMap<usize, (u16, Option<Vec<u8>>, Option<Vec<u8>>)>> = BTreeMap::new();
    for u in &us {
        scans.insert(unit_info_offset(u).unwrap(), scan_dies(&d, u)?);
    }
    let mut n = 0;
    let mut check = |unit: usize, die: usize, name: &[u8], what: &str| -> Result<(), String> {
        n += 1;
        let sc = scans.get(&unit).ok_or_else(|| format!("lookup-mismatch {} unit {:#x} unknown", what, unit))?;
        match sc.get(&die) {
            Some((_, Some(nm), _)) if nm == name => Ok(()),
            Some((_, _, Some(l))) if l == name => Ok(()),
            other => Err(format!("lookup-mismatch {} {:#x}+{:#x} {:?} scan={:?}", what, unit, die, String::from_utf8_lossy(name), other)),
        }
    };
    if m.contains_key("debug_pubnames") {
        let s = DebugPubNames::new(sec(m, "debug_pubnames"), LE);
        let mut it = s.items();
        let (v, st) = drain(|| it.next());
        if !st.is_empty() {
            return Err(format!("corpus-error pubnames {}", st));
        }
        for e in &v {
            check(e.unit_header_offset().0, e.die_offset().0, e.name().slice(), "pubnames")?;
        }
    }
    if m.contains_key("debug_pubtypes") {
        let s = DebugPubTypes::new(sec(m, "debug_pubtypes"), LE);
        let mut it = s.items();
        let (v, st) = drain(|| it.next());
        if !st.is_empty() {
            return Err(format!("corpus-error pubtypes {}", st));
        }
        for e in &v {
            check(e.unit_header_offset().0, e.die_offset().0, e.name().slice(), "pubtypes")?;
        }
    }
    if n == 0 {
        return Err("corpus-error pub: nothing checked".into());
    }
    Ok("ok".into())
}

// ------------------------------------------------------------------ .debug_names

fn check_names(m: &Sections) -> Res {
    let d = load_main(m);
    let us = info_units(&d)?;
    let mut scans: BTreeMap<usize, BTreeMap<usize, (u16, Option<Vec<u8>>, Option<Vec<u8>>)>> = BTreeMap::new();
    for u in &us {
        scans.insert(unit_info_offset(u).unwrap(), scan_dies(&d, u)?);
    }
    let mut it = d.debug_names.headers();
    let mut nnames = 0;
    let mut nentries = 0;
    while let Some(h) = ge("names header", it.next())? {
        let ix = ge("names index", h.index())?;
        // exhaustive scan of the name table: hash of every name
        let mut hashes: Vec<u32> = Vec::new();
        for i in ix.names() {
            let s = ge("name_string", ix.name_string(i, &d.debug_str))?;
            let st = std::str::from_utf8(s.slice()).map_err(|_| "corpus-error names utf8".to_string())?;
            hashes.push(gimli::case_folding_djb_hash(st));
        }
        nnames += hashes.len();
        if ix.has_hash_table() {
            // buckets partition the names, and report the hash of the name
            let mut seen = BTreeSet::new();
            for b in 0..ix.bucket_count() {
                if let Some(mut bi) = ge("find_by_bucket", ix.find_by_bucket(b))? {
                    let (v, st) = drain(|| bi.next());
                    if !st.is_empty() {
                        return Err(format!("corpus-error bucket {}", st));
                    }
                    for (i, hv) in v {
                        if hashes.get(i.0 as usize) != Some(&hv) || hv % ix.bucket_count() != b || !seen.insert(i.0) {
                            return Err(format!("lookup-mismatch names bucket {} item {} hash {}", b, i.0, hv));
                        }
                    }
                }
            }
            if seen.len() != hashes.len() {
                return Err(format!("lookup-mismatch names buckets cover {} of {} names", seen.len(), hashes.len()));
            }
            // find_by_hash = exhaustive scan, for every present hash and some absent ones
            let mut probes: BTreeSet<u32> = hashes.iter().cloned().collect();
            for hv in hashes.iter().take(64) {
                probes.insert(hv.wrapping_add(ix.bucket_count()));
                probes.insert(hv ^ 0x8000_0000);
                probes.insert(hv.wrapping_add(1));
            }
            for hv in probes {
                let scan: Vec<u32> = (0..hashes.len() as u32).filter(|i| hashes[*i as usize] == hv).collect();
                let mut hi = ge("find_by_hash", ix.find_by_hash(hv))?;
                let (v, st) = drain(|| hi.next());
                let got: Vec<u32> = v.iter().map(|i| i.0).collect();
                if !st.is_empty() || got != scan {
                    return Err(format!("lookup-mismatch names find_by_hash {:#x} got={:?} scan={:?}", hv, got, scan));
                }
            }
        }
        // every entry names a DIE that the exhaustive scan of its unit finds, with that name and tag
        for i in ix.names() {
            let name = ge("name_string", ix.name_string(i, &d.debug_str))?;
            let mut ei = ge("name_entries", ix.name_entries(i))?;
            let (es, st) = drain(|| ei.next());
            if !st.is_empty() || es.is_empty() {
                return Err(format!("corpus-error names entries of {} {}", i.0, st));
            }
            for e in &es {
                nentries += 1;
                let cu = match ge("entry cu", e.compile_unit(&ix))? {
                    Some(c) => c,
                    None => match ge("default cu", ix.default_compile_unit())? {
                        Some(c) => c,
                        None => continue, // type-unit entry
                    },
                };
                let die = match ge("die_offset", e.die_offset())? {
                    Some(o) => o,
                    None => return Err("lookup-mismatch names entry without die offset".into()),
                };
                let sc = scans.get(&cu.0).ok_or_else(|| format!("lookup-mismatch names unit {:#x} unknown", cu.0))?;
                match sc.get(&die.0) {
                    Some((tag, nm, link)) if *tag == e.tag.0 && (nm.as_deref() == Some(name.slice()) || link.as_deref() == Some(name.slice())) => {}
                    other => {
                        return Err(format!(
                            "lookup-mismatch names entry {:?} -> {:#x}+{:#x} tag {:#x} scan={:?}",
                            String::from_utf8_lossy(name.slice()), cu.0, die.0, e.tag.0, other
                        ))
                    }
                }
                // the parent chain resolves to entries of the pool
                if let Some(Some(p)) = ge("parent", e.parent())? {
                    ge("name_entry(parent)", ix.name_entry(p))?;
                }
            }
        }
    }
    if nnames == 0 || nentries == 0 {
        return Err("corpus-error names: nothing checked".into());
    }
    Ok("ok".into())
}

// ------------------------------------------------------------------ packages

/// canonical dump of the DIEs of a unit: strings resolved, everything else as decoded
fn dump_unit<'a>(d: &Dwarf<R<'a>>, u: &Unit<R<'a>>) -> Result<Vec<String>, String> {
    let mut out = Vec::new();
    let mut cur = u.entries();
    while let Some(e) = ge("next_dfs", cur.next_dfs())? {
        let mut s = format!("{:#x} d{} {}", e.offset().0, e.depth(), e.tag());
        for a in e.attrs() {
            let v = a.value();
            let vs = match &v {
                AttributeValue::String(_)
                | AttributeValue::DebugStrRef(_)
                | AttributeValue::DebugStrOffsetsIndex(_)
                | AttributeValue::DebugLineStrRef(_) => match d.attr_string(u, v.clone()) {
                    Ok(x) => format!("str:{}", tohex(x.slice())),
                    Err(er) => format!("strerr:{}", errname(&er)),
                },
                AttributeValue::Block(b) => format!("block:{}", tohex(b.slice())),
                AttributeValue::Exprloc(x) => format!("expr:{}", tohex(x.0.slice())),
                other => format!("{:?}", other),
            };
            s.push_str(&format!(" {}={}", a.name(), vs));
        }
        out.push(s);
    }
    Ok(out)
}

fn hash_slots(b: &[u8]) -> Vec<(u64, u32)> {
    // raw exhaustive scan of an index hash table (little endian): every used slot
    if b.len() < 16 {
        return Vec::new();
    }
    let rd32 = |o: usize| u32::from_le_bytes(b[o..o + 4].try_into().unwrap());
    let slots = rd32(12) as usize;
    (0..slots)
        .filter_map(|s| {
            let id = u64::from_le_bytes(b[16 + 8 * s..24 + 8 * s].try_into().unwrap());
            if id == 0 {
                None
            } else {
                Some((id, rd32(16 + 8 * slots + 4 * s)))
            }
        })
        .collect()
}

fn check_dwp(variant: &str, m: &Sections) -> Res {
    let base = variant.trim_end_matches("_ldwp").trim_end_matches("_dwp");
    let skel_m = load_variant(&format!("{}_skel", base)).ok_or("corpus-error missing skeleton variant")?;
    let parent = load_main(&skel_m);
    let empty: R = EndianSlice::new(&EMPTY, LE);
    let dwp = ge(
        "DwarfPackage::load",
        DwarfPackage::load(
            |id: SectionId| Ok::<_, gimli::Error>(EndianSlice::new(id.dwo_name().map(|n| sec(m, &n[1..])).unwrap_or(&EMPTY), LE)),
            empty,
        ),
    )?;
    let mut nunits = 0;
    let mut info_ranges: BTreeSet<(u32, u32)> = BTreeSet::new();
    for (which, raw, ix) in [("cu", sec(m, "debug_cu_index"), &dwp.cu_index), ("tu", sec(m, "debug_tu_index"), &dwp.tu_index)] {
        let used = hash_slots(raw);
        if used.len() as u32 != ix.unit_count() {
            return Err(format!("lookup-mismatch {} index: {} used slots, unit_count {}", which, used.len(), ix.unit_count()));
        }
        for (id, row) in &used {
            // hash probe = exhaustive scan of the slots
            if ix.find(*id) != Some(*row) {
                return Err(format!("lookup-mismatch {} index find({:#x}) = {:?}, scan = {}", which, id, ix.find(*id), row));
            }
            let d = if which == "cu" {
                ge("find_cu", dwp.find_cu(DwoId(*id), &parent))?
            } else {
                ge("find_tu", dwp.find_tu(gimli::DebugTypeSignature(*id), &parent))?
            }
            .ok_or_else(|| format!("lookup-mismatch {} unit {:#x} not found", which, id))?;
            // the contribution holds exactly one unit, and it is the one with that id
            let us = units(&d)?;
            if us.len() != 1 {
                return Err(format!("lookup-mismatch {} unit {:#x}: {} units in its contribution", which, id, us.len()));
            }
            let u = &us[0];
            let uid = match u.header.type_() {
                gimli::UnitType::Type { type_signature, .. } | gimli::UnitType::SplitType { type_signature, .. } => Some(type_signature.0),
                _ => u.dwo_id.map(|x| x.0),
            };
            if uid != Some(*id) {
                return Err(format!("lookup-mismatch {} unit {:#x}: contribution holds unit {:x?}", which, id, uid));
            }
            // and it tiles the package section
            let whole = if which == "tu" && dwp.debug_types.reader().len() > 0 { dwp.debug_types.reader() } else { dwp.debug_info.reader() };
            let part = if which == "tu" && dwp.debug_types.reader().len() > 0 { d.debug_types.reader() } else { d.debug_info.reader() };
            let off = part.offset_from(*whole);
            if which == "cu" || dwp.debug_types.reader().len() == 0 {
                info_ranges.insert((off as u32, part.len() as u32));
            }
            nunits += 1;
        }
        // absent ids
        for (id, _) in used.iter().take(8) {
            for probe in [id ^ 1, id ^ (1 << 32), id.wrapping_add(ix.slot_count() as u64), !id] {
                if probe != 0 && !used.iter().any(|(x, _)| *x == probe) && ix.find(probe).is_some() {
                    return Err(format!("lookup-mismatch {} index find(absent {:#x}) = {:?}", which, probe, ix.find(probe)));
                }
            }
        }
    }
    // exhaustive scan of the unit headers of .debug_info.dwo = the info contributions of the index rows
    let mut scan: BTreeSet<(u32, u32)> = BTreeSet::new();
    let mut it = dwp.debug_info.units();
    while let Some(h) = ge("package units", it.next())? {
        let off = h.offset().0;
        scan.insert((off as u32, (h.length_including_self()) as u32));
    }
    if scan != info_ranges {
        return Err(format!("lookup-mismatch package .debug_info.dwo units {:?} vs index contributions {:?}", scan, info_ranges));
    }
    // a unit fetched from the package = the unit of the standalone .dwo
    let mut compared = 0;
    for f in ["a", "b"] {
        let name = format!("{}_{}_dwo", base, f);
        let dm = match load_variant(&name) {
            Some(x) => x,
            None => continue,
        };
        let solo = load_dwo(&dm, &parent);
        for su in units(&solo)? {
            let id = match su.header.type_() {
                gimli::UnitType::Type { type_signature, .. } | gimli::UnitType::SplitType { type_signature, .. } => {
                    let d = ge("find_tu", dwp.find_tu(type_signature, &parent))?
                        .ok_or_else(|| format!("package-mismatch type unit {:#x} of {} not in the package", type_signature.0, name))?;
                    (d, type_signature.0)
                }
                _ => {
                    let id = su.dwo_id.ok_or("corpus-error standalone unit without dwo id")?;
                    let d = ge("find_cu", dwp.find_cu(id, &parent))?
                        .ok_or_else(|| format!("package-mismatch unit {:#x} of {} not in the package", id.0, name))?;
                    (d, id.0)
                }
            };
            let (pd, idv) = id;
            let pus = units(&pd)?;
            let a = dump_unit(&solo, &su)?;
            let b = dump_unit(&pd, &pus[0])?;
            if a != b {
                let k = a.iter().zip(b.iter()).position(|(x, y)| x != y).unwrap_or(a.len().min(b.len()));
                return Err(format!(
                    "package-mismatch unit {:#x} of {}: DIE {} differs: standalone `{}` package `{}`",
                    idv, name, k, a.get(k).cloned().unwrap_or_default(), b.get(k).cloned().unwrap_or_default()
                ));
            }
            if a.len() < 2 {
                return Err("corpus-error trivial unit".into());
            }
            compared += 1;
        }
    }
    if nunits == 0 || compared == 0 {
        return Err(format!("corpus-error dwp: units={} compared={}", nunits, compared));
    }
    Ok("ok".into())
}

// ------------------------------------------------------------------ indexed strings / addresses

fn check_indexed(variant: &str, m: &Sections) -> Res {
    let is_dwo = variant.ends_with("_dwo");
    let skel;
    let d = if is_dwo {
        let base = &variant[..variant.len() - "_a_dwo".len()];
        skel = load_variant(&format!("{}_skel", base)).ok_or("corpus-error missing skeleton variant")?;
        let parent = load_main(&skel);
        load_dwo(m, &parent)
    } else {
        load_main(m)
    };
    let str_offsets: &[u8] = d.debug_str_offsets.reader().slice();
    let addrs: &[u8] = d.debug_addr.reader().slice();
    let word = |b: &[u8], off: usize, w: usize| -> Option<u64> {
        if off.checked_add(w)? > b.len() {
            return None;
        }
        let mut v = 0u64;
        for k in (0..w).rev() {
            v = (v << 8) | b[off + k] as u64;
        }
        Some(v)
    };
    let mut nstr = 0;
    let mut naddr = 0;
    for u in units(&d)? {
        let ws = u.encoding().format.word_size() as usize;
        let asz = u.encoding().address_size as usize;
        let mut cur = u.entries();
        while let Some(e) = ge("next_dfs", cur.next_dfs())? {
            for a in e.attrs() {
                match a.value() {
                    AttributeValue::DebugStrOffsetsIndex(DebugStrOffsetsIndex(i)) => {
                        let want = word(str_offsets, u.str_offsets_base.0 + i * ws, ws);
                        let got = d.string_offset(&u, DebugStrOffsetsIndex(i)).ok().map(|x| x.0 as u64);
                        if got != want || want.is_none() {
                            return Err(format!("lookup-mismatch strx {} got={:?} want={:?}", i, got, want));
                        }
                        // and the string it leads to is the NUL-terminated string at that offset of .debug_str
                        let s = ge("attr_string", d.attr_string(&u, a.value()))?;
                        let ds = d.debug_str.reader().slice();
                        let o = want.unwrap() as usize;
                        let end = ds[o..].iter().position(|c| *c == 0).map(|p| o + p).ok_or("corpus-error unterminated string")?;
                        if s.slice() != &ds[o..end] {
                            return Err(format!("lookup-mismatch strx {} string", i));
                        }
                        nstr += 1;
                    }
                    AttributeValue::DebugAddrIndex(DebugAddrIndex(i)) if !is_dwo => {
                        let want = word(addrs, u.addr_base.0 + i * asz, asz);
                        let got = d.address(&u, DebugAddrIndex(i)).ok();
                        if got != want || want.is_none() {
                            return Err(format!("lookup-mismatch addrx {} got={:?} want={:?}", i, got, want));
                        }
                        naddr += 1;
                    }
                    _ => {}
                }
            }
        }
    }
    if nstr + naddr == 0 {
        // a variant whose units use neither form: nothing to compare (e.g. a skeleton with direct forms only)
        return Ok("ok".into());
    }
    Ok("ok".into())
}

pub fn run(t: &[&str]) -> String {
    if t[2] == "missing-corpus" {
        return "missing-corpus".into();
    }
    let m = match load_variant(t[2]) {
        Some(m) => m,
        None => return format!("missing-corpus {}", t[2]),
    };
    let r = match t[1] {
        "aranges" => check_aranges(&m),
        "pub" => check_pub(&m),
        "names" => check_names(&m),
        "dwp" => check_dwp(t[2], &m),
        "indexed" => check_indexed(t[2], &m),
        _ => Err("bad-case".into()),
    };
    match r {
        Ok(s) => s,
        Err(s) => s,
    }
}
