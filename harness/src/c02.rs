// c02.rs — DIE forest navigation, abbreviation tables, unit headers, through the public API only:
//   DebugAbbrev::abbreviations, Abbreviations::get, DebugInfo::units / DebugTypes::units /
//   DebugInfo::header_from_offset, UnitHeader accessors, UnitHeader::{abbreviations, entries_raw,
//   entries, entries_at_offset, entries_tree, entry}, EntriesRaw::{is_empty, read_entry},
//   EntriesCursor::{next_entry, next_dfs, next_sibling, current, offset, depth},
//   EntriesTree::root, EntriesTreeNode::{entry, children}, EntriesTreeIter::next, Dwarf::{units, unit}.
// Line format: see ocaml/s_c02.ml. Oracles evaluated on gimli alone: every navigation style agrees
// with the raw entry sequence (`nav-mismatch <style>`), header_from_offset = iterated header
// (`hfo-mismatch`).
use crate::c03::show;
use crate::util::*;
use gimli::{
    Abbreviation, Abbreviations, DebugAbbrev, DebugInfo, DebugInfoOffset, DebugTypes,
    DebuggingInformationEntry, EndianSlice, EntriesCursor, EntriesTreeNode, Format, RunTimeEndian,
    UnitHeader, UnitOffset, UnitType,
};

type R<'a> = EndianSlice<'a, RunTimeEndian>;

fn fnv(s: &str) -> String {
    let mut h: u64 = 0xcbf29ce484222325;
    for b in s.bytes() {
        h = (h ^ b as u64).wrapping_mul(0x100000001b3);
    }
    format!("#{:016x}", h)
}

fn join(sep: &str, l: &[String]) -> String {
    if l.is_empty() {
        "-".to_string()
    } else {
        l.join(sep)
    }
}

fn with_err(sep: &str, mut l: Vec<String>, e: Option<gimli::Error>) -> String {
    if let Some(e) = e {
        l.push(format!("!{}", errname(&e)));
    }
    join(sep, &l)
}

fn show_abbrev(a: &Abbreviation) -> String {
    let specs: Vec<String> = a
        .attributes()
        .iter()
        .map(|s| format!("{}/{}/{}", s.name().0, s.form().0, s.implicit_const_value().unwrap_or(0)))
        .collect();
    format!(
        "{}:{}:{}:{}",
        a.code(),
        a.tag().0,
        if a.has_children() { 1 } else { 0 },
        if specs.is_empty() { "-".to_string() } else { specs.join(",") }
    )
}

fn show_entry(e: &DebuggingInformationEntry<R>, depth: isize) -> String {
    if e.is_null() {
        return format!("{}:{}:null", e.offset().0, depth);
    }
    let attrs: Vec<String> = e
        .attrs()
        .iter()
        .map(|a| format!("{}/{}={}", a.name().0, a.form().0, show(&a.raw_value())))
        .collect();
    format!(
        "{}:{}:{}:{}:{}",
        e.offset().0,
        depth,
        e.tag().0,
        if e.has_children() { 1 } else { 0 },
        if attrs.is_empty() { "-".to_string() } else { attrs.join(",") }
    )
}

fn show_utype(t: UnitType<usize>) -> String {
    match t {
        UnitType::Compilation => "compile".to_string(),
        UnitType::Partial => "partial".to_string(),
        UnitType::Type { type_signature, type_offset } => format!("type.{}.{}", type_signature.0, type_offset.0),
        UnitType::Skeleton(id) => format!("skeleton.{}", id.0),
        UnitType::SplitCompilation(id) => format!("split_compile.{}", id.0),
        UnitType::SplitType { type_signature, type_offset } => {
            format!("split_type.{}.{}", type_signature.0, type_offset.0)
        }
    }
}

fn show_hdr(h: &UnitHeader<R>) -> String {
    let hs = h.header_size();
    format!(
        "{},{},{},{},{},{},{},{},{}",
        h.offset().0,
        h.unit_length(),
        h.version(),
        if h.format() == Format::Dwarf64 { 1 } else { 0 },
        h.address_size(),
        show_utype(h.type_()),
        h.debug_abbrev_offset().0,
        hs,
        h.length_including_self() - hs
    )
}

// ------------------------------------------------------------------ abbreviations

// <section hex> <offset> <codes>
fn abbrev(t: &[&str]) -> String {
    let sec = hex(t[1]);
    let off = u(t[2]) as usize;
    let qs: Vec<u64> = if t[3] == "-" { vec![] } else { t[3].split(',').map(u).collect() };
    let da = DebugAbbrev::new(&sec, RunTimeEndian::Little);
    match da.abbreviations(gimli::DebugAbbrevOffset(off)) {
        Err(e) => err(&e),
        Ok(tbl) => {
            let l: Vec<String> = qs
                .iter()
                .map(|&q| match tbl.get(q) {
                    Some(a) => {
                        if a.code() != q {
                            format!("get-mismatch({})", show_abbrev(a))
                        } else {
                            show_abbrev(a)
                        }
                    }
                    None => "-".to_string(),
                })
                .collect();
            format!("ok {}", join(";", &l))
        }
    }
}

// ------------------------------------------------------------------ unit headers

// <be> <types> <section hex>
fn header(t: &[&str]) -> String {
    let en = endian(t[1]);
    let types = t[2] == "1";
    let sec = hex(t[3]);
    let mut out: Vec<String> = Vec::new();
    let mut error = None;
    if types {
        let dt = DebugTypes::new(&sec, en);
        let mut it = dt.units();
        loop {
            match it.next() {
                Ok(Some(h)) => out.push(show_hdr(&h)),
                Ok(None) => break,
                Err(e) => {
                    error = Some(e);
                    // the iterator is exhausted after an error
                    match it.next() {
                        Ok(None) => {}
                        _ => return "iter-mismatch not-exhausted-after-error".to_string(),
                    }
                    break;
                }
            }
        }
    } else {
        let di = DebugInfo::new(&sec, en);
        let mut it = di.units();
        loop {
            match it.next() {
                Ok(Some(h)) => {
                    let s = show_hdr(&h);
                    // positioned parse of the same unit
                    match di.header_from_offset(DebugInfoOffset(h.offset().0)) {
                        Ok(h2) => {
                            if show_hdr(&h2) != s || h2 != h {
                                return format!("hfo-mismatch {} {}", s, show_hdr(&h2));
                            }
                        }
                        Err(e) => return format!("hfo-mismatch {} {}", s, err(&e)),
                    }
                    out.push(s)
                }
                Ok(None) => break,
                Err(e) => {
                    error = Some(e);
                    match it.next() {
                        Ok(None) => {}
                        _ => return "iter-mismatch not-exhausted-after-error".to_string(),
                    }
                    break;
                }
            }
        }
    }
    format!("ok {}", with_err(";", out, error))
}

// ------------------------------------------------------------------ navigation styles

#[derive(Clone)]
struct Ent {
    off: usize,
    depth: isize,
    null: bool,
    tag: u16,
    children: bool,
    has_sib: bool,
    text0: String, // text with depth 0
}

fn show_ent_at(text0: &str, off: usize, depth: isize) -> String {
    // text0 = "<off>:0:rest" -> "<off>:<depth>:rest"
    let prefix = format!("{}:0:", off);
    format!("{}:{}:{}", off, depth, &text0[prefix.len()..])
}

/// raw entries (nulls included) until the end of the input or the first error
fn style_raw(h: &UnitHeader<R>, tbl: &Abbreviations) -> (Vec<Ent>, Option<gimli::Error>) {
    let mut out = Vec::new();
    let mut raw = match h.entries_raw(tbl, None) {
        Ok(r) => r,
        Err(e) => return (out, Some(e)),
    };
    let mut entry = DebuggingInformationEntry::null();
    while !raw.is_empty() {
        let no = raw.next_offset().0;
        let nd = raw.next_depth();
        match raw.read_entry(&mut entry) {
            Ok(found) => {
                if found == entry.is_null() || entry.offset().0 != no || entry.depth() != nd {
                    return (out, Some(gimli::Error::Io)); // impossible marker; shows up as !Io
                }
                out.push(Ent {
                    off: entry.offset().0,
                    depth: entry.depth(),
                    null: entry.is_null(),
                    tag: entry.tag().0,
                    children: entry.has_children(),
                    has_sib: entry.attr(gimli::DW_AT_sibling).is_some(),
                    text0: show_entry(&entry, 0),
                })
            }
            Err(e) => return (out, Some(e)),
        }
    }
    (out, None)
}

fn ents_text(l: &[Ent]) -> Vec<String> {
    l.iter().map(|e| show_ent_at(&e.text0, e.off, e.depth)).collect()
}

fn style_ent(h: &UnitHeader<R>, tbl: &Abbreviations) -> String {
    let mut c = h.entries(tbl);
    let mut out = Vec::new();
    loop {
        match c.next_entry() {
            Ok(true) => match c.current() {
                Some(e) => {
                    if e.offset() != c.offset() || e.depth() != c.depth() {
                        return "cursor-mismatch".to_string();
                    }
                    out.push(show_entry(e, e.depth()))
                }
                None => out.push(format!("{}:{}:null", c.offset().0, c.depth())),
            },
            Ok(false) => {
                if c.current().is_some() {
                    return "cursor-mismatch current-after-end".to_string();
                }
                return with_err(";", out, None);
            }
            Err(e) => {
                // after an error the cursor is exhausted and has no current entry
                if c.current().is_some() || !matches!(c.next_entry(), Ok(false)) {
                    return "cursor-mismatch state-after-error".to_string();
                }
                return with_err(";", out, Some(e));
            }
        }
    }
}

fn dfs_from(mut c: EntriesCursor<R>, full: bool, sep: &str) -> String {
    let mut out = Vec::new();
    loop {
        match c.next_dfs() {
            Ok(Some(e)) => out.push(if full { show_entry(e, e.depth()) } else { format!("{}:{}", e.offset().0, e.depth()) }),
            Ok(None) => return with_err(sep, out, None),
            Err(e) => return with_err(sep, out, Some(e)),
        }
    }
}

fn style_sib_at(h: &UnitHeader<R>, tbl: &Abbreviations, o: usize) -> String {
    let mut c = match h.entries_at_offset(tbl, UnitOffset(o)) {
        Ok(c) => c,
        Err(e) => return format!("!{}", errname(&e)),
    };
    match c.next_entry() {
        Err(e) => return format!("!{}", errname(&e)),
        Ok(false) => return "end".to_string(),
        Ok(true) => {}
    }
    if c.current().is_none() {
        return "null".to_string();
    }
    let mut out = Vec::new();
    loop {
        match c.next_sibling() {
            Ok(Some(e)) => out.push(format!("{}", e.offset().0)),
            Ok(None) => return with_err(",", out, None),
            Err(e) => return with_err(",", out, Some(e)),
        }
    }
}

fn tree_rec(node: EntriesTreeNode<R>, full: bool, out: &mut Vec<String>) -> Result<(), gimli::Error> {
    {
        let e = node.entry();
        out.push(if full { show_entry(e, e.depth()) } else { format!("{}:{}", e.offset().0, e.depth()) });
    }
    let mut ch = node.children();
    while let Some(child) = ch.next()? {
        tree_rec(child, full, out)?;
    }
    // an exhausted iterator stays exhausted
    if ch.next()?.is_some() {
        out.push("tree-mismatch-iterator-restarted".to_string());
    }
    Ok(())
}

/// selection strategies of the partial traversals — the same function as sel_of_key in ocaml/s_c02.ml.
/// None: the children are not requested; Some(n): stop after n children and return to the parent's list.
fn mix8(off: u64, tag: u64, key: u64) -> u64 {
    let mut x = off.wrapping_mul(0x9E3779B97F4A7C15) ^ tag.wrapping_mul(0xC2B2AE3D27D4EB4F) ^ key.wrapping_mul(0x165667B19E3779F9);
    x ^= x >> 29;
    x = x.wrapping_mul(0xBF58476D1CE4E5B9);
    x ^= x >> 32;
    (x >> 40) & 7
}

fn sel_raw(off: usize, depth: isize, tag: u16, has_children: bool, has_sib: bool, key: u64) -> Option<usize> {
    let all = Some(usize::MAX);
    let bare = depth > 0 && has_children && !has_sib;
    if key == 0 {
        return if off % 3 == 0 { None } else { all };
    }
    match key & 3 {
        1 => if bare { None } else { all },
        2 => if bare { Some(1) } else { all },
        _ => match mix8(off as u64, tag as u64, key) {
            0 | 1 => None,
            2 => Some(0),
            3 => Some(1),
            4 => Some(2),
            _ => all,
        },
    }
}

fn sel(e: &DebuggingInformationEntry<R>, depth: isize, key: u64) -> Option<usize> {
    sel_raw(e.offset().0, depth, e.tag().0, e.has_children(), e.attr(gimli::DW_AT_sibling).is_some(), key)
}

/// the tree recursion when the caller does not iterate the children of every node, or stops part-way
/// through a child list
fn tree_rec_sel(node: EntriesTreeNode<R>, key: u64, out: &mut Vec<String>) -> Result<(), gimli::Error> {
    let s = {
        let e = node.entry();
        out.push(format!("{}:{}", e.offset().0, e.depth()));
        sel(e, e.depth(), key)
    };
    let Some(n) = s else { return Ok(()) };
    let mut ch = node.children();
    let mut left = n;
    while left > 0 {
        left -= 1;
        match ch.next()? {
            Some(child) => tree_rec_sel(child, key, out)?,
            None => break,
        }
    }
    Ok(())
}

fn style_skip_one(h: &UnitHeader<R>, tbl: &Abbreviations, key: u64) -> String {
    let mut tree = match h.entries_tree(tbl, None) {
        Ok(t) => t,
        Err(e) => return format!("!{}", errname(&e)),
    };
    let mut out = Vec::new();
    let r = match tree.root() {
        Ok(root) => tree_rec_sel(root, key, &mut out),
        Err(e) => Err(e),
    };
    with_err(",", out, r.err())
}

fn style_skip(h: &UnitHeader<R>, tbl: &Abbreviations, key: u64) -> String {
    format!("{}|{}", style_skip_one(h, tbl, 0), style_skip_one(h, tbl, key))
}

fn style_tree(h: &UnitHeader<R>, tbl: &Abbreviations, off: Option<usize>, full: bool, sep: &str) -> String {
    let mut tree = match h.entries_tree(tbl, off.map(UnitOffset)) {
        Ok(t) => t,
        Err(e) => return format!("!{}", errname(&e)),
    };
    let mut out = Vec::new();
    let r = match tree.root() {
        Ok(root) => tree_rec(root, full, &mut out),
        Err(e) => Err(e),
    };
    with_err(sep, out, r.err())
}

/// recursive walk with cloned cursors: next_entry to the first child, next_sibling along the list;
/// `key` = None visits everything, Some(k) applies the selection strategy k
fn sibwalk(c: &EntriesCursor<R>, level: isize, key: Option<u64>, out: &mut Vec<String>) -> Result<(), gimli::Error> {
    let (has_children, text, s) = match c.current() {
        Some(e) => (
            e.has_children(),
            format!("{}:{}:{}", e.offset().0, level, e.tag().0),
            match key {
                Some(k) => sel(e, e.depth(), k),
                None => Some(usize::MAX),
            },
        ),
        None => return Ok(()),
    };
    out.push(text);
    if let (true, Some(n)) = (has_children, s) {
        let mut k = c.clone();
        if !k.next_entry()? {
            return Ok(());
        }
        let mut left = n;
        while k.current().is_some() && left > 0 {
            left -= 1;
            sibwalk(&k, level + 1, key, out)?;
            if k.next_sibling()?.is_none() {
                break;
            }
        }
    }
    Ok(())
}

fn style_walk_one(h: &UnitHeader<R>, tbl: &Abbreviations, key: Option<u64>) -> String {
    let mut out = Vec::new();
    let mut c = h.entries(tbl);
    let r = (|| -> Result<(), gimli::Error> {
        if !c.next_entry()? {
            return Ok(());
        }
        while c.current().is_some() {
            sibwalk(&c, 0, key, &mut out)?;
            if c.next_sibling()?.is_none() {
                break;
            }
        }
        Ok(())
    })();
    with_err(";", out, r.err())
}

fn style_walk(h: &UnitHeader<R>, tbl: &Abbreviations, key: u64) -> String {
    format!("{}|{}", style_walk_one(h, tbl, None), style_walk_one(h, tbl, Some(key)))
}

/// what a partial traversal has to report, computed from the raw entry sequence alone: entry i, then —
/// if selected — its first n children (the entries one level deeper up to the null closing the list)
fn expect_sel(ents: &[Ent], i: usize, key: Option<u64>, with_tag: bool, out: &mut Vec<String>) {
    let x = &ents[i];
    out.push(if with_tag { format!("{}:{}:{}", x.off, x.depth, x.tag) } else { format!("{}:{}", x.off, x.depth) });
    let s = match key {
        Some(k) => sel_raw(x.off, x.depth, x.tag, x.children, x.has_sib, k),
        None => Some(usize::MAX),
    };
    let Some(n) = s else { return };
    if !x.children {
        return;
    }
    let mut left = n;
    let mut j = i + 1;
    while left > 0 && j < ents.len() && ents[j].depth == x.depth + 1 && !ents[j].null {
        left -= 1;
        expect_sel(ents, j, key, with_tag, out);
        let d = ents[j].depth;
        j += 1;
        while j < ents.len() && ents[j].depth > d {
            j += 1;
        }
    }
}

fn sample_indices(n: usize) -> Vec<usize> {
    if n <= 24 {
        return (0..n).collect();
    }
    let k = std::cmp::max(4, 600 / n);
    let mut l: Vec<usize> = (0..k).map(|i| i * n / k).collect();
    l.push(n - 1);
    l.sort();
    l.dedup();
    l
}

struct Styles {
    raw: String,
    ent: String,
    dfs: String,
    sib: String,
    walk: String,
    tree: String,
    skip: String,
    at: String,
    from: String,
    sub: String,
    oracle: Option<String>,
}

fn per_off(offsets: &[usize], f: &mut dyn FnMut(usize) -> String) -> String {
    let l: Vec<String> = offsets.iter().map(|&o| format!("{}>{}", o, f(o))).collect();
    join(";", &l)
}

/// every navigation style over one unit; `nav` = malformed-input mode (every byte offset, no oracle)
fn styles(h: &UnitHeader<R>, tbl: &Abbreviations, nav: bool, key: u64) -> Styles {
    let (raw_ents, raw_err) = style_raw(h, tbl);
    let raw = with_err(";", ents_text(&raw_ents), raw_err.clone());
    let ent = style_ent(h, tbl);
    let dfs = dfs_from(h.entries(tbl), true, ";");
    let nonnull: Vec<(usize, &Ent)> = raw_ents.iter().enumerate().filter(|(_, e)| !e.null).collect();
    let offsets: Vec<usize> = if nav {
        let hs = h.header_size();
        let nbuf = h.length_including_self() - hs;
        let mut l: Vec<usize> = vec![0, usize::MAX];
        for i in 0..nbuf + 3 {
            if hs + i >= 1 {
                l.push(hs + i - 1);
            }
        }
        l.sort();
        l.dedup();
        l
    } else {
        sample_indices(nonnull.len()).iter().map(|&i| nonnull[i].1.off).collect()
    };
    let sib = per_off(&offsets, &mut |o| style_sib_at(h, tbl, o));
    let walk = if nav { String::new() } else { style_walk(h, tbl, key) };
    let tree = style_tree(h, tbl, None, true, ";");
    let skip = style_skip(h, tbl, key);
    let at = per_off(&offsets, &mut |o| match h.entry(tbl, UnitOffset(o)) {
        Ok(e) => show_entry(&e, e.depth()),
        Err(e) => format!("!{}", errname(&e)),
    });
    let from = per_off(&offsets, &mut |o| match h.entries_at_offset(tbl, UnitOffset(o)) {
        Ok(c) => dfs_from(c, false, ","),
        Err(e) => format!("!{}", errname(&e)),
    });
    let sub = per_off(&offsets, &mut |o| style_tree(h, tbl, Some(o), false, ","));

    // impl-only oracle: everything is determined by the raw sequence (well-formed units only)
    let mut oracle = None;
    if !nav && raw_err.is_none() {
        let mut bad = |style: &str, expected: &str, actual: &str| {
            if oracle.is_none() && expected != actual {
                let i = expected.bytes().zip(actual.bytes()).take_while(|(a, b)| a == b).count();
                let lo = i.saturating_sub(20);
                oracle = Some(format!(
                    "nav-mismatch {} at {} expected ..{} actual ..{}",
                    style,
                    i,
                    &expected[lo..std::cmp::min(expected.len(), i + 30)].replace(' ', "_"),
                    &actual[lo..std::cmp::min(actual.len(), i + 30)].replace(' ', "_")
                ));
            }
        };
        bad("ent", &raw, &ent);
        let nn: Vec<Ent> = nonnull.iter().map(|(_, e)| (*e).clone()).collect();
        bad("dfs", &join(";", &ents_text(&nn)), &dfs);
        let idx = sample_indices(nonnull.len());
        // following siblings / subtree / suffix of entry number k (index i in the raw sequence)
        let mut e_sib = Vec::new();
        let mut e_at = Vec::new();
        let mut e_from = Vec::new();
        let mut e_sub = Vec::new();
        for &k in &idx {
            let (i, e) = nonnull[k];
            let d = e.depth;
            let mut sibs = Vec::new();
            for x in &raw_ents[i + 1..] {
                if x.depth > d {
                    continue;
                }
                if x.depth < d || x.null {
                    break;
                }
                sibs.push(format!("{}", x.off));
            }
            e_sib.push(format!("{}>{}", e.off, join(",", &sibs)));
            e_at.push(format!("{}>{}", e.off, e.text0));
            let fr: Vec<String> = raw_ents[i..].iter().filter(|x| !x.null).map(|x| format!("{}:{}", x.off, x.depth - d)).collect();
            e_from.push(format!("{}>{}", e.off, join(",", &fr)));
            let mut sb = vec![format!("{}:0", e.off)];
            for x in &raw_ents[i + 1..] {
                if x.depth <= d {
                    break;
                }
                if !x.null {
                    sb.push(format!("{}:{}", x.off, x.depth - d));
                }
            }
            e_sub.push(format!("{}>{}", e.off, join(",", &sb)));
        }
        bad("sib", &join(";", &e_sib), &sib);
        bad("at", &join(";", &e_at), &at);
        bad("from", &join(";", &e_from), &from);
        bad("sub", &join(";", &e_sub), &sub);
        // the tree of the first entry; the clone walk visits every top-level entry up to the first null
        if let Some(first) = raw_ents.first() {
            if !first.null {
                let mut tr = vec![show_ent_at(&first.text0, first.off, first.depth)];
                for x in &raw_ents[1..] {
                    if x.depth <= first.depth {
                        break;
                    }
                    if !x.null {
                        tr.push(show_ent_at(&x.text0, x.off, x.depth));
                    }
                }
                bad("tree", &join(";", &tr), &tree);
                // partial traversals: strategy 0 and strategy `key`
                let mut sk0 = Vec::new();
                expect_sel(&raw_ents, 0, Some(0), false, &mut sk0);
                let mut sk1 = Vec::new();
                expect_sel(&raw_ents, 0, Some(key), false, &mut sk1);
                bad("skip", &format!("{}|{}", join(",", &sk0), join(",", &sk1)), &skip);
            }
        }
        // the clone walk visits every top-level entry up to the first null: everything, and strategy `key`
        let mut wk = Vec::new();
        let mut wk1 = Vec::new();
        let mut j = 0;
        while j < raw_ents.len() && raw_ents[j].depth == 0 && !raw_ents[j].null {
            expect_sel(&raw_ents, j, None, true, &mut wk);
            expect_sel(&raw_ents, j, Some(key), true, &mut wk1);
            j += 1;
            while j < raw_ents.len() && raw_ents[j].depth > 0 {
                j += 1;
            }
        }
        bad("walk", &format!("{}|{}", join(";", &wk), join(";", &wk1)), &walk);
    }
    Styles { raw, ent, dfs, sib, walk, tree, skip, at, from, sub, oracle }
}

// <be> <types> <info hex> <abbrev hex>
fn forest(t: &[&str], nav: bool) -> String {
    let en = endian(t[1]);
    let types = t[2] == "1";
    let info = hex(t[3]);
    let abb = hex(t[4]);
    let h = if types {
        match DebugTypes::new(&info, en).units().next() {
            Ok(Some(h)) => h,
            Ok(None) => return "nounit".to_string(),
            Err(e) => return err(&e),
        }
    } else {
        match DebugInfo::new(&info, en).units().next() {
            Ok(Some(h)) => h,
            Ok(None) => return "nounit".to_string(),
            Err(e) => return err(&e),
        }
    };
    let hdr = format!("hdr={}", show_hdr(&h));
    let da = DebugAbbrev::new(&abb, en);
    let tbl = match h.abbreviations(&da) {
        Ok(t) => t,
        Err(e) => return format!("abbrev!{} {} abbrev=!{}", errname(&e), hdr, errname(&e)),
    };
    let key: u64 = t.get(5).and_then(|k| k.parse().ok()).unwrap_or(0);
    let s = styles(&h, &tbl, nav, key);
    if let Some(o) = s.oracle {
        return o;
    }
    let tok = |full: bool, name: &str, v: &str| format!("{}={}", name, if full { v.to_string() } else { fnv(v) });
    let mut toks = vec![hdr, tok(true, "raw", &s.raw), tok(nav, "ent", &s.ent), tok(nav, "dfs", &s.dfs), tok(nav, "sib", &s.sib)];
    if !nav {
        toks.push(tok(false, "walk", &s.walk));
    }
    toks.push(tok(nav, "tree", &s.tree));
    toks.push(tok(nav, "skip", &s.skip));
    toks.push(tok(nav, "at", &s.at));
    toks.push(tok(nav, "from", &s.from));
    toks.push(tok(nav, "sub", &s.sub));
    // first token: outcome class of raw reading
    let last = s.raw.rsplit(';').next().unwrap_or("");
    let class = if last.starts_with('!') { format!("raw{}", last) } else { "ok".to_string() };
    format!("{} {}", class, toks.join(" "))
}

// ------------------------------------------------------------------ EntriesRaw::new with any offset

// <be> <version> <fmt64> <asz> <offset> <body hex> <abbrev hex> <abbrev offset>
fn rawnew(t: &[&str]) -> String {
    let en = endian(t[1]);
    let encoding = gimli::Encoding {
        version: t[2].parse().unwrap(),
        format: if t[3] == "1" { Format::Dwarf64 } else { Format::Dwarf32 },
        address_size: t[4].parse().unwrap(),
    };
    let off = u(t[5]) as usize;
    let body = hex(t[6]);
    let abb = hex(t[7]);
    let aoff = u(t[8]) as usize;
    let tbl = match DebugAbbrev::new(&abb, en).abbreviations(gimli::DebugAbbrevOffset(aoff)) {
        Ok(t) => t,
        Err(e) => return err(&e),
    };
    let mut raw = gimli::EntriesRaw::new(EndianSlice::new(&body, en), encoding, &tbl, UnitOffset(off));
    let mut out = Vec::new();
    let mut entry = DebuggingInformationEntry::null();
    let mut error = None;
    while !raw.is_empty() {
        match raw.read_entry(&mut entry) {
            Ok(_) => out.push(show_entry(&entry, entry.depth())),
            Err(e) => {
                error = Some(e);
                break;
            }
        }
    }
    format!("ok {}", with_err(";", out, error))
}

// ------------------------------------------------------------------ corpus

fn corpus_dir() -> String {
    std::env::var("GV_CORPUS")
        .unwrap_or_else(|_| concat!(env!("CARGO_MANIFEST_DIR"), "/../corpus/sections").to_string())
}

fn load(variant: &str, name: &str) -> Vec<u8> {
    let d = format!("{}/{}", corpus_dir(), variant);
    std::fs::read(format!("{}/{}", d, name))
        .or_else(|_| std::fs::read(format!("{}/{}.dwo", d, name)))
        .unwrap_or_default()
}

// <variant>
fn corpus(t: &[&str]) -> String {
    let v = t[1];
    // in package files the abbreviation offsets are relative to index contributions
    if v.ends_with("dwp") {
        return "ok".to_string();
    }
    let info = load(v, "debug_info");
    let types = load(v, "debug_types");
    let abb = load(v, "debug_abbrev");
    let en = RunTimeEndian::Little;
    let da = DebugAbbrev::new(&abb, en);
    let mut check = |h: UnitHeader<R>| -> Option<String> {
        let tbl = match h.abbreviations(&da) {
            Ok(t) => t,
            Err(e) => return Some(format!("corpus-mismatch {} abbreviations {}", v, err(&e))),
        };
        // partial traversals of compiler output: the on-purpose strategies and a hashed one, by unit
        let key = (h.length_including_self() as u64) | 1;
        let key = if key % 8 == 7 { key } else { (key & !3) | (1 + (key >> 3) % 2) };
        let s = styles(&h, &tbl, false, key);
        if s.raw.contains('!') {
            return Some(format!("corpus-mismatch {} unit {} raw error", v, h.offset().0));
        }
        s.oracle.map(|o| format!("{} unit {}", o, h.offset().0))
    };
    let mut n = 0;
    let mut it = DebugInfo::new(&info, en).units();
    loop {
        match it.next() {
            Ok(Some(h)) => {
                n += 1;
                if let Some(m) = check(h) {
                    return m;
                }
            }
            Ok(None) => break,
            Err(e) => return format!("corpus-mismatch {} units {}", v, err(&e)),
        }
    }
    let mut it = DebugTypes::new(&types, en).units();
    loop {
        match it.next() {
            Ok(Some(h)) => {
                n += 1;
                if let Some(m) = check(h) {
                    return m;
                }
            }
            Ok(None) => break,
            Err(e) => return format!("corpus-mismatch {} type units {}", v, err(&e)),
        }
    }
    // Dwarf::units is the same iterator; Dwarf::unit accepts every header of a non-split file
    let _ = n;
    "ok".to_string()
}

pub fn run(t: &[&str]) -> String {
    match t[0] {
        "c02.abbrev" | "c02.abbrevbytes" => abbrev(t),
        "c02.header" | "c02.headerbytes" => header(t),
        "c02.forest" => forest(t, false),
        "c02.nav" => forest(t, true),
        "c02.rawnew" => rawnew(t),
        "c02.corpus" => corpus(t),
        _ => format!("unknown-stream {}", t[0]),
    }
}
