// gv-impl — runs the real gimli entry points on the cases produced by gv-model.
// stdin: one case per line (`<stream> tok tok ...`), stdout: one canonical result per line.
// A panic inside gimli is caught and printed as `panic`. A per-case watchdog prints `hang` for a case
// that does not return within GV_CASE_TIMEOUT seconds (default 20) and exits with status 3; the driver
// restarts the harness on the remaining cases.
#![allow(clippy::all)]
#![allow(unused)]
pub mod util;
pub mod dump;
pub mod reuse;
include!(concat!(env!("OUT_DIR"), "/dispatch.rs"));

use std::io::{BufRead, Write};
use std::panic;
use std::sync::atomic::{AtomicU64, Ordering};
use std::sync::{Arc, Mutex};
use std::time::{Duration, Instant};

/// user+system CPU time of this process in milliseconds (Linux: /proc/self/stat fields 14 and 15, USER_HZ = 100)
fn process_cpu_ms() -> Option<u64> {
    let st = std::fs::read_to_string("/proc/self/stat").ok()?;
    let rest = &st[st.rfind(')')? + 1..];
    let f: Vec<&str> = rest.split_whitespace().collect();
    let ut: u64 = f.get(11)?.parse().ok()?;
    let stt: u64 = f.get(12)?.parse().ok()?;
    Some((ut + stt) * 10)
}

fn main() {
    if std::env::var_os("GV_VERBOSE").is_none() {
        panic::set_hook(Box::new(|_| {}));
    }
    let flush_each = std::env::var_os("GV_FLUSH").is_some();
    let case_timeout: u64 = std::env::var("GV_CASE_TIMEOUT").ok().and_then(|s| s.parse().ok()).unwrap_or(20);
    let out: Arc<Mutex<Vec<u8>>> = Arc::new(Mutex::new(Vec::with_capacity(1 << 16)));
    let started = Arc::new(AtomicU64::new(0)); // number of cases started so far
    let epoch = Instant::now();
    let started_at = Arc::new(AtomicU64::new(0)); // millis since epoch when the current case started
    {
        // The watchdog measures the CPU time the process has consumed while one case is current, not wall-clock
        // time: a case that loops forever burns CPU, whereas a process that is starved on a loaded machine or
        // blocked writing its results does not, and must not be reported as hanging.
        let (out, started) = (out.clone(), started.clone());
        let _ = &started_at;
        std::thread::spawn(move || {
            let mut last_seen = 0u64;
            let mut cpu_at_first_sight = process_cpu_ms();
            let mut wall_at_first_sight = Instant::now();
            loop {
                std::thread::sleep(Duration::from_millis(250));
                let n = started.load(Ordering::SeqCst);
                if n == 0 || n != last_seen {
                    last_seen = n;
                    cpu_at_first_sight = process_cpu_ms();
                    wall_at_first_sight = Instant::now();
                    continue;
                }
                let stuck = match (process_cpu_ms(), cpu_at_first_sight) {
                    (Some(now), Some(t0)) => now.saturating_sub(t0) > case_timeout * 1000,
                    // no /proc: fall back to a generous wall-clock limit
                    _ => wall_at_first_sight.elapsed().as_secs() > case_timeout * 30,
                };
                if stuck {
                    // the current case is stuck: report it and give up on this process
                    let mut buf = out.lock().unwrap_or_else(|e| e.into_inner());
                    buf.extend_from_slice(b"hang\n");
                    let so = std::io::stdout();
                    let mut so = so.lock();
                    let _ = so.write_all(&buf);
                    let _ = so.flush();
                    std::process::exit(3);
                }
            }
        });
    }
    let stdin = std::io::stdin();
    for line in stdin.lock().lines() {
        let line = match line {
            Ok(l) => l,
            Err(_) => break,
        };
        let toks: Vec<&str> = line.split(' ').collect();
        if toks.is_empty() || toks[0].is_empty() {
            continue;
        }
        started_at.store(epoch.elapsed().as_millis() as u64, Ordering::SeqCst);
        started.fetch_add(1, Ordering::SeqCst);
        let r = panic::catch_unwind(|| dispatch(&toks));
        let s = match r {
            Ok(s) => s,
            Err(_) => "panic".to_string(),
        };
        let mut buf = out.lock().unwrap_or_else(|e| e.into_inner());
        buf.extend_from_slice(s.as_bytes());
        buf.push(b'\n');
        if flush_each || buf.len() > (1 << 16) {
            let so = std::io::stdout();
            let mut so = so.lock();
            let _ = so.write_all(&buf);
            let _ = so.flush();
            buf.clear();
        }
    }
    started.store(0, Ordering::SeqCst);
    let buf = out.lock().unwrap_or_else(|e| e.into_inner());
    let so = std::io::stdout();
    let mut so = so.lock();
    let _ = so.write_all(&buf);
    let _ = so.flush();
}
