// gv-impl — runs the real gimli entry points on the cases produced by gv-model.
// stdin: one case per line (`<stream> tok tok ...`), stdout: one canonical result per line.
// A panic inside gimli is caught and printed as `panic`.
#![allow(clippy::all)]
#![allow(unused)]
pub mod util;
pub mod dump;
pub mod reuse;
include!(concat!(env!("OUT_DIR"), "/dispatch.rs"));

use std::io::{BufRead, Write};
use std::panic;

fn main() {
    if std::env::var_os("GV_VERBOSE").is_none() {
        panic::set_hook(Box::new(|_| {}));
    }
    let stdin = std::io::stdin();
    let stdout = std::io::stdout();
    let mut out = std::io::BufWriter::with_capacity(1 << 16, stdout.lock());
    let flush_each = std::env::var_os("GV_FLUSH").is_some();
    for line in stdin.lock().lines() {
        let line = match line {
            Ok(l) => l,
            Err(_) => break,
        };
        let toks: Vec<&str> = line.split(' ').collect();
        if toks.is_empty() || toks[0].is_empty() {
            continue;
        }
        let r = panic::catch_unwind(|| dispatch(&toks));
        let s = match r {
            Ok(s) => s,
            Err(_) => "panic".to_string(),
        };
        let _ = writeln!(out, "{}", s);
        if flush_each {
            let _ = out.flush();
        }
    }
    let _ = out.flush();
}
