// c15.rs — write::Expression (src/write/op.rs) embedded in a DIE attribute (unit.rs), a location list
// (loc.rs) or a CFI instruction (cfi.rs).
//
// case:  c15.expr <ctx> <version> <fmt 0|1> <asize> <be 0|1> <ctx args...> <script...>
//   ctx die|loc : args = <kids> <holder> <other 0|1|2>      kids: string over b (DW_TAG_base_type),
//                 v (DW_TAG_variable), x (variable that is then deleted from the tree); holder = index into
//                 kids of the DIE carrying DW_AT_location; other: a second unit before (1) / after (2) the main one
//   ctx cfi     : args = <kind cfa|ex|vx> <eh 0|1>
//   script      : builder calls, see `parse`.  Entries are named by their UnitEntryId index in the main unit
//                 (0 = root, i+1 = kid i); references are `<k|o|y> <index>` (main-unit entry, entry of the
//                 other unit, symbol).
// result: `ok <expression bytes> <operations decoded by read::Expression::operations>`
//         `err <Variant>` | `panic`
//         `readback-mismatch <detail>` when the semantic oracle fails: the emitted bytes, decoded by gimli's
//         own reader, are not the operations that were built (up to the documented shorter encodings), a
//         branch does not land on the start of its target operation, an entry reference does not resolve to
//         the intended entry, or the length prefix disagrees with the emitted length (the enclosing
//         DIE / list / CFI structure no longer parses back as built).
use crate::util::*;
use gimli::read::{self, Reader, UnwindSection};
use gimli::write::{
    self, Address, AttributeValue, CallFrameInstruction, CommonInformationEntry, DebugInfoRef, Dwarf,
    EndianVec, Expression, FrameDescriptionEntry, FrameTable, LineProgram, Location, LocationList,
    Sections, Unit, UnitEntryId, UnitId,
};
use gimli::{constants, Encoding, EndianSlice, Format, Register, RunTimeEndian, SectionId};

#[derive(Clone, Debug)]
enum Rf {
    Kid(usize),
    Other(usize),
    Sym(usize),
}

#[derive(Clone, Debug)]
enum Sop {
    Raw(Vec<u8>),
    Simple(u8),
    Addr(u64),
    AddrSym(usize, i64),
    Cu(u64),
    Cs(i64),
    Ct(usize, Vec<u8>),
    Fb(i64),
    Br(u16, i64),
    Rt(u16, usize),
    Pk(u8),
    D(bool),
    Ds(bool, u8),
    Dt(bool, u8, usize),
    Pu(u64),
    Sk,
    Bra,
    St(usize, usize),
    Call(usize),
    Cr(Rf),
    Vv(Rf),
    Cv(Option<usize>),
    Ri(Option<usize>),
    Ev(Vec<Sop>),
    Reg(u16),
    Iv(Vec<u8>),
    Ip(Rf, i64),
    Pc(u64),
    Bp(u64, u64),
    Pr(usize),
    Wl(u32),
    Wg(u32),
    Ws(u32),
}

fn us(t: &str) -> usize {
    t.parse::<usize>().unwrap_or_else(|_| panic!("bad usize token {}", t))
}

fn parse_ref(t: &[&str], p: &mut usize) -> Rf {
    let k = t[*p];
    let n = us(t[*p + 1]);
    *p += 2;
    match k {
        "k" => Rf::Kid(n),
        "o" => Rf::Other(n),
        _ => Rf::Sym(n),
    }
}

fn parse_opt(t: &str) -> Option<usize> {
    if t == "-1" {
        None
    } else {
        Some(us(t))
    }
}

/// parse until end of tokens or a closing `eve`
fn parse(t: &[&str], p: &mut usize) -> Vec<Sop> {
    let mut v = Vec::new();
    while *p < t.len() {
        let name = t[*p];
        *p += 1;
        macro_rules! a {
            () => {{
                let x = t[*p];
                *p += 1;
                x
            }};
        }
        let op = match name {
            "eve" => return v,
            "raw" => Sop::Raw(hex(a!())),
            "s" => Sop::Simple(u(a!()) as u8),
            "addr" => Sop::Addr(u(a!())),
            "addrsym" => {
                let s = us(a!());
                Sop::AddrSym(s, i(a!()))
            }
            "cu" => Sop::Cu(u(a!())),
            "cs" => Sop::Cs(i(a!())),
            "ct" => {
                let b = us(a!());
                Sop::Ct(b, hex(a!()))
            }
            "fb" => Sop::Fb(i(a!())),
            "br" => {
                let r = u(a!()) as u16;
                Sop::Br(r, i(a!()))
            }
            "rt" => {
                let r = u(a!()) as u16;
                Sop::Rt(r, us(a!()))
            }
            "pk" => Sop::Pk(u(a!()) as u8),
            "d" => Sop::D(false),
            "xd" => Sop::D(true),
            "ds" => Sop::Ds(false, u(a!()) as u8),
            "xds" => Sop::Ds(true, u(a!()) as u8),
            "dt" => {
                let s = u(a!()) as u8;
                Sop::Dt(false, s, us(a!()))
            }
            "xdt" => {
                let s = u(a!()) as u8;
                Sop::Dt(true, s, us(a!()))
            }
            "pu" => Sop::Pu(u(a!())),
            "sk" => Sop::Sk,
            "bra" => Sop::Bra,
            "st" => {
                let o = us(a!());
                Sop::St(o, us(a!()))
            }
            "call" => Sop::Call(us(a!())),
            "cr" => Sop::Cr(parse_ref(t, p)),
            "vv" => Sop::Vv(parse_ref(t, p)),
            "cv" => Sop::Cv(parse_opt(a!())),
            "ri" => Sop::Ri(parse_opt(a!())),
            "evb" => Sop::Ev(parse(t, p)),
            "reg" => Sop::Reg(u(a!()) as u16),
            "iv" => Sop::Iv(hex(a!())),
            "ip" => {
                let r = parse_ref(t, p);
                Sop::Ip(r, i(a!()))
            }
            "pc" => Sop::Pc(u(a!())),
            "bp" => {
                let s = u(a!());
                Sop::Bp(s, u(a!()))
            }
            "pr" => Sop::Pr(us(a!())),
            "wl" => Sop::Wl(u(a!()) as u32),
            "wg" => Sop::Wg(u(a!()) as u32),
            "ws" => Sop::Ws(u(a!()) as u32),
            other => panic!("bad script token {}", other),
        };
        v.push(op);
    }
    v
}

/// ids of the entries a script can name
struct Ids {
    main: Option<UnitId>,
    entries: Vec<UnitEntryId>, // by entry index of the main unit
    other: Option<UnitId>,
    other_entries: Vec<UnitEntryId>,
}

impl Ids {
    fn entry(&self, n: usize) -> UnitEntryId {
        self.entries[n]
    }
    fn dref(&self, r: &Rf) -> DebugInfoRef {
        match *r {
            Rf::Kid(n) => DebugInfoRef::Entry(self.main.unwrap(), self.entries[n]),
            Rf::Other(n) => DebugInfoRef::Entry(self.other.unwrap(), self.other_entries[n]),
            Rf::Sym(n) => DebugInfoRef::Symbol(n),
        }
    }
}

fn build(script: &[Sop], ids: &Ids) -> Expression {
    let mut e = match script.first() {
        Some(Sop::Raw(b)) => Expression::raw(b.clone()),
        _ => Expression::new(),
    };
    for (n, op) in script.iter().enumerate() {
        match op {
            Sop::Raw(b) => {
                if n != 0 {
                    // a raw block in the middle: nest it so that the builder API is still the only door
                    panic!("raw only first");
                }
                let _ = b;
            }
            Sop::Simple(o) => e.op(constants::DwOp(*o)),
            Sop::Addr(a) => e.op_addr(Address::Constant(*a)),
            Sop::AddrSym(s, a) => e.op_addr(Address::Symbol { symbol: *s, addend: *a }),
            Sop::Cu(v) => e.op_constu(*v),
            Sop::Cs(v) => e.op_consts(*v),
            Sop::Ct(b, v) => e.op_const_type(ids.entry(*b), v.clone().into_boxed_slice()),
            Sop::Fb(o) => e.op_fbreg(*o),
            Sop::Br(r, o) => e.op_breg(Register(*r), *o),
            Sop::Rt(r, b) => e.op_regval_type(Register(*r), ids.entry(*b)),
            Sop::Pk(i) => e.op_pick(*i),
            Sop::D(false) => e.op_deref(),
            Sop::D(true) => e.op_xderef(),
            Sop::Ds(false, s) => e.op_deref_size(*s),
            Sop::Ds(true, s) => e.op_xderef_size(*s),
            Sop::Dt(false, s, b) => e.op_deref_type(*s, ids.entry(*b)),
            Sop::Dt(true, s, b) => e.op_xderef_type(*s, ids.entry(*b)),
            Sop::Pu(v) => e.op_plus_uconst(*v),
            Sop::Sk => {
                let idx = e.next_index();
                let got = e.op_skip();
                assert_eq!(idx, got);
            }
            Sop::Bra => {
                let idx = e.next_index();
                let got = e.op_bra();
                assert_eq!(idx, got);
            }
            Sop::St(o, t) => e.set_target(*o, *t),
            Sop::Call(b) => e.op_call(ids.entry(*b)),
            Sop::Cr(r) => e.op_call_ref(ids.dref(r)),
            Sop::Vv(r) => e.op_variable_value(ids.dref(r)),
            Sop::Cv(b) => e.op_convert(b.map(|b| ids.entry(b))),
            Sop::Ri(b) => e.op_reinterpret(b.map(|b| ids.entry(b))),
            Sop::Ev(inner) => e.op_entry_value(build(inner, ids)),
            Sop::Reg(r) => e.op_reg(Register(*r)),
            Sop::Iv(d) => e.op_implicit_value(d.clone().into_boxed_slice()),
            Sop::Ip(r, o) => e.op_implicit_pointer(ids.dref(r), *o),
            Sop::Pc(v) => e.op_piece(*v),
            Sop::Bp(s, o) => e.op_bit_piece(*s, *o),
            Sop::Pr(b) => e.op_gnu_parameter_ref(ids.entry(*b)),
            Sop::Wl(i) => e.op_wasm_local(*i),
            Sop::Wg(i) => e.op_wasm_global(*i),
            Sop::Ws(i) => e.op_wasm_stack(*i),
        }
    }
    e
}

// ------------------------------------------------------------------ the operation list as built

/// the operations of an expression after all set_target calls: (op, branch target)
fn logical(script: &[Sop]) -> Vec<(Sop, usize)> {
    let mut v: Vec<(Sop, usize)> = Vec::new();
    for op in script {
        match op {
            Sop::St(o, t) => {
                if *o < v.len() {
                    v[*o].1 = *t;
                }
            }
            Sop::Sk | Sop::Bra => v.push((op.clone(), usize::MAX)),
            _ => v.push((op.clone(), 0)),
        }
    }
    v
}

/// operand-less opcodes `Expression::op` is documented for, plus the other opcodes without operands
fn simple_class(o: u8) -> bool {
    matches!(o, 0x13 | 0x16 | 0x17 | 0x19..=0x22 | 0x24..=0x27 | 0x29..=0x2e | 0x96 | 0x97 | 0x9b | 0x9c | 0x9f | 0xe0 | 0xf0)
}

/// does the script stay inside what the semantic oracle can judge?
fn judgeable(script: &[Sop]) -> bool {
    script.iter().all(|op| match op {
        Sop::Raw(_) => false,
        Sop::Simple(o) => simple_class(*o),
        Sop::Pc(v) => *v < (1u64 << 61), // the reader keeps the size in bits in a u64
        Sop::Ev(inner) => judgeable(inner),
        _ => true,
    })
}

/// what reading the written sections back says about the entries
#[derive(Default, Debug)]
struct ReadInfo {
    /// main unit entries by entry index: (unit offset, .debug_info offset)
    main: Vec<Option<(u64, u64)>>,
    /// other unit entries: .debug_info offset
    other: Vec<Option<u64>>,
}

type Rd<'a> = EndianSlice<'a, RunTimeEndian>;

fn simple_opcode(op: &read::Operation<Rd>) -> Option<u8> {
    use read::Operation::*;
    Some(match op {
        Drop => 0x13,
        Swap => 0x16,
        Rot => 0x17,
        Abs => 0x19,
        And => 0x1a,
        Div => 0x1b,
        Minus => 0x1c,
        Mod => 0x1d,
        Mul => 0x1e,
        Neg => 0x1f,
        Not => 0x20,
        Or => 0x21,
        Plus => 0x22,
        Shl => 0x24,
        Shr => 0x25,
        Shra => 0x26,
        Xor => 0x27,
        Eq => 0x29,
        Ge => 0x2a,
        Gt => 0x2b,
        Le => 0x2c,
        Lt => 0x2d,
        Ne => 0x2e,
        Nop => 0x96,
        PushObjectAddress => 0x97,
        TLS => 0x9b,
        CallFrameCFA => 0x9c,
        StackValue => 0x9f,
        Uninitialized => 0xf0,
        _ => return None,
    })
}

/// canonical text of one decoded operation (same alphabet as ocaml/s_c15.ml)
fn show_op(op: &read::Operation<Rd>) -> String {
    use read::Operation::*;
    if let Some(o) = simple_opcode(op) {
        return format!("s{}", o);
    }
    match op {
        Deref { base_type, size, space } => format!("deref:{}:{}:{}", base_type.0, size, *space as u8),
        Pick { index } => format!("pick:{}", index),
        UnsignedConstant { value } => format!("uc:{}", value),
        SignedConstant { value } => format!("sc:{}", value),
        PlusConstant { value } => format!("pu:{}", value),
        Bra { target } => format!("bra:{}", target),
        Skip { target } => format!("skip:{}", target),
        Register { register } => format!("reg:{}", register.0),
        RegisterOffset { register, offset, base_type } => format!("breg:{}:{}:{}", register.0, offset, base_type.0),
        FrameOffset { offset } => format!("fb:{}", offset),
        Piece { size_in_bits, bit_offset } => format!(
            "piece:{}:{}",
            size_in_bits,
            bit_offset.map(|x| x.to_string()).unwrap_or_else(|| "-".into())
        ),
        Address { address } => format!("addr:{}", address),
        Call { offset: read::DieReference::UnitRef(o) } => format!("callu:{}", o.0),
        Call { offset: read::DieReference::DebugInfoRef(o) } => format!("callr:{}", o.0),
        VariableValue { offset } => format!("vv:{}", offset.0),
        ImplicitValue { data } => format!("iv:{}", tohex(data.slice())),
        ImplicitPointer { value, byte_offset } => format!("ip:{}:{}", value.0, byte_offset),
        AddressIndex { index } => format!("ax:{}", index.0),
        ConstantIndex { index } => format!("cx:{}", index.0),
        EntryValue { expression } => format!("ev:{}", tohex(expression.slice())),
        ParameterRef { offset } => format!("pr:{}", offset.0),
        TypedLiteral { base_type, value } => format!("tl:{}:{}", base_type.0, tohex(value.slice())),
        Convert { base_type } => format!("cv:{}", base_type.0),
        Reinterpret { base_type } => format!("ri:{}", base_type.0),
        WasmLocal { index } => format!("wl:{}", index),
        WasmGlobal { index } => format!("wg:{}", index),
        WasmStack { index } => format!("ws:{}", index),
        _ => "other".to_string(),
    }
}

/// decode with gimli's reader: (offset, op) list, the text form, and whether it decoded to the end
fn decode<'a>(bytes: &'a [u8], enc: Encoding, e: RunTimeEndian) -> (Vec<(usize, read::Operation<Rd<'a>>)>, String, bool) {
    let expr = read::Expression(EndianSlice::new(bytes, e));
    let mut it = expr.clone().operations(enc);
    let mut v = Vec::new();
    let mut s = String::new();
    let mut good = true;
    loop {
        let off = it.offset_from(&expr);
        match it.next() {
            Ok(Some(op)) => {
                if !s.is_empty() {
                    s.push(' ');
                }
                s.push_str(&format!("{}:{}", off, show_op(&op)));
                v.push((off, op));
            }
            Ok(None) => break,
            Err(_) => {
                if !s.is_empty() {
                    s.push(' ');
                }
                s.push_str("bad");
                good = false;
                break;
            }
        }
    }
    if s.is_empty() {
        s.push('-');
    }
    (v, s, good)
}

fn unit_off(info: &ReadInfo, n: usize) -> Result<u64, String> {
    info.main.get(n).and_then(|x| *x).map(|x| x.0).ok_or_else(|| format!("entry {} not found on read-back", n))
}

fn info_off(info: &ReadInfo, r: &Rf) -> Result<u64, String> {
    match *r {
        Rf::Kid(n) => info.main.get(n).and_then(|x| *x).map(|x| x.1).ok_or_else(|| format!("entry {} not found on read-back", n)),
        Rf::Other(n) => info.other.get(n).and_then(|x| *x).ok_or_else(|| format!("other entry {} not found on read-back", n)),
        Rf::Sym(_) => Err("symbol reference was written".into()),
    }
}

/// the semantic oracle on one (sub)expression
fn judge(script: &[Sop], bytes: &[u8], enc: Encoding, e: RunTimeEndian, info: &ReadInfo) -> Result<(), String> {
    use read::Operation as O;
    let ops = logical(script);
    let (dec, text, good) = decode(bytes, enc, e);
    if !good {
        return Err(format!("reader rejects the emitted bytes: {}", text));
    }
    if dec.len() != ops.len() {
        return Err(format!("built {} operations, decoded {}", ops.len(), dec.len()));
    }
    let mut starts: Vec<usize> = dec.iter().map(|x| x.0).collect();
    starts.push(bytes.len());
    for (k, ((sop, target), (_, op))) in ops.iter().zip(dec.iter()).enumerate() {
        let bad = |what: &str| Err(format!("op {} built {:?} decoded {} ({})", k, sop, show_op(op), what));
        let ok = match (sop, op) {
            (Sop::Simple(o), _) => {
                let want = if *o == 0xe0 { 0x9b } else { *o };
                simple_opcode(op) == Some(want)
            }
            (Sop::Addr(a), O::Address { address }) => a == address,
            (Sop::Cu(v), O::UnsignedConstant { value }) => v == value,
            (Sop::Cs(v), O::SignedConstant { value }) => v == value,
            (Sop::Ct(b, v), O::TypedLiteral { base_type, value }) => {
                base_type.0 as u64 == unit_off(info, *b)? && value.slice() == &v[..]
            }
            (Sop::Fb(o), O::FrameOffset { offset }) => o == offset,
            (Sop::Br(r, o), O::RegisterOffset { register, offset, base_type }) => {
                register.0 == *r && offset == o && base_type.0 == 0
            }
            (Sop::Rt(r, b), O::RegisterOffset { register, offset, base_type }) => {
                register.0 == *r && *offset == 0 && base_type.0 as u64 == unit_off(info, *b)?
            }
            (Sop::Pk(i), O::Pick { index }) => i == index,
            (Sop::D(sp), O::Deref { base_type, size, space }) => {
                base_type.0 == 0 && *size == enc.address_size && space == sp
            }
            (Sop::Ds(sp, s), O::Deref { base_type, size, space }) => base_type.0 == 0 && size == s && space == sp,
            (Sop::Dt(sp, s, b), O::Deref { base_type, size, space }) => {
                base_type.0 as u64 == unit_off(info, *b)? && size == s && space == sp
            }
            (Sop::Pu(v), O::PlusConstant { value }) => v == value,
            (Sop::Sk, O::Skip { target: d }) | (Sop::Bra, O::Bra { target: d }) => {
                // lands on the start of the intended operation (or the end of the expression)
                if *target >= starts.len() {
                    return bad("branch target index out of range was written");
                }
                let after = starts[k] as i64 + 3;
                after + i64::from(*d) == starts[*target] as i64
            }
            (Sop::Call(b), O::Call { offset: read::DieReference::UnitRef(o) }) => o.0 as u64 == unit_off(info, *b)?,
            (Sop::Cr(r), O::Call { offset: read::DieReference::DebugInfoRef(o) }) => o.0 as u64 == info_off(info, r)?,
            (Sop::Vv(r), O::VariableValue { offset }) => offset.0 as u64 == info_off(info, r)?,
            (Sop::Cv(b), O::Convert { base_type }) => match b {
                Some(b) => base_type.0 as u64 == unit_off(info, *b)?,
                None => base_type.0 == 0,
            },
            (Sop::Ri(b), O::Reinterpret { base_type }) => match b {
                Some(b) => base_type.0 as u64 == unit_off(info, *b)?,
                None => base_type.0 == 0,
            },
            (Sop::Ev(inner), O::EntryValue { expression }) => {
                judge(inner, expression.slice(), enc, e, info).map_err(|s| format!("in entry_value at op {}: {}", k, s))?;
                true
            }
            (Sop::Reg(r), O::Register { register }) => register.0 == *r,
            (Sop::Iv(d), O::ImplicitValue { data }) => data.slice() == &d[..],
            (Sop::Ip(r, o), O::ImplicitPointer { value, byte_offset }) => {
                value.0 as u64 == info_off(info, r)? && byte_offset == o
            }
            (Sop::Pc(v), O::Piece { size_in_bits, bit_offset }) => {
                Some(*size_in_bits) == v.checked_mul(8) && bit_offset.is_none()
            }
            (Sop::Bp(s, o), O::Piece { size_in_bits, bit_offset }) => size_in_bits == s && *bit_offset == Some(*o),
            (Sop::Pr(b), O::ParameterRef { offset }) => offset.0 as u64 == unit_off(info, *b)?,
            (Sop::Wl(i), O::WasmLocal { index }) => i == index,
            (Sop::Wg(i), O::WasmGlobal { index }) => i == index,
            (Sop::Ws(i), O::WasmStack { index }) => i == index,
            _ => false,
        };
        if !ok {
            return bad("differs");
        }
    }
    Ok(())
}

// ------------------------------------------------------------------ contexts

fn sect<'a>(s: &'a Sections<EndianVec<RunTimeEndian>>, id: SectionId) -> &'a [u8] {
    s.get(id).map(|w| w.slice()).unwrap_or(&[])
}

const MARK: constants::DwAt = constants::DW_AT_byte_size;

/// read the written units back: find every marked entry
fn read_units<'a>(
    dwarf: &read::Dwarf<Rd<'a>>,
    main_pos: usize,
    nkids: usize,
) -> Result<(ReadInfo, Option<Hold<'a>>), String> {
    // returns info and, for the holder, the exprloc bytes or the location list offset
    let mut info = ReadInfo { main: vec![None; nkids + 1], other: vec![None; 3] };
    let mut holder: Option<Hold<'a>> = None;
    let mut units = dwarf.units();
    let mut idx = 0usize;
    while let Some(h) = units.next().map_err(|e| format!("unit header: {:?}", e))? {
        let unit = dwarf.unit(h).map_err(|e| format!("unit: {:?}", e))?;
        let mut entries = unit.entries();
        let mut first = true;
        while let Some(entry) = entries.next_dfs().map_err(|e| format!("entries: {:?}", e))? {
            let uoff = entry.offset().0 as u64;
            let ioff = entry.offset().to_debug_info_offset(&unit.header).map(|o| o.0 as u64).unwrap_or(u64::MAX);
            let n = if first {
                first = false;
                if entry.tag() != constants::DW_TAG_compile_unit {
                    return Err("first DIE is not the compile unit".into());
                }
                Some(0usize)
            } else {
                match entry.attr_value(MARK) {
                    Some(read::AttributeValue::Udata(k)) => Some(k as usize + 1),
                    Some(read::AttributeValue::Data1(k)) => Some(k as usize + 1),
                    other => return Err(format!("DIE without marker: {:?}", other)),
                }
            };
            if let Some(n) = n {
                if idx == main_pos {
                    if n >= info.main.len() || info.main[n].is_some() {
                        return Err(format!("unexpected entry {} in main unit", n));
                    }
                    info.main[n] = Some((uoff, ioff));
                    if let Some(v) = entry.attr_value(constants::DW_AT_location) {
                        match v {
                            read::AttributeValue::Exprloc(x) => holder = Some(Hold::Expr(x.0)),
                            read::AttributeValue::Block(x) => holder = Some(Hold::Expr(x)),
                            read::AttributeValue::LocationListsRef(o) => holder = Some(Hold::List(o.0 as u64)),
                            read::AttributeValue::SecOffset(o) => holder = Some(Hold::List(o as u64)),
                            other => return Err(format!("DW_AT_location read back as {:?}", other)),
                        }
                    }
                } else {
                    if n >= info.other.len() || info.other[n].is_some() {
                        return Err(format!("unexpected entry {} in other unit", n));
                    }
                    info.other[n] = Some(ioff);
                }
            }
        }
        idx += 1;
    }
    Ok((info, holder))
}

enum Hold<'a> {
    Expr(Rd<'a>),
    List(u64),
}

fn run_unit(ctx: &str, enc: Encoding, e: RunTimeEndian, t: &[&str]) -> String {
    let kids = t[0];
    let holder = us(t[1]);
    let other_mode = us(t[2]);
    let mut p = 3usize;
    let script = parse(t, &mut p);

    let mut dwarf = Dwarf::new();
    let other_enc = Encoding { format: Format::Dwarf32, version: 4, address_size: 8 };
    let mut ids = Ids { main: None, entries: Vec::new(), other: None, other_entries: Vec::new() };
    let add_other = |dwarf: &mut Dwarf, ids: &mut Ids| {
        let id = dwarf.units.add(Unit::new(other_enc, LineProgram::none()));
        let unit = dwarf.units.get_mut(id);
        let root = unit.root();
        ids.other = Some(id);
        ids.other_entries.push(root);
        for k in 0..2u8 {
            let c = unit.add(root, constants::DW_TAG_variable);
            unit.get_mut(c).set(MARK, AttributeValue::Data1(k));
            ids.other_entries.push(c);
        }
        // `o 3`: reserved, never added, beyond the other unit's entries vector
        let r = unit.reserve();
        ids.other_entries.push(r);
    };
    if other_mode == 1 {
        add_other(&mut dwarf, &mut ids);
    }
    let main_id = dwarf.units.add(Unit::new(enc, LineProgram::none()));
    ids.main = Some(main_id);
    {
        let unit = dwarf.units.get_mut(main_id);
        let root = unit.root();
        ids.entries.push(root);
        for (k, c) in kids.chars().enumerate() {
            let tag = if c == 'b' { constants::DW_TAG_base_type } else { constants::DW_TAG_variable };
            let id = unit.add(root, tag);
            unit.get_mut(id).set(MARK, AttributeValue::Data1(k as u8));
            ids.entries.push(id);
        }
        for (k, c) in kids.chars().enumerate() {
            if c == 'x' {
                let id = ids.entries[k + 1];
                unit.get_mut(root).delete_child(id);
            }
        }
        // two ids that are reserved and never added: they lie beyond the unit's entries vector (entry indices
        // kids.len()+1 and kids.len()+2 of the scripts)
        for _ in 0..2 {
            let id = unit.reserve();
            ids.entries.push(id);
        }
    }
    if other_mode == 2 {
        add_other(&mut dwarf, &mut ids);
    }
    let expr = build(&script, &ids);
    {
        let unit = dwarf.units.get_mut(main_id);
        let hid = ids.entries[holder + 1];
        if ctx == "die" {
            unit.get_mut(hid).set(constants::DW_AT_location, AttributeValue::Exprloc(expr));
        } else {
            let list = LocationList(vec![Location::StartEnd {
                begin: Address::Constant(1),
                end: Address::Constant(2),
                data: expr,
            }]);
            let lid = unit.locations.add(list);
            unit.get_mut(hid).set(constants::DW_AT_location, AttributeValue::LocationListRef(lid));
        }
    }
    let mut sections = Sections::new(EndianVec::new(e));
    if let Err(x) = dwarf.write(&mut sections) {
        return err(&x);
    }

    // ---- read back
    if !matches!(enc.address_size, 1 | 2 | 4 | 8) {
        return "ok unreadable".into(); // read::UnitHeader rejects the address size
    }
    let load = |id: SectionId| -> Result<Rd, ()> { Ok(EndianSlice::new(sect(&sections, id), e)) };
    let rdwarf = match read::Dwarf::load(load) {
        Ok(d) => d,
        Err(_) => return "readback-mismatch load".into(),
    };
    let main_pos = if other_mode == 1 { 1 } else { 0 };
    let (info, hold) = match read_units(&rdwarf, main_pos, kids.len()) {
        Ok(x) => x,
        Err(s) => return format!("readback-mismatch {}", s.replace(' ', "_")),
    };
    // every entry that is in the tree must have been found, deleted ones must be absent
    for (k, c) in kids.chars().enumerate() {
        if (c == 'x') != info.main[k + 1].is_none() {
            return format!("readback-mismatch entry_{}_presence", k);
        }
    }
    let bytes: Vec<u8> = match hold {
        Some(Hold::Expr(x)) => x.slice().to_vec(),
        Some(Hold::List(off)) => {
            // location list: one StartEnd entry; take the expression through the list reader and check the
            // raw length prefix ourselves
            let unit_hdr = {
                let mut us_ = rdwarf.units();
                let mut h = us_.next().ok().flatten();
                if main_pos == 1 {
                    h = us_.next().ok().flatten();
                }
                match h {
                    Some(h) => h,
                    None => return "readback-mismatch no_main_unit".into(),
                }
            };
            let unit = match rdwarf.unit(unit_hdr) {
                Ok(u) => u,
                Err(_) => return "readback-mismatch main_unit".into(),
            };
            let mut it = match rdwarf.raw_locations(&unit, gimli::LocationListsOffset(off as usize)) {
                Ok(i) => i,
                Err(x) => return format!("readback-mismatch raw_locations_{}", errname(&x)),
            };
            let first = match it.next() {
                Ok(Some(x)) => x,
                other => return format!("readback-mismatch loclist_first_{:?}", other.map(|_| ())).replace(' ', "_"),
            };
            let data = match first {
                read::RawLocListEntry::AddressOrOffsetPair { begin: 1, end: 2, data } => data,
                read::RawLocListEntry::StartEnd { begin: 1, end: 2, data } => data,
                other => return format!("readback-mismatch loclist_entry_{:?}", other).replace(' ', "_"),
            };
            match it.next() {
                Ok(None) => {}
                other => return format!("readback-mismatch loclist_tail_{:?}", other.map(|_| ())).replace(' ', "_"),
            }
            let b = data.0.slice().to_vec();
            // raw prefix
            let asz = enc.address_size as usize;
            let (sec, pre_at) = if enc.version <= 4 {
                (sect(&sections, SectionId::DebugLoc), off as usize + 2 * asz)
            } else {
                (sect(&sections, SectionId::DebugLocLists), off as usize + 1 + 2 * asz)
            };
            let (plen, pval) = if enc.version <= 4 {
                if sec.len() < pre_at + 2 {
                    return "readback-mismatch loc_prefix_short".into();
                }
                let v = if e == RunTimeEndian::Big {
                    u16::from_be_bytes([sec[pre_at], sec[pre_at + 1]])
                } else {
                    u16::from_le_bytes([sec[pre_at], sec[pre_at + 1]])
                };
                (2usize, v as u64)
            } else {
                let mut r = EndianSlice::new(&sec[pre_at.min(sec.len())..], e);
                let l0 = r.len();
                let v = gimli::leb128::read::unsigned(&mut r).unwrap_or(u64::MAX);
                (l0 - r.len(), v)
            };
            if pval != b.len() as u64 || sec.get(pre_at + plen..pre_at + plen + b.len()) != Some(&b[..]) {
                return format!("readback-mismatch loc_length_prefix_{}_emitted_{}", pval, b.len());
            }
            b
        }
        None => return "readback-mismatch holder_has_no_location".into(),
    };
    let (_, text, _) = decode(&bytes, enc, e);
    if judgeable(&script) {
        if let Err(s) = judge(&script, &bytes, enc, e, &info) {
            return format!("readback-mismatch {}", s.replace(' ', "_"));
        }
    }
    format!("ok {} {}", tohex(&bytes), text)
}

fn run_cfi(enc: Encoding, e: RunTimeEndian, t: &[&str]) -> String {
    let kind = t[0];
    let eh = t[1] == "1";
    let mut p = 2usize;
    let script = parse(t, &mut p);
    // entry ids can only come from a unit; this one is never written
    let mut dummy = Dwarf::new();
    let did = dummy.units.add(Unit::new(enc, LineProgram::none()));
    let mut ids = Ids { main: Some(did), entries: Vec::new(), other: Some(did), other_entries: Vec::new() };
    {
        let unit = dummy.units.get_mut(did);
        let root = unit.root();
        ids.entries.push(root);
        for _ in 0..6 {
            let c = unit.add(root, constants::DW_TAG_base_type);
            ids.entries.push(c);
        }
        ids.other_entries = ids.entries.clone();
    }
    let expr = build(&script, &ids);
    let mut table = FrameTable::default();
    let cie = CommonInformationEntry::new(enc, 1, -8, Register(16));
    let cid = table.add_cie(cie);
    let mut fde = FrameDescriptionEntry::new(Address::Constant(1), 1);
    let insn = match kind {
        "cfa" => CallFrameInstruction::CfaExpression(expr),
        "ex" => CallFrameInstruction::Expression(Register(300), expr),
        _ => CallFrameInstruction::ValExpression(Register(7), expr),
    };
    fde.add_instruction(0, insn);
    table.add_fde(cid, fde);
    let bytes_sec: Vec<u8>;
    if eh {
        let mut w = write::EhFrame::from(EndianVec::new(e));
        if let Err(x) = table.write_eh_frame(&mut w) {
            return err(&x);
        }
        bytes_sec = w.slice().to_vec();
    } else {
        let mut w = write::DebugFrame::from(EndianVec::new(e));
        if let Err(x) = table.write_debug_frame(&mut w) {
            return err(&x);
        }
        bytes_sec = w.slice().to_vec();
    }
    // read back
    let bases = read::BaseAddresses::default().set_eh_frame(0);
    let res: Result<Vec<u8>, String> = if eh {
        let mut s = read::EhFrame::new(&bytes_sec, e);
        s.set_address_size(enc.address_size);
        cfi_expr(&s, &bases, kind)
    } else {
        let mut s = read::DebugFrame::new(&bytes_sec, e);
        s.set_address_size(enc.address_size);
        cfi_expr(&s, &bases, kind)
    };
    let bytes = match res {
        Ok(b) => b,
        Err(s) => return format!("readback-mismatch {}", s.replace(' ', "_")),
    };
    let (_, text, _) = decode(&bytes, enc, e);
    if judgeable(&script) {
        if let Err(s) = judge(&script, &bytes, enc, e, &ReadInfo::default()) {
            return format!("readback-mismatch {}", s.replace(' ', "_"));
        }
    }
    format!("ok {} {}", tohex(&bytes), text)
}

fn cfi_expr<'a, S: UnwindSection<Rd<'a>>>(s: &S, bases: &read::BaseAddresses, kind: &str) -> Result<Vec<u8>, String>
where
    S::Offset: read::UnwindOffset<usize>,
{
    let mut entries = s.entries(bases);
    let mut found: Option<Vec<u8>> = None;
    let mut nfde = 0;
    while let Some(entry) = entries.next().map_err(|e| format!("cfi entries: {:?}", e))? {
        match entry {
            read::CieOrFde::Cie(_) => {}
            read::CieOrFde::Fde(partial) => {
                nfde += 1;
                let fde = partial.parse(|sec, b, o| sec.cie_from_offset(b, o)).map_err(|e| format!("fde parse: {:?}", e))?;
                let mut it = fde.instructions(s, bases);
                let mut n = 0;
                while let Some(insn) = it.next().map_err(|e| format!("cfi instruction: {:?}", e))? {
                    let ex = match (kind, &insn) {
                        (_, read::CallFrameInstruction::Nop) => continue,
                        ("cfa", read::CallFrameInstruction::DefCfaExpression { expression }) => expression.clone(),
                        ("ex", read::CallFrameInstruction::Expression { register, expression }) if register.0 == 300 => {
                            expression.clone()
                        }
                        ("vx", read::CallFrameInstruction::ValExpression { register, expression }) if register.0 == 7 => {
                            expression.clone()
                        }
                        _ => return Err(format!("unexpected cfi instruction {:?}", insn)),
                    };
                    n += 1;
                    if n > 1 {
                        return Err("more than one expression instruction".into());
                    }
                    let x = ex.get(s).map_err(|e| format!("expression get: {:?}", e))?;
                    found = Some(x.0.slice().to_vec());
                }
            }
        }
    }
    if nfde != 1 {
        return Err(format!("{} FDEs read back", nfde));
    }
    found.ok_or_else(|| "no expression instruction read back".to_string())
}

/// c15.nest <version> <depth>: DW_OP_entry_value nested `depth` times around DW_OP_reg5, built without any
/// recursion on our side, written as a DIE attribute. Nothing is dropped afterwards (dropping a deeply nested
/// value recurses in compiler-generated code, which is not what is being observed). The layers are peeled
/// iteratively with gimli's reader: every layer must be one entry_value whose length covers the rest.
fn run_nest(t: &[&str]) -> String {
    let version = u(t[1]) as u16;
    let depth = us(t[2]);
    let enc = Encoding { format: Format::Dwarf32, version, address_size: 8 };
    let e = RunTimeEndian::Little;
    let mut expr = Expression::new();
    expr.op_reg(Register(5));
    for _ in 0..depth {
        let mut outer = Expression::new();
        outer.op_entry_value(expr);
        expr = outer;
    }
    let mut dwarf = Dwarf::new();
    let id = dwarf.units.add(Unit::new(enc, LineProgram::none()));
    {
        let unit = dwarf.units.get_mut(id);
        let root = unit.root();
        let c = unit.add(root, constants::DW_TAG_variable);
        unit.get_mut(c).set(constants::DW_AT_location, AttributeValue::Exprloc(expr));
    }
    let mut sections = Sections::new(EndianVec::new(e));
    let r = dwarf.write(&mut sections);
    std::mem::forget(dwarf);
    if let Err(x) = r {
        return err(&x);
    }
    let info = sect(&sections, SectionId::DebugInfo);
    // header 11/12 bytes, root code, child code, then ULEB length + expression, then the null child
    let start = if version >= 5 { 12 } else { 11 } + 2;
    let mut r = EndianSlice::new(&info[start..], e);
    let len = match gimli::leb128::read::unsigned(&mut r) {
        Ok(l) => l as usize,
        Err(_) => return "readback-mismatch prefix".into(),
    };
    if r.len() != len + 1 {
        return format!("readback-mismatch length_prefix_{}_emitted_{}", len, r.len().wrapping_sub(1));
    }
    let mut cur: &[u8] = &r.slice()[..len];
    let total = len;
    for k in 0..depth {
        let ex = read::Expression(EndianSlice::new(cur, e));
        let mut it = ex.operations(enc);
        match it.next() {
            Ok(Some(read::Operation::EntryValue { expression })) => {
                if !matches!(it.next(), Ok(None)) {
                    return format!("readback-mismatch layer_{}_has_trailing_operations", k);
                }
                cur = expression.slice();
            }
            other => return format!("readback-mismatch layer_{}_{:?}", k, other.map(|_| ())).replace(' ', "_"),
        }
    }
    if cur != [0x55] {
        return "readback-mismatch innermost".into();
    }
    format!("ok {}", total)
}


// ---------------------------------------------------------------------------------------------------------
// c11.glue (dispatched from c11.rs): the composed writer model Model/UnitGlueWr.v against Dwarf::write.
//
// case: c11.glue <version> <fmt 0|1> <asize> <be 0|1> <kids> <other 0|1|2> <low_pc|-1>
//         <nR> { <len> { b <addr> | o <b> <e> | e <b> <e> | l <b> <len> } }          range lists
//         <nL> { <len> { b <addr> | o <b> <e> | e <b> <e> | l <b> <len> | d } }      location lists; every
//                                                      non-base entry carries a clone of the script's expression
//         <nA> { <entry> <at> ( x | r <i> | l <i> | i <k|o> <n> | u <n> | d <v> ) }  attributes: Exprloc(script),
//                                                      RangeListRef, LocationListRef, DebugInfoRef, UnitRef, Udata
//         <script...>                                   as c15.expr
// result: `ok <.debug_info> <.debug_ranges> <.debug_rnglists> <.debug_loc> <.debug_loclists> <fx info> <fx loc>
//          <fx loclists>` (sections after Dwarf::write, hex; fx = the write_offset_at calls UnitTable::write made on
//          that section = the resolved DebugInfoFixups as off:size:value, in order) | `err <Variant>` | `panic`
#[derive(Clone)]
struct RecVec {
    v: EndianVec<RunTimeEndian>,
    log: Vec<(usize, u64, u8)>,
}
impl write::Writer for RecVec {
    type Endian = RunTimeEndian;
    fn endian(&self) -> RunTimeEndian {
        self.v.endian()
    }
    fn len(&self) -> usize {
        self.v.len()
    }
    fn write(&mut self, bytes: &[u8]) -> write::Result<()> {
        self.v.write(bytes)
    }
    fn write_at(&mut self, offset: usize, bytes: &[u8]) -> write::Result<()> {
        self.v.write_at(offset, bytes)
    }
    fn write_offset_at(&mut self, offset: usize, val: usize, _section: SectionId, size: u8) -> write::Result<()> {
        self.log.push((offset, val as u64, size));
        self.write_udata_at(offset, val as u64, size)
    }
}

pub fn run_glue(t: &[&str]) -> String {
    use gimli::write::{Range, RangeList, Writer};
    let version = u(t[1]) as u16;
    let format = if t[2] == "1" { Format::Dwarf64 } else { Format::Dwarf32 };
    let address_size = u(t[3]) as u8;
    let e = endian(t[4]);
    let enc = Encoding { format, version, address_size };
    let kids = t[5];
    let other_mode = us(t[6]);
    let low_pc = i(t[7]);
    let mut p = 8usize;
    macro_rules! tok {
        () => {{
            p += 1;
            t[p - 1]
        }};
    }
    // lists (expressions are attached after the script is built)
    #[derive(Clone)]
    enum Le {
        B(u64),
        O(u64, u64),
        E(u64, u64),
        L(u64, u64),
        D,
    }
    let mut read_lists = |p: &mut usize| -> Vec<Vec<Le>> {
        let n = us(t[*p]);
        *p += 1;
        let mut out = Vec::new();
        for _ in 0..n {
            let len = us(t[*p]);
            *p += 1;
            let mut l = Vec::new();
            for _ in 0..len {
                let k = t[*p];
                *p += 1;
                match k {
                    "b" => {
                        l.push(Le::B(u(t[*p])));
                        *p += 1;
                    }
                    "d" => l.push(Le::D),
                    _ => {
                        let a = u(t[*p]);
                        let b = u(t[*p + 1]);
                        *p += 2;
                        l.push(match k {
                            "o" => Le::O(a, b),
                            "e" => Le::E(a, b),
                            _ => Le::L(a, b),
                        });
                    }
                }
            }
            out.push(l);
        }
        out
    };
    let rlists = read_lists(&mut p);
    let llists = read_lists(&mut p);
    enum Ak {
        X,
        R(usize),
        L(usize),
        I(Rf),
        U(usize),
        D(u64),
    }
    let na = us(tok!());
    let mut attrs: Vec<(usize, u16, Ak)> = Vec::new();
    for _ in 0..na {
        let en = us(tok!());
        let at = u(tok!()) as u16;
        let k = tok!();
        let ak = match k {
            "x" => Ak::X,
            "r" => Ak::R(us(tok!())),
            "l" => Ak::L(us(tok!())),
            "i" => Ak::I(parse_ref(t, &mut p)),
            "u" => Ak::U(us(tok!())),
            _ => Ak::D(u(tok!())),
        };
        attrs.push((en, at, ak));
    }
    let script = parse(t, &mut p);

    let mut dwarf = Dwarf::new();
    let other_enc = Encoding { format: Format::Dwarf32, version: 4, address_size: 8 };
    let mut ids = Ids { main: None, entries: Vec::new(), other: None, other_entries: Vec::new() };
    let add_other = |dwarf: &mut Dwarf, ids: &mut Ids| {
        let id = dwarf.units.add(Unit::new(other_enc, LineProgram::none()));
        let unit = dwarf.units.get_mut(id);
        let root = unit.root();
        ids.other = Some(id);
        ids.other_entries.push(root);
        for k in 0..2u8 {
            let c = unit.add(root, constants::DW_TAG_variable);
            unit.get_mut(c).set(MARK, AttributeValue::Data1(k));
            ids.other_entries.push(c);
        }
        // `o 3`: reserved, never added, beyond the other unit's entries vector
        let r = unit.reserve();
        ids.other_entries.push(r);
    };
    if other_mode == 1 {
        add_other(&mut dwarf, &mut ids);
    }
    let main_id = dwarf.units.add(Unit::new(enc, LineProgram::none()));
    ids.main = Some(main_id);
    {
        let unit = dwarf.units.get_mut(main_id);
        let root = unit.root();
        ids.entries.push(root);
        if low_pc >= 0 {
            unit.get_mut(root).set(constants::DW_AT_low_pc, AttributeValue::Address(Address::Constant(low_pc as u64)));
        }
        for (k, c) in kids.chars().enumerate() {
            let tag = if c == 'b' { constants::DW_TAG_base_type } else { constants::DW_TAG_variable };
            let id = unit.add(root, tag);
            unit.get_mut(id).set(MARK, AttributeValue::Data1(k as u8));
            ids.entries.push(id);
        }
        for (k, c) in kids.chars().enumerate() {
            if c == 'x' {
                let id = ids.entries[k + 1];
                unit.get_mut(root).delete_child(id);
            }
        }
        // two ids that are reserved and never added: they lie beyond the unit's entries vector (entry indices
        // kids.len()+1 and kids.len()+2 of the scripts)
        for _ in 0..2 {
            let id = unit.reserve();
            ids.entries.push(id);
        }
    }
    if other_mode == 2 {
        add_other(&mut dwarf, &mut ids);
    }
    let expr = build(&script, &ids);
    {
        let unit = dwarf.units.get_mut(main_id);
        let mut rids = Vec::new();
        for l in &rlists {
            let v: Vec<Range> = l
                .iter()
                .map(|x| match *x {
                    Le::B(a) => Range::BaseAddress { address: Address::Constant(a) },
                    Le::O(b, e) => Range::OffsetPair { begin: b, end: e },
                    Le::E(b, e) => Range::StartEnd { begin: Address::Constant(b), end: Address::Constant(e) },
                    Le::L(b, n) => Range::StartLength { begin: Address::Constant(b), length: n },
                    Le::D => Range::OffsetPair { begin: 0, end: 0 },
                })
                .collect();
            rids.push(unit.ranges.add(RangeList(v)));
        }
        let mut lids = Vec::new();
        for l in &llists {
            let v: Vec<Location> = l
                .iter()
                .map(|x| match *x {
                    Le::B(a) => Location::BaseAddress { address: Address::Constant(a) },
                    Le::O(b, e) => Location::OffsetPair { begin: b, end: e, data: expr.clone() },
                    Le::E(b, e) => Location::StartEnd { begin: Address::Constant(b), end: Address::Constant(e), data: expr.clone() },
                    Le::L(b, n) => Location::StartLength { begin: Address::Constant(b), length: n, data: expr.clone() },
                    Le::D => Location::DefaultLocation { data: expr.clone() },
                })
                .collect();
            lids.push(unit.locations.add(LocationList(v)));
        }
        for (en, at, ak) in &attrs {
            let id = ids.entries[*en];
            let v = match ak {
                Ak::X => AttributeValue::Exprloc(expr.clone()),
                Ak::R(i) => AttributeValue::RangeListRef(rids[*i]),
                Ak::L(i) => AttributeValue::LocationListRef(lids[*i]),
                Ak::I(r) => AttributeValue::DebugInfoRef(ids.dref(r)),
                Ak::U(n) => AttributeValue::UnitRef(ids.entries[*n]),
                Ak::D(v) => AttributeValue::Udata(*v),
            };
            unit.get_mut(id).set(constants::DwAt(*at), v);
        }
    }
    let mut sections = Sections::new(RecVec { v: EndianVec::new(e), log: Vec::new() });
    if let Err(x) = dwarf.write(&mut sections) {
        return err(&x);
    }
    let fx = |l: &Vec<(usize, u64, u8)>| -> String {
        if l.is_empty() {
            "-".to_string()
        } else {
            l.iter().map(|(o, v, s)| format!("{}:{}:{}", o, s, v)).collect::<Vec<_>>().join(",")
        }
    };
    format!(
        "ok {} {} {} {} {} {} {} {}",
        tohex(sections.debug_info.0.v.slice()),
        tohex(sections.debug_ranges.0.v.slice()),
        tohex(sections.debug_rnglists.0.v.slice()),
        tohex(sections.debug_loc.0.v.slice()),
        tohex(sections.debug_loclists.0.v.slice()),
        fx(&sections.debug_info.0.log),
        fx(&sections.debug_loc.0.log),
        fx(&sections.debug_loclists.0.log)
    )
}

pub fn run(t: &[&str]) -> String {
    match t[0] {
        "c15.nest" => run_nest(t),
        "c15.expr" => {
            let ctx = t[1];
            let version = u(t[2]) as u16;
            let format = if t[3] == "1" { Format::Dwarf64 } else { Format::Dwarf32 };
            let address_size = u(t[4]) as u8;
            let e = endian(t[5]);
            let enc = Encoding { format, version, address_size };
            match ctx {
                "die" | "loc" => run_unit(ctx, enc, e, &t[6..]),
                "cfi" => run_cfi(enc, e, &t[6..]),
                _ => format!("unknown-ctx {}", ctx),
            }
        }
        _ => format!("unknown-stream {}", t[0]),
    }
}
