// c01.rs — "untrusted DWARF never panics, aborts, overflows the stack or hangs".
//
// Impl-side exploration oracle: every case names an entry-point family, a section set
// (from the committed compiler corpus or given inline), a mutation recipe (seeded), an optional
// truncation and an optional reader-fault position. The family's driver walks the real gimli API the
// way a consumer that *ignores errors* would, under a step cap linear in the input size.
//   result `fin`                      — returned normally within the cap
//          `panic`                    — (printed by main.rs) a panic was caught
//          `nonterm-mismatch <what>`  — an iterator did not finish within the cap
//          `aftererr-mismatch <what>` — an iterator documented to stop after an error yielded again
//   a crash (stack overflow / abort) or a hang is detected by ./check from the process status.
use crate::util::*;
use gimli::{
    BaseAddresses, DebugAbbrev, DebugAddr, DebugAranges, DebugFrame, DebugInfo, DebugLine,
    DebugLineOffset, DebugLoc, DebugLocLists, DebugMacinfo, DebugMacro, DebugNames, DebugPubNames,
    DebugPubTypes, DebugRanges, DebugRngLists, DebugStr, DebugStrOffsets, DebugTypes, Dwarf,
    DwarfFileType, EhFrame, EhFrameHdr, Encoding, EndianSlice, Format, LittleEndian, LocationLists,
    RangeLists, Reader, ReaderOffsetId, RunTimeEndian, Section, SectionId, UnwindContext,
    UnwindSection,
};
use std::borrow::Cow;
use std::cell::Cell;
use std::collections::HashMap;
use std::rc::Rc;

// ---------------------------------------------------------------- fault-injecting reader

/// A `Reader` over a borrowed slice that reports `UnexpectedEof` from the k-th fallible operation on.
#[derive(Debug, Clone)]
pub struct FaultReader<'a> {
    inner: EndianSlice<'a, RunTimeEndian>,
    ctr: Rc<Cell<u64>>,
    fail_at: u64,
}

thread_local! {
    /// number of fallible reader operations performed so far in the current fault-injection pass
    static OPS: Cell<u64> = Cell::new(0);
    /// when recording: (label, OPS) at the start of every `Ctl::drive` call
    static SITES: std::cell::RefCell<Option<Vec<(String, u64)>>> = std::cell::RefCell::new(None);
}

impl<'a> FaultReader<'a> {
    fn tick(&self) -> gimli::Result<()> {
        let c = self.ctr.get();
        self.ctr.set(c + 1);
        OPS.with(|o| o.set(c + 1));
        if c >= self.fail_at {
            Err(gimli::Error::UnexpectedEof(self.inner.offset_id()))
        } else {
            Ok(())
        }
    }
    fn wrap(&self, inner: EndianSlice<'a, RunTimeEndian>) -> Self {
        FaultReader { inner, ctr: self.ctr.clone(), fail_at: self.fail_at }
    }
}

impl<'a> Reader for FaultReader<'a> {
    type Endian = RunTimeEndian;
    type Offset = usize;
    fn endian(&self) -> RunTimeEndian {
        self.inner.endian()
    }
    fn len(&self) -> usize {
        self.inner.len()
    }
    fn empty(&mut self) {
        self.inner.empty()
    }
    fn truncate(&mut self, len: usize) -> gimli::Result<()> {
        self.tick()?;
        self.inner.truncate(len)
    }
    fn offset_from(&self, base: &Self) -> usize {
        self.inner.offset_from(base.inner)
    }
    fn offset_id(&self) -> ReaderOffsetId {
        self.inner.offset_id()
    }
    fn lookup_offset_id(&self, id: ReaderOffsetId) -> Option<usize> {
        self.inner.lookup_offset_id(id)
    }
    fn find(&self, byte: u8) -> gimli::Result<usize> {
        self.tick()?;
        Reader::find(&self.inner, byte)
    }
    fn skip(&mut self, len: usize) -> gimli::Result<()> {
        self.tick()?;
        self.inner.skip(len)
    }
    fn split(&mut self, len: usize) -> gimli::Result<Self> {
        self.tick()?;
        let s = self.inner.split(len)?;
        Ok(self.wrap(s))
    }
    fn to_slice(&self) -> gimli::Result<Cow<'_, [u8]>> {
        self.tick()?;
        Reader::to_slice(&self.inner)
    }
    fn to_string(&self) -> gimli::Result<Cow<'_, str>> {
        self.tick()?;
        Reader::to_string(&self.inner)
    }
    fn to_string_lossy(&self) -> gimli::Result<Cow<'_, str>> {
        self.tick()?;
        Reader::to_string_lossy(&self.inner)
    }
    fn read_slice(&mut self, buf: &mut [u8]) -> gimli::Result<()> {
        self.tick()?;
        self.inner.read_slice(buf)
    }
}

// ---------------------------------------------------------------- section sets

pub type Sections = HashMap<String, Vec<u8>>;

fn corpus_dir() -> String {
    std::env::var("GV_CORPUS")
        .unwrap_or_else(|_| concat!(env!("CARGO_MANIFEST_DIR"), "/../corpus/sections").to_string())
}

thread_local! {
    static CACHE: std::cell::RefCell<HashMap<String, Rc<Sections>>> = std::cell::RefCell::new(HashMap::new());
}

fn load_variant(variant: &str) -> Rc<Sections> {
    CACHE.with(|c| {
        if let Some(s) = c.borrow().get(variant) {
            return s.clone();
        }
        let mut m = Sections::new();
        let dir = format!("{}/{}", corpus_dir(), variant);
        if let Ok(rd) = std::fs::read_dir(&dir) {
            for e in rd.flatten() {
                if let (Ok(name), Ok(data)) = (e.file_name().into_string(), std::fs::read(e.path())) {
                    m.insert(name, data);
                }
            }
        }
        let rc = Rc::new(m);
        c.borrow_mut().insert(variant.to_string(), rc.clone());
        rc
    })
}

const EXTREMES: [&[u8]; 10] = [
    &[0xff, 0xff, 0xff, 0xff, 0xff, 0xff, 0xff, 0xff, 0xff, 0x01], // ULEB 2^64-1
    &[0x80, 0x80, 0x80, 0x80, 0x80, 0x80, 0x80, 0x80, 0x80, 0x7f], // SLEB i64::MIN
    &[0x80, 0x80, 0x80, 0x80, 0x80, 0x80, 0x80, 0x80, 0x20],       // ULEB 2^61
    &[0xff, 0xff, 0xff, 0xff],
    &[0xff, 0xff, 0xff, 0xff, 0xff, 0xff, 0xff, 0xff],
    &[0xfe, 0xff, 0xff, 0xff],
    &[0x00, 0x00, 0x00, 0x80],
    &[0xff, 0xff, 0xff, 0x7f],
    &[0x80, 0x80, 0x80, 0x80, 0x80, 0x80, 0x80, 0x80, 0x80, 0x80, 0x80],
    &[0xf0, 0xff, 0xff, 0xff],
];

/// Seeded structure-unaware mutation of one buffer.
fn mutate(buf: &mut Vec<u8>, rng: &mut Rng, nmut: u64, donor: &[u8]) {
    for _ in 0..nmut {
        if buf.is_empty() {
            buf.extend_from_slice(EXTREMES[rng.below(EXTREMES.len() as u64) as usize]);
            continue;
        }
        let pos = rng.below(buf.len() as u64) as usize;
        match rng.below(10) {
            0 => buf[pos] ^= 1 << rng.below(8),
            1 => buf[pos] = [0x00, 0xff, 0x80, 0x7f, 0x01, 0xfe][rng.below(6) as usize],
            2 => buf[pos] = rng.next() as u8,
            3 => {
                let e = EXTREMES[rng.below(EXTREMES.len() as u64) as usize];
                for (i, b) in e.iter().enumerate() {
                    if pos + i < buf.len() {
                        buf[pos + i] = *b;
                    }
                }
            }
            4 => {
                let e = EXTREMES[rng.below(EXTREMES.len() as u64) as usize];
                let tail = buf.split_off(pos);
                buf.extend_from_slice(e);
                buf.extend_from_slice(&tail);
            }
            5 => {
                let n = 1 + rng.below(8) as usize;
                let end = (pos + n).min(buf.len());
                buf.drain(pos..end);
            }
            6 => {
                // splice from a donor section
                if !donor.is_empty() {
                    let dp = rng.below(donor.len() as u64) as usize;
                    let n = (1 + rng.below(32) as usize).min(donor.len() - dp);
                    for i in 0..n {
                        if pos + i < buf.len() {
                            buf[pos + i] = donor[dp + i];
                        }
                    }
                }
            }
            7 => {
                // duplicate a chunk
                let n = (1 + rng.below(16) as usize).min(buf.len() - pos);
                let chunk = buf[pos..pos + n].to_vec();
                let tail = buf.split_off(pos);
                buf.extend_from_slice(&chunk);
                buf.extend_from_slice(&tail);
            }
            8 => {
                // zero a run
                let n = (1 + rng.below(64) as usize).min(buf.len() - pos);
                for b in &mut buf[pos..pos + n] {
                    *b = 0;
                }
            }
            _ => buf[pos] = buf[pos].wrapping_add(1),
        }
    }
}

// ---------------------------------------------------------------- generic iterator driver

struct Ctl {
    cap: u64,
    steps: u64,
    fail: Option<String>,
}

impl Ctl {
    fn new(total_len: usize) -> Self {
        Ctl { cap: 4 * total_len as u64 + 64, steps: 0, fail: None }
    }
    fn over(&self) -> bool {
        self.fail.is_some()
    }
    /// Drive a lazy iterator ignoring errors. `stops_after_err`: documented to yield nothing after an error.
    fn drive<T, E: core::fmt::Debug>(
        &mut self,
        what: &str,
        stops_after_err: bool,
        mut next: impl FnMut() -> Result<Option<T>, E>,
        mut each: impl FnMut(&mut Ctl, T),
    ) {
        SITES.with(|st| {
            if let Some(v) = st.borrow_mut().as_mut() {
                v.push((what.to_string(), OPS.with(|o| o.get())));
            }
        });
        let mut errs = 0u64;
        let mut first_err = String::new();
        let mut local = 0u64;
        let local_cap = self.cap;
        loop {
            if self.over() {
                return;
            }
            local += 1;
            self.steps += 1;
            if local > local_cap {
                self.fail = Some(format!("nonterm-mismatch {}", what));
                return;
            }
            match next() {
                Ok(Some(x)) => {
                    if errs > 0 && stops_after_err {
                        self.fail = Some(format!("aftererr-mismatch {} after {}", what, first_err));
                        return;
                    }
                    each(self, x);
                }
                Ok(None) => return,
                Err(e) => {
                    if errs == 0 {
                        first_err = errname(&e);
                    }
                    errs += 1;
                    // an iterator that keeps failing forever is a hang for a caller that skips errors
                    if errs > local_cap {
                        self.fail = Some(format!("nonterm-mismatch {}(errors)", what));
                        return;
                    }
                }
            }
        }
    }
}

// ---------------------------------------------------------------- walkers (generic over the reader)

fn walk_expr<R: Reader<Offset = usize>>(ctl: &mut Ctl, expr: gimli::Expression<R>, encoding: Encoding, rng: &mut Rng) {
    let mut ops = expr.clone().operations(encoding);
    ctl.drive("OperationIter", true, || ops.next(), |_, _| {});
    // evaluate with an iteration limit and synthetic answers
    let mut eval = expr.clone().evaluation(encoding);
    eval.set_max_iterations(200);
    eval.set_initial_value(rng.next());
    eval.set_object_address(rng.next());
    let mut res = eval.evaluate();
    let mut guard = 0;
    loop {
        guard += 1;
        if guard > 2000 {
            ctl.fail = Some("nonterm-mismatch Evaluation(resume)".into());
            return;
        }
        use gimli::EvaluationResult::*;
        use gimli::{Value, ValueType};
        let r = match res {
            Err(_) => return,
            Ok(Complete) => {
                let _ = eval.result();
                return;
            }
            Ok(RequiresMemory { .. }) => eval.resume_with_memory(Value::Generic(rng.next())),
            Ok(RequiresRegister { .. }) => eval.resume_with_register(Value::Generic(rng.next())),
            Ok(RequiresFrameBase) => eval.resume_with_frame_base(rng.next()),
            Ok(RequiresTls(_)) => eval.resume_with_tls(rng.next()),
            Ok(RequiresCallFrameCfa) => eval.resume_with_call_frame_cfa(rng.next()),
            Ok(RequiresAtLocation(_)) => {
                let mut e = expr.0.clone();
                let n = e.len();
                let _ = e.skip(rng.below(n as u64 + 1) as usize);
                eval.resume_with_at_location(e)
            }
            Ok(RequiresEntryValue(e)) => {
                let _ = e;
                eval.resume_with_entry_value(Value::Generic(rng.next()))
            }
            Ok(RequiresParameterRef(_)) => eval.resume_with_parameter_ref(rng.next()),
            Ok(RequiresRelocatedAddress(a)) => eval.resume_with_relocated_address(a.wrapping_add(rng.below(3))),
            Ok(RequiresIndexedAddress { .. }) => eval.resume_with_indexed_address(rng.next()),
            Ok(RequiresWasmLocal { .. }) | Ok(RequiresWasmGlobal { .. }) | Ok(RequiresWasmStack { .. }) => {
                eval.resume_with_wasm_value(Value::Generic(rng.next()))
            }
            Ok(RequiresBaseType(off)) => {
                let t = [ValueType::Generic, ValueType::I8, ValueType::U8, ValueType::I16, ValueType::U16,
                    ValueType::I32, ValueType::U32, ValueType::I64, ValueType::U64, ValueType::F32, ValueType::F64]
                    [off.0 % 11];
                eval.resume_with_base_type(t)
            }
        };
        res = r;
    }
}

fn walk_attr<R: Reader<Offset = usize>>(ctl: &mut Ctl, unit: gimli::UnitRef<'_, R>, attr: &gimli::Attribute<R>, rng: &mut Rng) {
    use gimli::AttributeValue as AV;
    let v = attr.value();
    let _ = attr.raw_value();
    let _ = attr.udata_value();
    let _ = attr.sdata_value();
    let _ = attr.offset_value();
    let _ = attr.exprloc_value();
    let _ = unit.attr_string(v.clone()).map(|s| s.to_string_lossy().map(|c| c.len()));
    let _ = unit.attr_address(v.clone());
    if let Ok(Some(mut it)) = unit.attr_ranges(v.clone()) {
        ctl.drive("RngListIter", false, || it.next(), |_, _| {});
    }
    if let Ok(Some(off)) = unit.attr_ranges_offset(v.clone()) {
        if let Ok(mut it) = unit.raw_ranges(off) {
            ctl.drive("RawRngListIter", true, || it.next(), |_, _| {});
        }
    }
    if let Ok(Some(mut it)) = unit.attr_locations(v.clone()) {
        let enc = unit.encoding();
        let mut exprs = Vec::new();
        ctl.drive("LocListIter", false, || it.next(), |_, e| exprs.push(e.data));
        for e in exprs.into_iter().take(8) {
            walk_expr(ctl, e, enc, rng);
        }
    }
    if let Ok(Some(off)) = unit.attr_locations_offset(v.clone()) {
        if let Ok(mut it) = unit.raw_locations(off) {
            ctl.drive("RawLocListIter", true, || it.next(), |_, _| {});
        }
    }
    match v {
        AV::Exprloc(e) => walk_expr(ctl, e, unit.encoding(), rng),
        AV::Block(b) => walk_expr(ctl, gimli::Expression(b), unit.encoding(), rng),
        AV::DebugMacinfoRef(o) => {
            if let Ok(mut it) = unit.macinfo(o) {
                ctl.drive("MacroIter(macinfo)", true, || it.next(), |_, _| {});
            }
        }
        AV::DebugMacroRef(o) => {
            if let Ok(mut it) = unit.macros(o) {
                ctl.drive("MacroIter(macro)", true, || it.next(), |_, _| {});
            }
        }
        _ => {}
    }
}

fn walk_tree<R: Reader<Offset = usize>>(ctl: &mut Ctl, node: gimli::EntriesTreeNode<'_, '_, R>, depth: usize) {
    if depth > 400 || ctl.over() {
        return;
    }
    let _ = node.entry().tag();
    let mut children = node.children();
    let mut n = 0u64;
    loop {
        n += 1;
        ctl.steps += 1;
        if n > ctl.cap {
            ctl.fail = Some("nonterm-mismatch EntriesTreeIter".into());
            return;
        }
        match children.next() {
            Ok(Some(child)) => walk_tree(ctl, child, depth + 1),
            Ok(None) => return,
            Err(_) => return,
        }
    }
}

fn walk_line<R: Reader<Offset = usize>>(ctl: &mut Ctl, program: gimli::IncompleteLineProgram<R>) {
    let header = program.header().clone();
    let _ = header.file_names().len();
    for i in 0..8u64 {
        let _ = header.file(i).map(|f| (f.directory_index(), f.timestamp(), f.size()));
        let _ = header.directory(i);
    }
    let mut insns = header.instructions();
    ctl.drive("LineInstructions", false, || insns.next_instruction(&header), |_, _| {});
    let mut rows = program.clone().rows();
    ctl.drive("LineRows", false, || rows.next_row().map(|o| o.map(|(_, r)| (r.address(), r.line()))), |_, _| {});
    if let Ok((complete, seqs)) = program.sequences() {
        for s in seqs.iter().take(64) {
            let mut rows = complete.resume_from(s);
            ctl.drive("LineRows(resume)", false, || rows.next_row().map(|o| o.map(|(_, r)| r.address())), |_, _| {});
        }
    }
}

fn walk_dwarf<R: Reader<Offset = usize>>(ctl: &mut Ctl, dwarf: &Dwarf<R>, rng: &mut Rng, convert: bool) {
    let mut headers = Vec::new();
    let mut units = dwarf.units();
    ctl.drive("DebugInfoUnitHeadersIter", false, || units.next(), |_, h| headers.push(h));
    let mut tunits = dwarf.type_units();
    ctl.drive("DebugTypesUnitHeadersIter", false, || tunits.next(), |_, h| headers.push(h));
    for header in headers.into_iter().take(24) {
        if ctl.over() {
            return;
        }
        let _ = (header.offset(), header.unit_length(), header.version(), header.type_(), header.header_size());
        let unit = match dwarf.unit(header) {
            Ok(u) => u,
            Err(_) => continue,
        };
        let uref = unit.unit_ref(dwarf);
        // raw entries
        if let Ok(mut raw) = uref.entries_raw(None) {
            let mut n = 0u64;
            while !raw.is_empty() {
                n += 1;
                ctl.steps += 1;
                if n > ctl.cap {
                    ctl.fail = Some("nonterm-mismatch EntriesRaw".into());
                    return;
                }
                let _ = (raw.next_offset(), raw.next_depth());
                match raw.read_abbreviation() {
                    Ok(Some(abbrev)) => {
                        if n % 2 == 0 {
                            if raw.skip_attributes(abbrev.attributes()).is_err() {
                                break;
                            }
                        } else {
                            let mut bad = false;
                            for spec in abbrev.attributes() {
                                match raw.read_attribute(*spec) {
                                    Ok(a) => {
                                        if n < 400 {
                                            walk_attr(ctl, uref, &a, rng)
                                        }
                                    }
                                    Err(_) => {
                                        bad = true;
                                        break;
                                    }
                                }
                            }
                            if bad {
                                break;
                            }
                        }
                    }
                    Ok(None) => {}
                    Err(_) => break,
                }
            }
        }
        // cursor, dfs
        {
            let mut cur = uref.entries();
            let mut offs = Vec::new();
            ctl.drive("EntriesCursor::next_dfs", false, || cur.next_dfs().map(|o| o.map(|_| ())), |_, _| {});
            let mut cur = uref.entries();
            ctl.drive(
                "EntriesCursor::next_entry",
                false,
                || cur.next_entry().map(|b| if b { Some(()) } else { None }),
                |_, _| {},
            );
            let mut cur = uref.entries();
            let _ = cur.next_dfs();
            let _ = cur.next_dfs();
            ctl.drive(
                "EntriesCursor::next_sibling",
                false,
                || cur.next_sibling().map(|o| o.map(|e| e.offset())),
                |_, o| offs.push(o),
            );
            for o in offs.into_iter().take(8) {
                let _ = uref.entry(o);
                if let Ok(mut c) = uref.entries_at_offset(o) {
                    let _ = c.next_dfs();
                }
                if let Ok(mut t) = uref.entries_tree(Some(o)) {
                    if let Ok(root) = t.root() {
                        walk_tree(ctl, root, 0);
                    }
                }
            }
        }
        if let Ok(mut tree) = uref.entries_tree(None) {
            if let Ok(root) = tree.root() {
                walk_tree(ctl, root, 0);
            }
            if let Ok(root) = tree.root() {
                let _ = root.entry().offset();
            }
        }
        if let Ok(mut it) = uref.unit_ranges() {
            ctl.drive("RangeIter(unit)", false, || it.next(), |_, _| {});
        }
        let _ = uref.dwo_name();
        if let Some(program) = unit.line_program.clone() {
            walk_line(ctl, program);
        }
    }
    // standalone sections reachable from Dwarf
    {
        let mut it = dwarf.debug_aranges.headers();
        let mut hs = Vec::new();
        ctl.drive("ArangeHeaderIter", false, || it.next(), |_, h| hs.push(h));
        for h in hs.into_iter().take(16) {
            let mut es = h.entries();
            ctl.drive("ArangeEntryIter", true, || es.next(), |_, _| {});
            let mut es = h.entries();
            ctl.drive("ArangeEntryIter(raw)", true, || es.next_raw(), |_, _| {});
        }
    }
    {
        let mut it = dwarf.debug_addr.headers();
        let mut hs = Vec::new();
        ctl.drive("AddrHeaderIter", false, || it.next(), |_, h| hs.push(h));
        for h in hs.into_iter().take(16) {
            let mut es = h.entries();
            ctl.drive("AddrEntryIter", true, || es.next(), |_, _| {});
        }
    }
    {
        let mut it = dwarf.debug_names.headers();
        let mut hs = Vec::new();
        ctl.drive("NameIndexHeaderIter", false, || it.next(), |_, h| hs.push(h));
        for h in hs.into_iter().take(8) {
            if let Ok(index) = h.index() {
                walk_names(ctl, &index, dwarf);
            }
        }
    }
    if convert && !ctl.over() {
        let _ = convert_dwarf(dwarf);
    }
}

fn walk_names<R: Reader<Offset = usize>>(ctl: &mut Ctl, index: &gimli::NameIndex<R>, dwarf: &Dwarf<R>) {
    let _ = (index.compile_unit_count(), index.local_type_unit_count(), index.foreign_type_unit_count(),
        index.bucket_count(), index.name_count(), index.type_unit_count(), index.default_compile_unit());
    for i in 0..index.compile_unit_count().min(64) {
        let _ = index.compile_unit(i);
    }
    for i in 0..index.type_unit_count().min(64) {
        let _ = index.type_unit(i);
    }
    for i in 0..index.local_type_unit_count().min(64) {
        let _ = index.local_type_unit(i);
    }
    for i in 0..index.foreign_type_unit_count().min(64) {
        let _ = index.foreign_type_unit(i);
    }
    let _ = index.has_hash_table();
    let mut names = index.names();
    let mut n = 0u64;
    for name in &mut names {
        n += 1;
        ctl.steps += 1;
        if n > ctl.cap {
            ctl.fail = Some("nonterm-mismatch NameTableIter".into());
            return;
        }
        if n > 512 {
            break;
        }
        let _ = index.name_string_offset(name);
        let _ = index.name_string(name, &dwarf.debug_str);
        if let Ok(mut entries) = index.name_entries(name) {
            ctl.drive("NameEntryIter", true, || entries.next(), |_, e| {
                let _ = format!("{:?}", e).len();
            });
        }
    }
    for b in 0..index.bucket_count().min(64) {
        if let Ok(Some(mut it)) = index.find_by_bucket(b) {
            ctl.drive("NameBucketIter", true, || it.next(), |_, _| {});
        }
    }
    for h in [0u32, 5381, 0xffff_ffff, 177670] {
        if let Ok(mut it) = index.find_by_hash(h) {
            ctl.drive("NameHashIter", true, || it.next(), |_, _| {});
        }
    }
}

fn convert_dwarf<R: Reader<Offset = usize>>(dwarf: &Dwarf<R>) -> Result<usize, gimli::write::ConvertError> {
    let mut w = gimli::write::Dwarf::from(dwarf, &|a| Some(gimli::write::Address::Constant(a)))?;
    let mut sections = gimli::write::Sections::new(gimli::write::EndianVec::new(RunTimeEndian::Little));
    let _ = w.write(&mut sections);
    Ok(sections.debug_info.slice().len())
}

fn walk_cfi<R: Reader<Offset = usize>>(ctl: &mut Ctl, s: &dyn Fn(&str) -> R, addrs: &HashMap<String, u64>, rng: &mut Rng, convert: bool) {
    let bases = BaseAddresses::default()
        .set_eh_frame_hdr(*addrs.get(".eh_frame_hdr").unwrap_or(&0x1000))
        .set_eh_frame(*addrs.get(".eh_frame").unwrap_or(&0x2000))
        .set_text(*addrs.get(".text").unwrap_or(&0x3000))
        .set_got(*addrs.get(".got").unwrap_or(&0x4000));
    let mut eh = EhFrame::from(s("eh_frame"));
    let mut df = DebugFrame::from(s("debug_frame"));
    if rng.below(4) == 0 {
        let sz = [1u8, 2, 4, 8][rng.below(4) as usize];
        eh.set_address_size(sz);
        df.set_address_size(sz);
    }
    if rng.below(4) == 0 {
        eh.set_vendor(gimli::Vendor::AArch64);
        df.set_vendor(gimli::Vendor::AArch64);
    }
    fn section<R: Reader<Offset = usize>, S: UnwindSection<R>>(ctl: &mut Ctl, sec: &S, bases: &BaseAddresses, rng: &mut Rng)
    where
        S::Offset: gimli::UnwindOffset<usize>,
    {
        let mut ctx: UnwindContext<usize> = UnwindContext::new();
        let mut it = sec.entries(bases);
        let mut fdes = Vec::new();
        let mut cies = Vec::new();
        ctl.drive("CfiEntriesIter", false, || it.next(), |_, e| match e {
            gimli::CieOrFde::Cie(c) => cies.push(c),
            gimli::CieOrFde::Fde(p) => {
                if let Ok(f) = p.parse(|s, b, o| s.cie_from_offset(b, o)) {
                    fdes.push(f)
                }
            }
        });
        for c in cies.iter().take(16) {
            let _ = (c.version(), c.code_alignment_factor(), c.data_alignment_factor(), c.return_address_register(),
                c.personality(), c.lsda_encoding(), c.fde_address_encoding(), c.is_signal_trampoline(), c.entry_len());
            let mut ins = c.instructions(sec, bases);
            ctl.drive("CallFrameInstructionIter(cie)", true, || ins.next(), |_, _| {});
        }
        let mut probes = vec![0u64, 1, u64::MAX, u64::MAX - 1, rng.next()];
        for f in fdes.iter().take(32) {
            let _ = (f.initial_address(), f.end_address(), f.len(), f.lsda(), f.personality(), f.entry_len(), f.is_signal_trampoline());
            probes.push(f.initial_address());
            probes.push(f.end_address().wrapping_sub(1));
            probes.push(f.end_address());
            let mut ins = f.instructions(sec, bases);
            ctl.drive("CallFrameInstructionIter(fde)", true, || ins.next(), |_, _| {});
            if let Ok(mut table) = f.rows(sec, bases, &mut ctx) {
                ctl.drive("UnwindTable::next_row", false, || table.next_row().map(|o| o.map(|r| (r.start_address(), r.end_address()))), |_, _| {});
            }
            let _ = f.unwind_info_for_address(sec, bases, &mut ctx, f.initial_address()).map(|r| r.start_address());
        }
        for a in probes.into_iter().take(48) {
            let _ = sec.fde_for_address(bases, a, |s, b, o| s.cie_from_offset(b, o)).map(|f| f.initial_address());
            let _ = sec.unwind_info_for_address(bases, &mut ctx, a, |s, b, o| s.cie_from_offset(b, o)).map(|r| r.start_address());
        }
    }
    section(ctl, &eh, &bases, rng);
    section(ctl, &df, &bases, rng);
    // .eh_frame_hdr
    let hdr = EhFrameHdr::from(s("eh_frame_hdr"));
    for asz in [8u8, 4] {
        if let Ok(parsed) = hdr.parse(&bases, asz) {
            let _ = parsed.eh_frame_ptr();
            if let Some(table) = parsed.table() {
                let mut it = table.iter(&bases);
                ctl.drive("EhHdrTableIter", false, || it.next(), |_, _| {});
                let mut it = table.iter(&bases);
                let _ = it.nth(rng.below(5) as usize);
                let _ = it.nth(usize::MAX);
                let mut ctx: UnwindContext<usize> = UnwindContext::new();
                for a in [0u64, 1, u64::MAX, rng.next(), *addrs.get(".text").unwrap_or(&0x3000) + rng.below(0x400)] {
                    if let Ok(p) = table.lookup(a, &bases) {
                        let _ = table.pointer_to_offset(p);
                    }
                    let _ = table.fde_for_address(&eh, &bases, a, |s, b, o| s.cie_from_offset(b, o)).map(|f| f.initial_address());
                    let _ = table.unwind_info_for_address(&eh, &bases, &mut ctx, a, |s, b, o| s.cie_from_offset(b, o)).map(|r| r.start_address());
                }
            }
        }
    }
    if convert && !ctl.over() {
        let _ = gimli::write::FrameTable::from(&eh, &|a| Some(gimli::write::Address::Constant(a))).map(|t| {
            let mut w = gimli::write::EhFrame::from(gimli::write::EndianVec::new(RunTimeEndian::Little));
            let _ = t.write_eh_frame(&mut w);
        });
        let _ = gimli::write::FrameTable::from(&df, &|a| Some(gimli::write::Address::Constant(a))).map(|t| {
            let mut w = gimli::write::DebugFrame::from(gimli::write::EndianVec::new(RunTimeEndian::Little));
            let _ = t.write_debug_frame(&mut w);
        });
    }
}

fn walk_misc<R: Reader<Offset = usize>>(ctl: &mut Ctl, s: &dyn Fn(&str) -> R, rng: &mut Rng) {
    // .debug_abbrev at a few offsets
    let abbrev = DebugAbbrev::from(s("debug_abbrev"));
    for off in [0usize, 1, rng.below(64) as usize] {
        if let Ok(a) = abbrev.abbreviations(gimli::DebugAbbrevOffset(off)) {
            for code in [0u64, 1, 2, 3, 1000, u64::MAX] {
                let _ = a.get(code).map(|x| (x.tag(), x.has_children(), x.attributes().len()));
            }
        }
    }
    // pubnames / pubtypes
    let mut it = DebugPubNames::from(s("debug_pubnames")).items();
    ctl.drive("PubNamesEntryIter", true, || it.next(), |_, e| {
        let _ = (e.die_offset(), e.unit_header_offset());
    });
    let mut it = DebugPubTypes::from(s("debug_pubtypes")).items();
    ctl.drive("PubTypesEntryIter", true, || it.next(), |_, _| {});
    // macros from offset 0
    if let Ok(mut it) = DebugMacinfo::from(s("debug_macinfo")).get_macinfo(gimli::DebugMacinfoOffset(0)) {
        ctl.drive("MacroIter(macinfo@0)", true, || it.next(), |_, _| {});
    }
    if let Ok(mut it) = DebugMacro::from(s("debug_macro")).get_macros(gimli::DebugMacroOffset(0)) {
        ctl.drive("MacroIter(macro@0)", true, || it.next(), |_, _| {});
    }
    // line programs at offset 0 for several address sizes, without a unit
    let dl = DebugLine::from(s("debug_line"));
    for asz in [8u8, 4, 1] {
        if let Ok(p) = dl.program(DebugLineOffset(0), asz, None, None) {
            walk_line(ctl, p);
        }
    }
    // range / location lists straight from offsets, all encodings
    let rl = RangeLists::new(DebugRanges::from(s("debug_ranges")), DebugRngLists::from(s("debug_rnglists")));
    let ll = LocationLists::new(DebugLoc::from(s("debug_loc")), DebugLocLists::from(s("debug_loclists")));
    let da = DebugAddr::from(s("debug_addr"));
    for version in [4u16, 5] {
        for (format, asz) in [(Format::Dwarf32, 8u8), (Format::Dwarf64, 4), (Format::Dwarf32, 1)] {
            let enc = Encoding { format, version, address_size: asz };
            for off in [0usize, 12, 20, rng.below(256) as usize] {
                if let Ok(mut it) = rl.raw_ranges(gimli::RangeListsOffset(off), enc) {
                    ctl.drive("RawRngListIter@", true, || it.next(), |_, _| {});
                }
                if let Ok(mut it) = rl.ranges(gimli::RangeListsOffset(off), enc, rng.below(3) * 0x1000, &da, gimli::DebugAddrBase(8)) {
                    ctl.drive("RngListIter@", false, || it.next(), |c, r| {
                        if !(r.begin < r.end) {
                            c.fail = Some("range-mismatch RngListIter yielded an empty or inverted range".into());
                        }
                    });
                }
                if let Ok(mut it) = ll.raw_locations(gimli::LocationListsOffset(off), enc) {
                    ctl.drive("RawLocListIter@", true, || it.next(), |_, _| {});
                }
                if let Ok(mut it) = ll.locations(gimli::LocationListsOffset(off), enc, rng.below(3) * 0x1000, &da, gimli::DebugAddrBase(8)) {
                    ctl.drive("LocListIter@", false, || it.next(), |_, _| {});
                }
            }
            for idx in [0usize, 1, 7, usize::MAX, usize::MAX / 4 + 1, 1 << 61] {
                let _ = rl.get_offset(enc, gimli::DebugRngListsBase(12), gimli::DebugRngListsIndex(idx));
                let _ = ll.get_offset(enc, gimli::DebugLocListsBase(12), gimli::DebugLocListsIndex(idx));
                let _ = da.get_address(asz, gimli::DebugAddrBase(8), gimli::DebugAddrIndex(idx));
                let _ = DebugStrOffsets::from(s("debug_str_offsets")).get_str_offset(format, gimli::DebugStrOffsetsBase(8), gimli::DebugStrOffsetsIndex(idx));
            }
        }
    }
    let ds = DebugStr::from(s("debug_str"));
    for off in [0usize, 1, usize::MAX, rng.below(512) as usize] {
        let _ = ds.get_str(gimli::DebugStrOffset(off)).map(|x| x.len());
    }
    // package indexes
    for name in ["debug_cu_index", "debug_tu_index"] {
        let parsed = if name == "debug_cu_index" {
            gimli::DebugCuIndex::from(s(name)).index()
        } else {
            gimli::DebugTuIndex::from(s(name)).index()
        };
        if let Ok(index) = parsed {
            let _ = (index.version(), index.section_count(), index.unit_count(), index.slot_count());
            for id in [0u64, 1, u64::MAX, rng.next()] {
                if let Some(row) = index.find(id) {
                    if let Ok(secs) = index.sections(row) {
                        let mut n = 0;
                        for _ in secs {
                            n += 1;
                            if n > 64 {
                                break;
                            }
                        }
                    }
                }
            }
            for row in [0u32, 1, 2, index.unit_count(), index.unit_count().wrapping_add(1), u32::MAX] {
                if let Ok(secs) = index.sections(row) {
                    let mut n = 0;
                    for x in secs {
                        let _ = (x.section, x.offset, x.size);
                        n += 1;
                        if n > 64 {
                            break;
                        }
                    }
                }
            }
        }
    }
}

// ---------------------------------------------------------------- case runner

fn parse_addrs(sec: &Sections) -> HashMap<String, u64> {
    let mut m = HashMap::new();
    if let Some(a) = sec.get("ADDRS") {
        for line in String::from_utf8_lossy(a).lines() {
            let mut it = line.split_whitespace();
            if let (Some(n), Some(v)) = (it.next(), it.next()) {
                if let Ok(x) = u64::from_str_radix(v, 16) {
                    m.insert(n.to_string(), x);
                }
            }
        }
    }
    m
}

fn section_key(id: SectionId, dwo: bool) -> String {
    let n = id.name().trim_start_matches('.').to_string();
    if dwo {
        format!("{}.dwo", n)
    } else {
        n
    }
}

/// families: dwarf | cfi | misc | all   (suffix `+c` also runs the read->write converters)
fn run_family(fam: &str, secs: &Sections, rng: &mut Rng, fail_at: Option<u64>) -> String {
    let total: usize = secs.values().map(|v| v.len()).sum();
    let mut ctl = Ctl::new(total);
    let convert = fam.ends_with("+c");
    let fam = fam.trim_end_matches("+c");
    let addrs = parse_addrs(secs);
    let dwo = secs.keys().any(|k| k.ends_with(".dwo")) && !secs.contains_key("debug_info");
    let empty: Vec<u8> = Vec::new();
    let get = |name: &str| -> &[u8] {
        let k = if dwo { format!("{}.dwo", name) } else { name.to_string() };
        secs.get(&k).or_else(|| secs.get(name)).map(|v| &v[..]).unwrap_or(&empty[..])
    };
    match fail_at {
        None => {
            let s = |name: &str| EndianSlice::new(get(name), RunTimeEndian::Little);
            if fam == "dwarf" || fam == "all" {
                let mut dwarf = Dwarf::load(|id| -> Result<_, ()> { Ok(s(id.name().trim_start_matches('.'))) }).unwrap();
                if dwo {
                    dwarf.file_type = DwarfFileType::Dwo;
                }
                if rng.below(3) == 0 {
                    dwarf.populate_abbreviations_cache(gimli::AbbreviationsCacheStrategy::All);
                }
                walk_dwarf(&mut ctl, &dwarf, rng, convert);
            }
            if fam == "cfi" || fam == "all" {
                walk_cfi(&mut ctl, &s, &addrs, rng, convert);
            }
            if fam == "misc" || fam == "all" {
                walk_misc(&mut ctl, &s, rng);
            }
        }
        Some(k) => {
            OPS.with(|o| o.set(0));
            let ctr = Rc::new(Cell::new(0u64));
            let s = |name: &str| FaultReader { inner: EndianSlice::new(get(name), RunTimeEndian::Little), ctr: ctr.clone(), fail_at: k };
            if fam == "dwarf" || fam == "all" {
                let mut dwarf = Dwarf::load(|id| -> Result<_, ()> { Ok(s(id.name().trim_start_matches('.'))) }).unwrap();
                if dwo {
                    dwarf.file_type = DwarfFileType::Dwo;
                }
                walk_dwarf(&mut ctl, &dwarf, rng, convert);
            }
            if fam == "cfi" || fam == "all" {
                walk_cfi(&mut ctl, &s, &addrs, rng, convert);
            }
            if fam == "misc" || fam == "all" {
                walk_misc(&mut ctl, &s, rng);
            }
        }
    }
    match ctl.fail {
        Some(f) => f,
        None => "fin".to_string(),
    }
}

const MAIN_SECTIONS: [&str; 24] = [
    "debug_info", "debug_abbrev", "debug_line", "debug_str", "debug_loc", "debug_loclists", "debug_ranges",
    "debug_rnglists", "debug_addr", "debug_str_offsets", "debug_aranges", "debug_names", "debug_pubnames",
    "debug_pubtypes", "debug_macinfo", "debug_macro", "debug_types", "debug_line_str", "eh_frame",
    "eh_frame_hdr", "debug_frame", "debug_cu_index", "debug_tu_index", "debug_info.dwo",
];

pub fn run(t: &[&str]) -> String {
    match t[0] {
        // c01.corpus <family> <variant> <target-section|any> <seed> <nmut> <trunc(-1=no)> <fail_at(-1=no)>
        "c01.corpus" => {
            let fam = t[1];
            let base = load_variant(t[2]);
            if base.is_empty() {
                return format!("missing-corpus {}", t[2]);
            }
            let mut secs: Sections = (*base).clone();
            let mut rng = Rng(u(t[4]));
            let nmut = u(t[5]);
            let trunc: i64 = t[6].parse().unwrap_or(-1);
            // fail_at: -1 none | k >= 0 the k-th reader operation | s<j>+<d>: d operations after the start of the
            // j-th iterator drive of a fault-free counting pass (distinct iterator kinds first, then all drives)
            let site: Option<(usize, u64)> = t[7].strip_prefix('s').and_then(|r| {
                let (j, d) = r.split_once('+')?;
                Some((j.parse().ok()?, d.parse().ok()?))
            });
            let fail_at: i64 = if site.is_some() { -1 } else { t[7].parse().unwrap_or(-1) };
            // choose the section to damage
            let mut names: Vec<String> = secs.keys().filter(|k| *k != "ADDRS").cloned().collect();
            names.sort();
            let target = if t[3] == "any" {
                names[rng.below(names.len() as u64) as usize].clone()
            } else if secs.contains_key(t[3]) {
                t[3].to_string()
            } else if secs.contains_key(&format!("{}.dwo", t[3])) {
                format!("{}.dwo", t[3])
            } else {
                names[rng.below(names.len() as u64) as usize].clone()
            };
            let donor_name = names[rng.below(names.len() as u64) as usize].clone();
            let donor = secs.get(&donor_name).cloned().unwrap_or_default();
            if let Some(buf) = secs.get_mut(&target) {
                mutate(buf, &mut rng, nmut, &donor);
                if trunc >= 0 {
                    let k = (trunc as usize).min(buf.len());
                    buf.truncate(k);
                }
            }
            if let Some((j, d)) = site {
                // pass 1: count operations with a reader that never fails, recording where every drive starts
                SITES.with(|st| *st.borrow_mut() = Some(Vec::new()));
                let mut rng1 = Rng(rng.0);
                let first = run_family(fam, &secs, &mut rng1, Some(u64::MAX));
                let all = SITES.with(|st| st.borrow_mut().take()).unwrap_or_default();
                if first != "fin" {
                    return first;
                }
                let mut seen = std::collections::HashSet::new();
                let mut order: Vec<u64> = all.iter().filter(|(l, _)| seen.insert(l.clone())).map(|(_, o)| *o).collect();
                order.extend(all.iter().map(|(_, o)| *o));
                if order.is_empty() {
                    return "fin".into();
                }
                let k = order[j % order.len()] + d;
                return run_family(fam, &secs, &mut rng, Some(k));
            }
            run_family(fam, &secs, &mut rng, if fail_at >= 0 { Some(fail_at as u64) } else { None })
        }
        // c01.bytes <family> <section-name> <seed> <hex>  — one section given inline, the rest empty
        "c01.bytes" => {
            let mut secs = Sections::new();
            secs.insert(t[2].to_string(), hex(t[4]));
            let mut rng = Rng(u(t[3]));
            run_family(t[1], &secs, &mut rng, None)
        }
        // c01.expr <address_size> <seed> <hex> — one expression: decode, then evaluate with synthetic answers
        "c01.expr" => {
            let asz: u8 = t[1].parse().unwrap_or(8);
            let mut rng = Rng(u(t[2]));
            let bytes = hex(t[3]);
            let mut ctl = Ctl::new(bytes.len());
            for (version, format) in [(5u16, Format::Dwarf32), (2, Format::Dwarf32), (4, Format::Dwarf64)] {
                let enc = Encoding { format, version, address_size: asz };
                let e = gimli::Expression(EndianSlice::new(&bytes, RunTimeEndian::Little));
                walk_expr(&mut ctl, e, enc, &mut rng);
            }
            match ctl.fail {
                Some(f) => f,
                None => "fin".to_string(),
            }
        }
        // c01.pair <family> <secA> <hexA> <secB> <hexB> <seed>
        "c01.pair" => {
            let mut secs = Sections::new();
            secs.insert(t[2].to_string(), hex(t[3]));
            secs.insert(t[4].to_string(), hex(t[5]));
            let mut rng = Rng(u(t[6]));
            run_family(t[1], &secs, &mut rng, None)
        }
        _ => format!("unknown-stream {}", t[0]),
    }
}
