// c14.rs — write::FrameTable (src/write/cfi.rs, src/write/writer.rs).
//
// Every c14.* case is a frame-table script:
//   c14.<stream> <be> <eh> <pre> <vendor> <nops> <op>*
//     op  = 1 fmt64 ver asz caf daf ra <pers> <lsdaenc> fenc sig n insn*        (add_cie)
//         | 2 k <addr> len <lsda> n (off insn)*                                 (add_fde(ids[k], ..))
//     pers    = 0 | 1 enc val | 2 enc sym addend
//     lsdaenc = 0 | 1 enc
//     addr    = 1 val | 2 sym addend        lsda = 0 | 1 val | 2 sym addend
//     insn    = 0 r o | 1 r | 2 o | 3 hex | 4 r | 5 r | 6 r | 7 r o | 8 r o | 9 r r | 10 r hex | 11 r hex
//             | 12 | 13 | 14 n | 15
// Sharp streams print the bytes written by gimli (compared with the model's bytes); the oracle streams
// (c14.rows, c14.f_*) parse gimli's bytes with gimli's own reader and print what was read back: CIE
// parameters, FDE ranges, personality/LSDA and the evaluated unwind rows, after checking the layout
// (entry sizes, nop-only padding, entries tile the section).
use crate::util::*;
use gimli::read::{self, UnwindSection};
use gimli::write::{
    Address, CallFrameInstruction as Cfi, CommonInformationEntry, EndianVec, Expression, FrameDescriptionEntry,
    FrameTable, Writer,
};
use gimli::{DwEhPe, Encoding, EndianSlice, Format, Register, RunTimeEndian, Vendor};

struct Cur<'a> {
    t: &'a [&'a str],
    i: usize,
}
impl<'a> Cur<'a> {
    fn tok(&mut self) -> &'a str {
        let s = self.t.get(self.i).copied().unwrap_or("0");
        self.i += 1;
        s
    }
    fn u(&mut self) -> u64 {
        u(self.tok())
    }
    fn i(&mut self) -> i64 {
        i(self.tok())
    }
    fn bytes(&mut self) -> Vec<u8> {
        hex(self.tok())
    }
}

fn addr(c: &mut Cur, kind: u64) -> Address {
    if kind == 2 {
        let symbol = c.u() as usize;
        let addend = c.i();
        Address::Symbol { symbol, addend }
    } else {
        Address::Constant(c.u())
    }
}

fn insn(c: &mut Cur) -> Cfi {
    let reg = |c: &mut Cur| Register(c.u() as u16);
    match c.u() {
        0 => { let r = reg(c); Cfi::Cfa(r, c.i() as i32) }
        1 => Cfi::CfaRegister(reg(c)),
        2 => Cfi::CfaOffset(c.i() as i32),
        3 => Cfi::CfaExpression(Expression::raw(c.bytes())),
        4 => Cfi::Restore(reg(c)),
        5 => Cfi::Undefined(reg(c)),
        6 => Cfi::SameValue(reg(c)),
        7 => { let r = reg(c); Cfi::Offset(r, c.i() as i32) }
        8 => { let r = reg(c); Cfi::ValOffset(r, c.i() as i32) }
        9 => { let r = reg(c); Cfi::Register(r, reg(c)) }
        10 => { let r = reg(c); Cfi::Expression(r, Expression::raw(c.bytes())) }
        11 => { let r = reg(c); Cfi::ValExpression(r, Expression::raw(c.bytes())) }
        12 => Cfi::RememberState,
        13 => Cfi::RestoreState,
        14 => Cfi::ArgsSize(c.u() as u32),
        _ => Cfi::NegateRaState,
    }
}

struct Built {
    table: FrameTable,
    canon: Vec<usize>, // for each add_cie call the first call that returned an equal id
    first_asz: u8,
    // (fmt64, asz) of every add_cie call, for the layout oracle
    encs: Vec<(bool, u8)>,
}

fn build(c: &mut Cur) -> Built {
    let nops = c.u();
    let mut table = FrameTable::default();
    let mut ids = Vec::new();
    let mut canon = Vec::new();
    let mut first_asz = 0u8;
    let mut encs = Vec::new();
    for _ in 0..nops {
        match c.u() {
            1 => {
                let fmt64 = c.u() == 1;
                let version = c.u() as u16;
                let address_size = c.u() as u8;
                let caf = c.u() as u8;
                let daf = c.i() as i8;
                let ra = Register(c.u() as u16);
                let encoding = Encoding {
                    format: if fmt64 { Format::Dwarf64 } else { Format::Dwarf32 },
                    version,
                    address_size,
                };
                let mut cie = CommonInformationEntry::new(encoding, caf, daf, ra);
                let pk = c.u();
                if pk != 0 {
                    let enc = DwEhPe(c.u() as u8);
                    cie.personality = Some((enc, addr(c, pk)));
                }
                if c.u() != 0 {
                    cie.lsda_encoding = Some(DwEhPe(c.u() as u8));
                }
                cie.fde_address_encoding = DwEhPe(c.u() as u8);
                cie.signal_trampoline = c.u() == 1;
                let n = c.u();
                for _ in 0..n {
                    cie.add_instruction(insn(c));
                }
                if encs.is_empty() {
                    first_asz = address_size;
                }
                encs.push((fmt64, address_size));
                let id = table.add_cie(cie);
                let first = ids.iter().position(|x| *x == id).unwrap_or(ids.len());
                ids.push(id);
                canon.push(first);
            }
            _ => {
                let k = c.u() as usize;
                let ak = c.u();
                let a = addr(c, ak);
                let len = c.u() as u32;
                let mut fde = FrameDescriptionEntry::new(a, len);
                let lk = c.u();
                if lk != 0 {
                    fde.lsda = Some(addr(c, lk));
                }
                let n = c.u();
                for _ in 0..n {
                    let off = c.u() as u32;
                    fde.add_instruction(off, insn(c));
                }
                table.add_fde(ids[k], fde);
            }
        }
    }
    Built { table, canon, first_asz, encs }
}

fn ptr(p: read::Pointer) -> String {
    match p {
        read::Pointer::Direct(x) => format!("D{}", x),
        read::Pointer::Indirect(x) => format!("I{}", x),
    }
}

fn dump<'a, S>(
    section: &S,
    data: &'a [u8],
) -> String
where
    S: UnwindSection<EndianSlice<'a, RunTimeEndian>>,
    S::Offset: read::UnwindOffset<usize>,
{
    let bases = read::BaseAddresses::default().set_eh_frame(0);
    let mut out = String::from("ok");
    let mut cie_offsets: Vec<usize> = Vec::new();
    let mut entries = section.entries(&bases);
    let mut next_off = 0usize;
    let mut ctx = read::UnwindContext::new();
    loop {
        let entry = match entries.next() {
            Ok(Some(e)) => e,
            Ok(None) => break,
            Err(e) => return format!("readback-mismatch entries {}", errname(&e)),
        };
        // layout of one entry, from its raw prefix
        let (off, total, fmt64, asz, insns_ok) = match entry {
            read::CieOrFde::Cie(cie) => {
                let off = cie.offset();
                cie_offsets.push(off);
                let enc = cie.encoding();
                let fmt64 = enc.format == Format::Dwarf64;
                let aug = match cie.augmentation() {
                    None => "-".to_string(),
                    Some(_) => {
                        let mut s = String::from("z");
                        if let Some(e) = cie.lsda_encoding() {
                            s.push_str(&format!("L{}", e.0));
                        }
                        if let Some((e, p)) = cie.personality_with_encoding() {
                            s.push_str(&format!("P{}.{}", e.0, ptr(p)));
                        }
                        if let Some(e) = cie.fde_address_encoding() {
                            s.push_str(&format!("R{}", e.0));
                        }
                        if cie.is_signal_trampoline() {
                            s.push('S');
                        }
                        s
                    }
                };
                out.push_str(&format!(
                    " C:{}:v{}:a{}:c{}:d{}:r{}:{}",
                    if fmt64 { 64 } else { 32 },
                    cie.version(),
                    cie.address_size(),
                    cie.code_alignment_factor(),
                    cie.data_alignment_factor(),
                    cie.return_address_register().0,
                    aug
                ));
                let mut it = cie.instructions(section, &bases);
                let pad = padding_ok(&mut it, cie.address_size());
                (off, cie.entry_len() + if fmt64 { 12 } else { 4 }, fmt64, cie.address_size(), pad)
            }
            read::CieOrFde::Fde(partial) => {
                let fde = match partial.parse(S::cie_from_offset) {
                    Ok(f) => f,
                    Err(e) => return format!("readback-mismatch fde {}", errname(&e)),
                };
                let off = fde.offset();
                let fmt64 = fde.cie().encoding().format == Format::Dwarf64;
                let asz = fde.cie().address_size();
                let cidx = cie_offsets
                    .iter()
                    .position(|o| *o == fde.cie().offset())
                    .map(|x| x.to_string())
                    .unwrap_or_else(|| "?".into());
                out.push_str(&format!(
                    " F:{}:{}:{}:{}:",
                    cidx,
                    fde.initial_address(),
                    fde.len(),
                    fde.lsda().map(ptr).unwrap_or_else(|| "-".into())
                ));
                let mut rows = Vec::new();
                match fde.rows(section, &bases, &mut ctx) {
                    Err(e) => rows.push(format!("!{}", errname(&e))),
                    Ok(mut table) => loop {
                        match table.next_row() {
                            Ok(None) => break,
                            Err(e) => {
                                rows.push(format!("!{}", errname(&e)));
                                break;
                            }
                            Ok(Some(row)) => {
                                let cfa = match row.cfa() {
                                    read::CfaRule::RegisterAndOffset { register, offset } => {
                                        format!("r{}+{}", register.0, offset)
                                    }
                                    read::CfaRule::Expression(e) => format!("e{}", tohex(&data[e.offset..e.offset + e.length])),
                                };
                                let mut rules: Vec<(u16, String)> = row
                                    .registers()
                                    .map(|(r, rule)| {
                                        let s = match rule {
                                            read::RegisterRule::Undefined => "u".to_string(),
                                            read::RegisterRule::SameValue => "s".to_string(),
                                            read::RegisterRule::Offset(o) => format!("o{}", o),
                                            read::RegisterRule::ValOffset(o) => format!("v{}", o),
                                            read::RegisterRule::Register(r) => format!("r{}", r.0),
                                            read::RegisterRule::Expression(e) => {
                                                format!("e{}", tohex(&data[e.offset..e.offset + e.length]))
                                            }
                                            read::RegisterRule::ValExpression(e) => {
                                                format!("x{}", tohex(&data[e.offset..e.offset + e.length]))
                                            }
                                            read::RegisterRule::Architectural => "arch".to_string(),
                                            read::RegisterRule::Constant(c) => format!("c{}", c),
                                            _ => "other".to_string(),
                                        };
                                        (r.0, s)
                                    })
                                    .collect();
                                rules.sort();
                                let rs = if rules.is_empty() {
                                    "-".to_string()
                                } else {
                                    rules.iter().map(|(r, s)| format!("{}={}", r, s)).collect::<Vec<_>>().join(",")
                                };
                                rows.push(format!(
                                    "{}-{}/{}/{}/{}",
                                    row.start_address(),
                                    row.end_address(),
                                    cfa,
                                    rs,
                                    row.saved_args_size()
                                ));
                            }
                        }
                    },
                }
                out.push_str(&rows.join("|"));
                let mut it = fde.instructions(section, &bases);
                let pad = padding_ok(&mut it, asz);
                (off, fde.entry_len() + if fmt64 { 12 } else { 4 }, fmt64, asz, pad)
            }
        };
        if off != next_off {
            return format!("layout-mismatch entry at {} expected at {}", off, next_off);
        }
        next_off = off + total;
        if !insns_ok {
            return format!("padding-mismatch entry at {}", off);
        }
        let _ = fmt64;
        if asz != 0 && total % (asz as usize) != 0 {
            return format!("layout-mismatch entry at {} size {} address_size {}", off, total, asz);
        }
    }
    if next_off != data.len() {
        return format!("layout-mismatch entries end at {} section {}", next_off, data.len());
    }
    out
}

/// instructions are followed only by DW_CFA_nop, fewer than address_size of them
fn padding_ok<'a>(
    it: &mut read::CallFrameInstructionIter<'_, EndianSlice<'a, RunTimeEndian>>,
    asz: u8,
) -> bool {
    let mut nops = 0usize;
    loop {
        match it.next() {
            Ok(None) => break,
            Ok(Some(read::CallFrameInstruction::Nop)) => nops += 1,
            Ok(Some(_)) => {
                if nops > 0 {
                    return false;
                }
            }
            // an undecodable instruction area is reported through the rows of the entry
            Err(_) => return true,
        }
    }
    nops < asz.max(1) as usize
}

/// Watchdog writer: an EndianVec that refuses to grow beyond `cap` bytes, so that a runaway loop in the
/// code under test ends with an error instead of exhausting memory.
struct CapVec {
    v: EndianVec<RunTimeEndian>,
    cap: usize,
    runaway: bool,
}
impl Writer for CapVec {
    type Endian = RunTimeEndian;
    fn endian(&self) -> RunTimeEndian {
        self.v.endian()
    }
    fn len(&self) -> usize {
        self.v.len()
    }
    fn write(&mut self, bytes: &[u8]) -> gimli::write::Result<()> {
        if self.v.len() + bytes.len() > self.cap {
            self.runaway = true;
            return Err(gimli::write::Error::LengthOutOfBounds);
        }
        self.v.write(bytes)
    }
    fn write_at(&mut self, offset: usize, bytes: &[u8]) -> gimli::write::Result<()> {
        self.v.write_at(offset, bytes)
    }
}

pub fn run(t: &[&str]) -> String {
    let stream = t[0];
    let mut c = Cur { t, i: 1 };
    let e = endian(c.tok());
    let eh = c.u() == 1;
    let pre = c.u() as usize;
    let vendor = if c.u() == 1 { Vendor::AArch64 } else { Vendor::Default };
    let b = build(&mut c);
    if stream == "c14.asz" {
        // address sizes the writer cannot honour must be an error, neither a panic nor a runaway loop (watchdog)
        let cap = 1 << 20;
        let w = CapVec { v: EndianVec::new(e), cap, runaway: false };
        let (res, runaway, n) = if eh {
            let mut s = gimli::write::EhFrame::from(w);
            let r = b.table.write_eh_frame(&mut s);
            (r, s.0.runaway, s.0.v.len())
        } else {
            let mut s = gimli::write::DebugFrame::from(w);
            let r = b.table.write_debug_frame(&mut s);
            (r, s.0.runaway, s.0.v.len())
        };
        if runaway {
            return format!("runaway-mismatch more than {} bytes written", cap);
        }
        return match res {
            Ok(()) => format!("ok {}", n),
            Err(e) => err(&e),
        };
    }
    let mut w = EndianVec::new(e);
    for _ in 0..pre {
        w.write_u8(0xa5).unwrap();
    }
    let (res, bytes) = if eh {
        let mut s = gimli::write::EhFrame::from(w);
        let r = b.table.write_eh_frame(&mut s);
        (r, s.0.into_vec())
    } else {
        let mut s = gimli::write::DebugFrame::from(w);
        let r = b.table.write_debug_frame(&mut s);
        (r, s.0.into_vec())
    };
    if let Err(e) = res {
        return err(&e);
    }
    let sharp = !matches!(stream, "c14.rows" | "c14.ehra" | "c14.pad64" | "c14.lsda");
    if sharp {
        let canon = if b.canon.is_empty() {
            "-".to_string()
        } else {
            b.canon.iter().map(|x| x.to_string()).collect::<Vec<_>>().join(",")
        };
        return format!("ok {} {} {} {}", tohex(&bytes[pre..]), b.table.cie_count(), b.table.fde_count(), canon);
    }
    // oracle: read back with gimli's own reader
    let data = &bytes[..];
    if eh {
        let mut s = read::EhFrame::new(data, e);
        s.set_address_size(b.first_asz);
        s.set_vendor(vendor);
        dump(&s, data)
    } else {
        let mut s = read::DebugFrame::new(data, e);
        s.set_address_size(b.first_asz);
        s.set_vendor(vendor);
        dump(&s, data)
    }
}
