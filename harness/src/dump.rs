// dump.rs — semantic dump of DWARF as read by gimli's reader. Used as the *meaning function* by the
// conversion (C12) and write→read (C11) oracles: two DWARF objects have the same meaning iff their dumps are
// equal. Forms, offsets and encodings are abstracted: strings are resolved to bytes, indexed addresses to
// addresses, range/location list references to the resolved lists, entry references to (unit#, preorder#),
// file indices to (directory, name), branch targets to operation indices.
use gimli::{
    AttributeValue as AV, DebugInfoOffset, Dwarf, Encoding, Operation, Reader, Unit, UnitOffset,
    UnitSectionOffset,
};
use std::collections::HashMap;

pub type Res<T> = Result<T, String>;

/// C12 only: a line program without a single (non-tombstoned) row is not part of the meaning that a
/// conversion has to preserve (the writer omits empty line programs). Other users of the dump (C11:
/// write -> read) keep DW_AT_stmt_list as written.
pub static EMPTY_LINE_PROGRAM_IS_NOTHING: std::sync::atomic::AtomicBool = std::sync::atomic::AtomicBool::new(false);

fn e<E: core::fmt::Debug>(x: E) -> String {
    // variant name only: payloads may contain pointers (ReaderOffsetId)
    crate::util::errname(&x)
}

pub struct UnitMap {
    /// .debug_info offset of every entry -> (unit index, preorder index)
    pub by_section_offset: HashMap<usize, (usize, usize)>,
}

pub fn hex(b: &[u8]) -> String {
    let mut s = String::new();
    for x in b {
        s.push_str(&format!("{:02x}", x));
    }
    s
}

fn skip_attr(name: gimli::DwAt) -> bool {
    matches!(
        name,
        gimli::DW_AT_sibling
            | gimli::DW_AT_str_offsets_base
            | gimli::DW_AT_addr_base
            | gimli::DW_AT_rnglists_base
            | gimli::DW_AT_loclists_base
            | gimli::DW_AT_GNU_ranges_base
            | gimli::DW_AT_GNU_addr_base
            // The converter documents this GNU extension (offsets of location *views* inside the
            // location-list section, which is rewritten) as "not supported, and safe to ignore".
            | gimli::DW_AT_GNU_locviews
            | gimli::DW_AT_GNU_entry_view
    )
}

pub fn collect_units<R: Reader<Offset = usize>>(dwarf: &Dwarf<R>) -> Res<(Vec<Unit<R>>, UnitMap)> {
    let mut units = Vec::new();
    let mut map = UnitMap { by_section_offset: HashMap::new() };
    let mut it = dwarf.units();
    while let Some(h) = it.next().map_err(e)? {
        let unit = dwarf.unit(h).map_err(e)?;
        let ui = units.len();
        // (section offset, depth, tag) in encoded preorder
        let mut ents: Vec<(usize, isize, u16)> = Vec::new();
        let mut raw = unit.entries_raw(None).map_err(e)?;
        while !raw.is_empty() {
            let off = raw.next_offset();
            let depth = raw.next_depth();
            let abbrev = raw.read_abbreviation().map_err(e)?;
            if let Some(a) = abbrev {
                let UnitSectionOffset(so) = off.to_unit_section_offset(&unit.header);
                ents.push((so, depth, a.tag().0));
                raw.skip_attributes(a.attributes()).map_err(e)?;
            }
        }
        for (idx, so) in normal_order(&ents).into_iter().enumerate() {
            map.by_section_offset.insert(ents[so].0, (ui, idx));
        }
        units.push(unit);
    }
    Ok((units, map))
}

/// The writer moves DW_TAG_base_type children of the root in front of the other children (stable);
/// meaning is compared modulo that documented normalisation. Returns the entry indices in normal order.
pub fn normal_order(ents: &[(usize, isize, u16)]) -> Vec<usize> {
    if ents.is_empty() {
        return Vec::new();
    }
    let root_depth = ents[0].1;
    let mut order = vec![0usize];
    // subtrees of the root's children
    let mut subtrees: Vec<(usize, usize)> = Vec::new(); // [start, end)
    let mut i = 1;
    while i < ents.len() {
        if ents[i].1 <= root_depth {
            break; // a second root: leave the rest in place
        }
        let start = i;
        let d = ents[i].1;
        i += 1;
        while i < ents.len() && ents[i].1 > d {
            i += 1;
        }
        subtrees.push((start, i));
    }
    let tail_start = i;
    for &(s, t) in subtrees.iter().filter(|(s, _)| ents[*s].2 == gimli::DW_TAG_base_type.0) {
        order.extend(s..t);
    }
    for &(s, t) in subtrees.iter().filter(|(s, _)| ents[*s].2 != gimli::DW_TAG_base_type.0) {
        order.extend(s..t);
    }
    order.extend(tail_start..ents.len());
    order
}

fn unit_ref<R: Reader<Offset = usize>>(unit: &Unit<R>, map: &UnitMap, off: UnitOffset) -> String {
    let UnitSectionOffset(so) = off.to_unit_section_offset(&unit.header);
    match map.by_section_offset.get(&so) {
        Some((u, i)) => format!("@{}:{}", u, i),
        None => "@dangling".to_string(),
    }
}

fn info_ref(map: &UnitMap, off: DebugInfoOffset) -> String {
    match map.by_section_offset.get(&off.0) {
        Some((u, i)) => format!("@{}:{}", u, i),
        None => "@dangling".to_string(),
    }
}

pub fn dump_expr<R: Reader<Offset = usize>>(
    expr: &gimli::Expression<R>,
    encoding: Encoding,
    unit: Option<&Unit<R>>,
    map: Option<&UnitMap>,
    depth: usize,
    resolve_addr: Option<&dyn Fn(gimli::DebugAddrIndex<usize>) -> Option<u64>>,
) -> Res<String> {
    // first pass: operation start offsets
    let mut starts = Vec::new();
    let mut ops = Vec::new();
    let mut it = expr.clone().operations(encoding);
    loop {
        let pos = it.offset_from(expr);
        match it.next().map_err(e)? {
            Some(op) => {
                starts.push(pos);
                ops.push(op);
            }
            None => {
                starts.push(pos);
                break;
            }
        }
    }
    let uref = |o: UnitOffset| -> String {
        if o.0 == 0 {
            return "@generic".to_string();
        }
        match (unit, map) {
            (Some(u), Some(m)) => unit_ref(u, m, o),
            _ => format!("@raw{}", o.0),
        }
    };
    let mut out = Vec::new();
    for (i, op) in ops.iter().enumerate() {
        let s = match op {
            Operation::Bra { target } | Operation::Skip { target } => {
                let after = starts[i + 1] as i64;
                let dest = after + i64::from(*target);
                let idx = starts.iter().position(|s| *s as i64 == dest);
                let name = if matches!(op, Operation::Bra { .. }) { "Bra" } else { "Skip" };
                match idx {
                    Some(k) => format!("{}->#{}", name, k),
                    None => format!("{}->mid{}", name, dest),
                }
            }
            Operation::Deref { base_type, size, space } => format!("Deref({},{},{})", uref(*base_type), size, space),
            Operation::RegisterOffset { register, offset, base_type } => {
                format!("RegisterOffset({},{},{})", register.0, offset, uref(*base_type))
            }
            Operation::Call { offset } => match offset {
                gimli::DieReference::UnitRef(o) => format!("Call({})", uref(*o)),
                gimli::DieReference::DebugInfoRef(o) => {
                    format!("Call({})", map.map(|m| info_ref(m, *o)).unwrap_or_else(|| format!("@raw{}", o.0)))
                }
            },
            Operation::VariableValue { offset } => {
                format!("VariableValue({})", map.map(|m| info_ref(m, *offset)).unwrap_or_else(|| format!("@raw{}", offset.0)))
            }
            Operation::ImplicitPointer { value, byte_offset } => format!(
                "ImplicitPointer({},{})",
                map.map(|m| info_ref(m, *value)).unwrap_or_else(|| format!("@raw{}", value.0)),
                byte_offset
            ),
            Operation::ParameterRef { offset } => format!("ParameterRef({})", uref(*offset)),
            Operation::TypedLiteral { base_type, value } => {
                format!("TypedLiteral({},{})", uref(*base_type), hex(&value.to_slice().map_err(e)?))
            }
            Operation::Convert { base_type } => format!("Convert({})", uref(*base_type)),
            Operation::Reinterpret { base_type } => format!("Reinterpret({})", uref(*base_type)),
            Operation::ImplicitValue { data } => format!("ImplicitValue({})", hex(&data.to_slice().map_err(e)?)),
            Operation::EntryValue { expression } => {
                if depth > 16 {
                    "EntryValue(<deep>)".to_string()
                } else {
                    format!(
                        "EntryValue[{}]",
                        dump_expr(&gimli::Expression(expression.clone()), encoding, unit, map, depth + 1, resolve_addr)?
                    )
                }
            }
            Operation::AddressIndex { index } => match resolve_addr {
                Some(f) => match f(*index) {
                    Some(a) => format!("Address{{address:{}}}", a),
                    None => format!("AddressIndex(unresolved{})", index.0),
                },
                None => format!("AddressIndex({})", index.0),
            },
            other => format!("{:?}", other).replace(' ', ""),
        };
        out.push(s);
    }
    Ok(out.join(";"))
}

fn file_name<R: Reader<Offset = usize>>(dwarf: &Dwarf<R>, unit: &Unit<R>, idx: u64) -> String {
    let program = match &unit.line_program {
        Some(p) => p,
        None => return format!("file?{}", idx),
    };
    let header = program.header();
    match header.file(idx) {
        None => format!("file-oob{}", idx),
        Some(f) => {
            let name = dwarf.attr_string(unit, f.path_name()).ok().and_then(|s| s.to_slice().ok().map(|c| hex(&c)));
            let dir = f
                .directory(header)
                .and_then(|d| dwarf.attr_string(unit, d).ok())
                .and_then(|s| s.to_slice().ok().map(|c| hex(&c)));
            // the whole file entry is the meaning: directory, name, timestamp, size, MD5, embedded source
            let src = f
                .source()
                .and_then(|v| dwarf.attr_string(unit, v).ok())
                .and_then(|s| s.to_slice().ok().map(|c| hex(&c)));
            let md5 = if f.md5().iter().all(|b| *b == 0) { "-".to_string() } else { hex(&f.md5()[..]) };
            let d = dir.unwrap_or_else(|| "-".into());
            let n = name.unwrap_or_else(|| "?".into());
            if f.timestamp() == 0 && f.size() == 0 && md5 == "-" && src.is_none() {
                format!("file({},{})", d, n)
            } else {
                format!("file({},{},t{},s{},m{},src{})", d, n, f.timestamp(), f.size(), md5, src.unwrap_or_else(|| "-".into()))
            }
        }
    }
}

pub fn dump_line_program<R: Reader<Offset = usize>>(dwarf: &Dwarf<R>, unit: &Unit<R>, out: &mut Vec<String>) -> Res<()> {
    let program = match &unit.line_program {
        Some(p) => p.clone(),
        None => return Ok(()),
    };
    let mut rows = program.rows();
    let mut n = 0;
    // rows of the current sequence; a sequence consisting of an end row only covers no address and is
    // dropped (it has no meaning to preserve)
    let mut seq: Vec<String> = Vec::new();
    while let Some((_, row)) = rows.next_row().map_err(e)? {
        n += 1;
        if n > 200_000 {
            return Err("too many rows".into());
        }
        let line = row.line().map(|l| l.get()).unwrap_or(0);
        let col = match row.column() {
            gimli::ColumnType::LeftEdge => 0,
            gimli::ColumnType::Column(c) => c.get(),
        };
        if row.end_sequence() {
            if !seq.is_empty() {
                out.append(&mut seq);
                out.push(format!("  row {:#x} end", row.address()));
            }
        } else {
            seq.push(format!(
                "  row {:#x} op{} {} l{} c{} s{} b{} p{} e{} isa{} d{}",
                row.address(),
                row.op_index(),
                file_name(dwarf, unit, row.file_index()),
                line,
                col,
                row.is_stmt() as u8,
                row.basic_block() as u8,
                row.prologue_end() as u8,
                row.epilogue_begin() as u8,
                row.isa(),
                row.discriminator()
            ));
        }
    }
    // rows after the last end_sequence (unterminated sequence)
    out.append(&mut seq);
    Ok(())
}

pub fn dump_attr<R: Reader<Offset = usize>>(
    dwarf: &Dwarf<R>,
    unit: &Unit<R>,
    map: &UnitMap,
    attr: &gimli::Attribute<R>,
) -> Res<Option<String>> {
    let name = attr.name();
    if skip_attr(name) {
        return Ok(None);
    }
    let enc = unit.encoding();
    let v = attr.value();
    let val = match v.clone() {
        AV::Addr(a) => format!("addr:{:#x}", a),
        AV::DebugAddrIndex(i) => format!("addr:{:#x}", dwarf.address(unit, i).map_err(e)?),
        AV::String(s) => format!("str:{}", hex(&s.to_slice().map_err(e)?)),
        AV::DebugStrRef(_) | AV::DebugStrOffsetsIndex(_) | AV::DebugLineStrRef(_) => {
            format!("str:{}", hex(&dwarf.attr_string(unit, v.clone()).map_err(e)?.to_slice().map_err(e)?))
        }
        AV::Exprloc(x) => format!("expr:{}", dump_expr(&x, enc, Some(unit), Some(map), 0, Some(&|i| dwarf.address(unit, i).ok()))?),
        AV::UnitRef(o) => format!("ref:{}", unit_ref(unit, map, o)),
        AV::DebugInfoRef(o) => format!("ref:{}", info_ref(map, o)),
        AV::RangeListsRef(_) | AV::DebugRngListsIndex(_) => {
            let mut it = dwarf.attr_ranges(unit, v.clone()).map_err(e)?.ok_or("no ranges")?;
            let mut s = String::from("ranges:");
            while let Some(r) = it.next().map_err(e)? {
                s.push_str(&format!("[{:#x},{:#x})", r.begin, r.end));
            }
            s
        }
        AV::LocationListsRef(_) | AV::DebugLocListsIndex(_) => {
            let mut it = dwarf.attr_locations(unit, v.clone()).map_err(e)?.ok_or("no locations")?;
            let mut s = String::from("locs:");
            while let Some(l) = it.next().map_err(e)? {
                s.push_str(&format!(
                    "[{:#x},{:#x}){{{}}}",
                    l.range.begin,
                    l.range.end,
                    dump_expr(&l.data, enc, Some(unit), Some(map), 0, Some(&|i| dwarf.address(unit, i).ok()))?
                ));
            }
            s
        }
        AV::DebugLineRef(_) => {
            // A program without a single (non-tombstoned) row is not carried over by the converter
            // (the writer omits unused/empty line programs): only a program with rows is part of the meaning.
            let mut has_rows = false;
            if let Some(p) = &unit.line_program {
                let mut rows = p.clone().rows();
                while let Ok(Some((_, row))) = rows.next_row() {
                    if !row.end_sequence() {
                        has_rows = true;
                        break;
                    }
                }
            }
            if !has_rows && EMPTY_LINE_PROGRAM_IS_NOTHING.load(std::sync::atomic::Ordering::Relaxed) {
                return Ok(None);
            }
            "lineprogram".to_string()
        }
        AV::FileIndex(i) => file_name(dwarf, unit, i),
        AV::Block(b) => format!("block:{}", hex(&b.to_slice().map_err(e)?)),
        AV::Flag(f) => format!("flag:{}", f as u8),
        AV::DwoId(id) => format!("Udata({})", id.0),
        other => format!("{:?}", other).replace(' ', ""),
    };
    Ok(Some(format!("{}={}", name.0, val)))
}

/// Whole-object dump: units in order, entries in preorder.
pub fn dump_dwarf<R: Reader<Offset = usize>>(dwarf: &Dwarf<R>, with_lines: bool) -> Res<Vec<String>> {
    let (units, map) = collect_units(dwarf)?;
    let mut out = Vec::new();
    for (ui, unit) in units.iter().enumerate() {
        let h = &unit.header;
        out.push(format!(
            "unit {} v{} {:?} asz{} type={:?}",
            ui,
            h.version(),
            h.format(),
            h.address_size(),
            h.type_()
        ).replace("UnitOffset(", "UnitOffset(#"));
        let mut raw = unit.entries_raw(None).map_err(e)?;
        let mut lines: Vec<String> = Vec::new();
        let mut ents: Vec<(usize, isize, u16)> = Vec::new();
        while !raw.is_empty() {
            let depth = raw.next_depth();
            let abbrev = raw.read_abbreviation().map_err(e)?;
            if let Some(a) = abbrev {
                let mut attrs = Vec::new();
                for spec in a.attributes() {
                    let attr = raw.read_attribute(*spec).map_err(e)?;
                    match dump_attr(dwarf, unit, &map, &attr) {
                        Ok(Some(s)) => attrs.push(s),
                        Ok(None) => {}
                        Err(x) => attrs.push(format!("{}=!{}", attr.name().0, x)),
                    }
                }
                ents.push((0, depth, a.tag().0));
                lines.push(format!(" {} tag{:#x} {}", depth, a.tag().0, attrs.join(" ")));
            }
        }
        for i in normal_order(&ents) {
            out.push(lines[i].clone());
        }
        if with_lines {
            dump_line_program(dwarf, unit, &mut out)?;
        }
    }
    Ok(out)
}

/// Unwind rows of every FDE of a frame section. Adjacent rows with identical rules are merged and empty
/// rows dropped (an advance that changes nothing has no meaning); expressions are decoded.
pub fn dump_cfi<R: Reader<Offset = usize>, S: gimli::UnwindSection<R>>(sec: &S, bases: &gimli::BaseAddresses) -> Res<Vec<String>>
where
    S::Offset: gimli::UnwindOffset<usize>,
{
    let mut out = Vec::new();
    let mut ctx: gimli::UnwindContext<usize> = gimli::UnwindContext::new();
    let mut it = sec.entries(bases);
    while let Some(entry) = it.next().map_err(e)? {
        if let gimli::CieOrFde::Fde(p) = entry {
            let fde = p.parse(|s, b, o| s.cie_from_offset(b, o)).map_err(e)?;
            let cie = fde.cie().clone();
            let enc = cie.encoding();
            out.push(format!(
                "fde {:#x}+{:#x} ra{} lsda={:?} pers={:?} sig{}",
                fde.initial_address(),
                fde.len(),
                cie.return_address_register().0,
                fde.lsda(),
                fde.personality(),
                fde.is_signal_trampoline() as u8
            ).replace(' ', "_").replacen("fde_", "fde ", 1));
            let ex = |x: &gimli::UnwindExpression<usize>| -> String {
                match x.get(sec) {
                    Ok(expr) => dump_expr(&expr, enc, None, None, 0, None).unwrap_or_else(|m| format!("!{}", m)),
                    Err(m) => format!("!{}", e(m)),
                }
            };
            let mut rows: Vec<(u64, u64, String)> = Vec::new();
            let mut table = fde.rows(sec, bases, &mut ctx).map_err(e)?;
            loop {
                match table.next_row() {
                    Ok(Some(row)) => {
                        let mut regs: Vec<String> = row
                            .registers()
                            .map(|(r, rule)| match rule {
                                gimli::RegisterRule::Expression(x) => format!("r{}=Expression[{}]", r.0, ex(x)),
                                gimli::RegisterRule::ValExpression(x) => format!("r{}=ValExpression[{}]", r.0, ex(x)),
                                other => format!("r{}={:?}", r.0, other).replace(' ', ""),
                            })
                            .collect();
                        regs.sort();
                        let cfa = match row.cfa() {
                            gimli::CfaRule::Expression(x) => format!("Expression[{}]", ex(x)),
                            other => format!("{:?}", other).replace(' ', ""),
                        };
                        let rules = format!("cfa={} args{} {}", cfa, row.saved_args_size(), regs.join(" "));
                        let (s, t) = (row.start_address(), row.end_address());
                        if s > t || s < fde.initial_address() || t > fde.end_address() {
                            return Err("rows-outside-fde".to_string());
                        }
                        if s == t {
                            continue;
                        }
                        match rows.last_mut() {
                            Some(last) if last.2 == rules && last.1 == s => last.1 = t,
                            _ => rows.push((s, t, rules)),
                        }
                    }
                    Ok(None) => break,
                    Err(x) => {
                        rows.push((0, 0, format!("!{}", e(x))));
                        break;
                    }
                }
            }
            for (s, t, rules) in rows {
                out.push(format!("  [{:#x},{:#x}) {}", s, t, rules));
            }
        }
    }
    Ok(out)
}

/// Classify every difference between two dumps. Classes carry no values, so that a class names a *kind* of
/// alteration (e.g. `dropped:8503` = attribute 0x2137 missing in the output) and can be matched against the
/// known-findings list one by one. Returns a sorted, de-duplicated, comma-separated list ("" = equal).
pub fn diff_classes(a: &[String], b: &[String]) -> String {
    let mut classes: Vec<String> = Vec::new();
    let verbose = std::env::var_os("GV_VERBOSE").is_some();
    if a.len() != b.len() {
        classes.push("linecount".to_string());
        if verbose {
            eprintln!("IN:\n{}\nOUT:\n{}", a.join("\n"), b.join("\n"));
        }
    }
    for i in 0..a.len().min(b.len()) {
        let (x, y) = (&a[i], &b[i]);
        if x == y {
            continue;
        }
        if verbose {
            eprintln!("DIFF line {}\n  in : {}\n  out: {}", i, x, y);
        }
        if x.starts_with("unit ") || y.starts_with("unit ") {
            classes.push("unithdr".to_string());
            continue;
        }
        if x.starts_with("  row") || y.starts_with("  row") {
            classes.push("linerow".to_string());
            continue;
        }
        if x.starts_with("fde ") || y.starts_with("fde ") {
            classes.push("fdehdr".to_string());
            continue;
        }
        if x.starts_with("  [") || y.starts_with("  [") {
            classes.push("cfirow".to_string());
            continue;
        }
        let tx: Vec<&str> = x.trim_start().split(' ').collect();
        let ty: Vec<&str> = y.trim_start().split(' ').collect();
        if tx.len() < 2 || ty.len() < 2 || tx[0] != ty[0] || tx[1] != ty[1] {
            classes.push("structure".to_string());
            continue;
        }
        let kv = |t: &[&str]| -> Vec<(String, String)> {
            t[2..]
                .iter()
                .filter(|s| !s.is_empty())
                .map(|s| match s.find('=') {
                    Some(p) => (s[..p].to_string(), s[p + 1..].to_string()),
                    None => (s.to_string(), String::new()),
                })
                .collect()
        };
        let (ax, ay) = (kv(&tx), kv(&ty));
        for (n, v) in &ax {
            match ay.iter().find(|(m, _)| m == n) {
                None => classes.push(format!("dropped:{}", n)),
                Some((_, w)) if w != v => {
                    let kind = |s: &str| s.split(|c| c == ':' || c == '(').next().unwrap_or("").to_string();
                    classes.push(format!("changed:{}:{}", n, kind(v)))
                }
                _ => {}
            }
        }
        for (n, _) in &ay {
            if !ax.iter().any(|(m, _)| m == n) {
                classes.push(format!("added:{}", n));
            }
        }
        if ax.iter().map(|p| &p.0).collect::<Vec<_>>() != ay.iter().map(|p| &p.0).collect::<Vec<_>>()
            && ax.len() == ay.len()
            && ax.iter().all(|(n, _)| ay.iter().any(|(m, _)| m == n))
        {
            classes.push("attr-order".to_string());
        }
    }
    classes.sort();
    classes.dedup();
    classes.join(",")
}
