// c13.rs — write::LineProgram (src/write/line.rs): scripts of writer calls are run on the real gimli,
// the emitted .debug_line (+ .debug_line_str / .debug_str) is read back with gimli::read and compared with
// the meaning of the script (address = sequence base + offset since the base; every other field verbatim).
use crate::util::*;
use gimli::read;
use gimli::write::{
    Address, DebugLine, DebugLineStr, DebugStr, EndianVec, FileId, FileInfo, LineProgram, LineString,
    LineStringTable, StringTable, Writer,
};
use gimli::{DebugLineOffset, Encoding, EndianSlice, Format, LineEncoding, RunTimeEndian};
use std::panic::{catch_unwind, AssertUnwindSafe};

#[derive(Clone, PartialEq, Eq, Debug)]
struct SStr {
    kind: u8,
    bytes: Vec<u8>,
}
#[derive(Clone, Debug)]
struct SInfo {
    ts: u64,
    size: u64,
    md5: [u8; 16],
    src: Option<SStr>,
}
#[derive(Clone, Debug)]
struct Row {
    ao: u64,
    opi: u64,
    fileh: Option<usize>,
    line: u64,
    col: u64,
    disc: u64,
    stmt: bool,
    bb: bool,
    pe: bool,
    eb: bool,
    isa: u64,
}
#[derive(Clone, Debug)]
enum Op {
    AddDir(SStr),
    AddFile(SStr, usize, Option<SInfo>),
    Begin(Option<(u8, u64)>),
    SetAddr(u8, u64),
    Row(Row),
    End(u64, u64),
    Flags(bool, bool, bool, bool),
}
#[derive(Clone, Debug)]
struct Hdr {
    be: bool,
    fmt64: bool,
    ver: u16,
    asz: u8,
    mil: u8,
    mops: u8,
    dis: bool,
    lb: i8,
    lr: u8,
    uver: u16,
    uasz: u8,
    wd: SStr,
    sd: Option<SStr>,
    sf: SStr,
    sfi: Option<SInfo>,
}

struct Tk<'a> {
    t: &'a [&'a str],
    i: usize,
}
impl<'a> Tk<'a> {
    fn s(&mut self) -> &'a str {
        let x = self.t[self.i];
        self.i += 1;
        x
    }
    fn u(&mut self) -> u64 {
        u(self.s())
    }
    fn i(&mut self) -> i64 {
        i(self.s())
    }
    fn b(&mut self) -> bool {
        self.u() != 0
    }
    fn h(&mut self) -> Vec<u8> {
        hex(self.s())
    }
    fn sstr(&mut self) -> SStr {
        let kind = self.u() as u8;
        let bytes = self.h();
        SStr { kind, bytes }
    }
    fn osstr(&mut self) -> Option<SStr> {
        let s = self.sstr();
        if s.kind == 9 {
            None
        } else {
            Some(s)
        }
    }
    fn info(&mut self) -> Option<SInfo> {
        let present = self.b();
        let ts = self.u();
        let size = self.u();
        let m = self.h();
        let src = self.osstr();
        if !present {
            return None;
        }
        let mut md5 = [0u8; 16];
        for (k, x) in m.iter().take(16).enumerate() {
            md5[k] = *x;
        }
        Some(SInfo { ts, size, md5, src })
    }
    fn hdr(&mut self) -> Hdr {
        Hdr {
            be: self.b(),
            fmt64: self.b(),
            ver: self.u() as u16,
            asz: self.u() as u8,
            mil: self.u() as u8,
            mops: self.u() as u8,
            dis: self.b(),
            lb: self.i() as i8,
            lr: self.u() as u8,
            uver: self.u() as u16,
            uasz: self.u() as u8,
            wd: self.sstr(),
            sd: self.osstr(),
            sf: self.sstr(),
            sfi: self.info(),
        }
    }
    fn ops(&mut self) -> Vec<Op> {
        let n = self.u() as usize;
        let mut v = Vec::with_capacity(n);
        for _ in 0..n {
            let o = match self.u() {
                1 => Op::AddDir(self.sstr()),
                2 => {
                    let s = self.sstr();
                    let d = self.u() as usize;
                    let inf = self.info();
                    Op::AddFile(s, d, inf)
                }
                3 => {
                    let k = self.u() as u8;
                    let a = self.u();
                    Op::Begin(if k == 0 { None } else { Some((k, a)) })
                }
                4 => {
                    let k = self.u() as u8;
                    let a = self.u();
                    Op::SetAddr(k, a)
                }
                5 => {
                    let ao = self.u();
                    let opi = self.u();
                    let fh = self.u() as usize;
                    Op::Row(Row {
                        ao,
                        opi,
                        fileh: if fh == 0 { None } else { Some(fh - 1) },
                        line: self.u(),
                        col: self.u(),
                        disc: self.u(),
                        stmt: self.b(),
                        bb: self.b(),
                        pe: self.b(),
                        eb: self.b(),
                        isa: self.u(),
                    })
                }
                6 => {
                    let off = self.u();
                    let opi = self.u();
                    Op::End(off, opi)
                }
                _ => Op::Flags(self.b(), self.b(), self.b(), self.b()),
            };
            v.push(o);
        }
        v
    }
}

fn endian_of(be: bool) -> RunTimeEndian {
    if be {
        RunTimeEndian::Big
    } else {
        RunTimeEndian::Little
    }
}
fn enc(fmt64: bool, ver: u16, asz: u8) -> Encoding {
    Encoding {
        format: if fmt64 { Format::Dwarf64 } else { Format::Dwarf32 },
        version: ver,
        address_size: asz,
    }
}
fn lenc(h: &Hdr) -> LineEncoding {
    LineEncoding {
        minimum_instruction_length: h.mil,
        maximum_operations_per_instruction: h.mops,
        default_is_stmt: h.dis,
        line_base: h.lb,
        line_range: h.lr,
    }
}
fn addr(k: u8, a: u64) -> Address {
    if k == 2 {
        Address::Symbol { symbol: a as usize, addend: 0 }
    } else {
        Address::Constant(a)
    }
}
fn mk_lstr(s: &SStr, ls: &mut LineStringTable, ss: &mut StringTable) -> LineString {
    match s.kind {
        0 => LineString::String(s.bytes.clone()),
        1 => LineString::StringRef(ss.add(s.bytes.clone())),
        _ => LineString::LineStringRef(ls.add(s.bytes.clone())),
    }
}
fn mk_info(i: &Option<SInfo>, ls: &mut LineStringTable, ss: &mut StringTable) -> Option<FileInfo> {
    i.as_ref().map(|i| {
        let source = i.src.as_ref().map(|s| mk_lstr(s, ls, ss));
        FileInfo { timestamp: i.ts, size: i.size, md5: i.md5, source }
    })
}

enum Out {
    Ok(Vec<u8>, Vec<u8>, Vec<u8>),
    Err(String),
    NewPanic,
    Panic,
}

/// drive the real writer
fn run_gimli(h: &Hdr, ops: &[Op]) -> Out {
    let mut ls = LineStringTable::default();
    let mut ss = StringTable::default();
    let e = enc(h.fmt64, h.ver, h.asz);
    let newr = catch_unwind(AssertUnwindSafe(|| {
        let wd = mk_lstr(&h.wd, &mut ls, &mut ss);
        let sd = h.sd.as_ref().map(|s| mk_lstr(s, &mut ls, &mut ss));
        let sf = mk_lstr(&h.sf, &mut ls, &mut ss);
        let sfi = mk_info(&h.sfi, &mut ls, &mut ss);
        LineProgram::new(e, lenc(h), wd, sd, sf, sfi)
    }));
    let mut program = match newr {
        Ok(p) => p,
        Err(_) => return Out::NewPanic,
    };
    let r = catch_unwind(AssertUnwindSafe(|| {
        let mut dids = vec![program.default_directory()];
        let mut fids: Vec<FileId> = Vec::new();
        for op in ops {
            match op {
                Op::AddDir(s) => {
                    let x = mk_lstr(s, &mut ls, &mut ss);
                    dids.push(program.add_directory(x));
                }
                Op::AddFile(s, d, inf) => {
                    let x = mk_lstr(s, &mut ls, &mut ss);
                    let inf = mk_info(inf, &mut ls, &mut ss);
                    let dir = dids[*d];
                    fids.push(program.add_file(x, dir, inf));
                }
                Op::Begin(a) => program.begin_sequence(a.map(|(k, a)| addr(k, a))),
                Op::SetAddr(k, a) => program.set_address(addr(*k, *a)),
                Op::Row(r) => {
                    let f = r.fileh.map(|hh| fids[hh]);
                    let row = program.row();
                    row.address_offset = r.ao;
                    row.op_index = r.opi;
                    if let Some(f) = f {
                        row.file = f;
                    }
                    row.line = r.line;
                    row.column = r.col;
                    // generate_row is documented to reset these four after every row: they are only
                    // assigned when the script asks for them
                    if r.disc != 0 {
                        row.discriminator = r.disc;
                    }
                    if r.bb {
                        row.basic_block = true;
                    }
                    if r.pe {
                        row.prologue_end = true;
                    }
                    if r.eb {
                        row.epilogue_begin = true;
                    }
                    row.is_statement = r.stmt;
                    row.isa = r.isa;
                    program.generate_row();
                }
                Op::End(off, opi) => {
                    program.row().op_index = *opi;
                    program.end_sequence(*off);
                }
                Op::Flags(a, b, c, d) => {
                    program.file_has_timestamp = *a;
                    program.file_has_size = *b;
                    program.file_has_md5 = *c;
                    program.file_has_source = *d;
                }
            }
        }
        let en = endian_of(h.be);
        let mut dl = DebugLine::from(EndianVec::new(en));
        match program.write(&mut dl, enc(h.fmt64, h.uver, h.uasz), &mut ls, &mut ss) {
            Ok(_) => {}
            Err(e) => return Out::Err(errname(&e)),
        }
        let mut dls = DebugLineStr::from(EndianVec::new(en));
        let mut ds = DebugStr::from(EndianVec::new(en));
        if let Err(e) = ls.write(&mut dls) {
            return Out::Err(errname(&e));
        }
        if let Err(e) = ss.write(&mut ds) {
            return Out::Err(errname(&e));
        }
        Out::Ok(dl.slice().to_vec(), dls.slice().to_vec(), ds.slice().to_vec())
    }));
    match r {
        Ok(o) => o,
        Err(_) => Out::Panic,
    }
}

// ---------------------------------------------------------------- meaning of a script (the oracle)

#[derive(Debug, PartialEq, Eq, Clone)]
struct XRow {
    address: u64,
    op_index: u64,
    end: bool,
    file: u64,
    line: u64,
    col: u64,
    disc: u64,
    stmt: bool,
    bb: bool,
    pe: bool,
    eb: bool,
    isa: u64,
}
#[derive(Debug, PartialEq, Eq, Clone)]
struct XFile {
    path: SStr,
    dir: u64,
    ts: u64,
    size: u64,
    md5: [u8; 16],
    src: Option<SStr>,
}
struct Meaning {
    rows: Vec<XRow>,
    dirs: Vec<SStr>,
    files: Vec<XFile>,
    flags: (bool, bool, bool, bool),
}

fn str_ok(s: &SStr, allow_empty: bool) -> bool {
    !(s.bytes.contains(&0) || (!allow_empty && s.kind == 0 && s.bytes.is_empty()))
}

/// Some(meaning) iff the script stays inside the documented preconditions of the writer API
/// (and inside what a line program can express at all); None = no claim about this script.
fn meaning(h: &Hdr, ops: &[Op]) -> Option<Meaning> {
    if !(2..=5).contains(&h.ver) || ![1u8, 2, 4, 8].contains(&h.asz) || h.uasz != h.asz {
        return None;
    }
    if h.uver < 5 && h.ver >= 5 {
        return None;
    }
    if h.mil == 0 || h.mops == 0 || (h.ver < 4 && h.mops != 1) {
        return None;
    }
    if !(h.lb <= 0 && (h.lb as i32) + (h.lr as i32) > 0) {
        return None;
    }
    let v5 = h.ver >= 5;
    let amax: u64 = if h.asz == 8 { u64::MAX } else { (1u64 << (8 * h.asz as u32)) - 1 };
    let tomb: u64 = amax - 1; // addresses >= min_tombstone are treated as deleted code by readers
    let mil = h.mil as u64;
    let mops = h.mops as u64;
    // tables
    let mut dirs: Vec<SStr> = Vec::new();
    let mut files: Vec<XFile> = Vec::new();
    let add_dir = |dirs: &mut Vec<SStr>, s: &SStr| -> Option<u64> {
        if !str_ok(s, v5 || dirs.is_empty()) {
            return None;
        }
        if let Some(p) = dirs.iter().position(|x| x == s) {
            return Some(p as u64);
        }
        dirs.push(s.clone());
        Some(dirs.len() as u64 - 1)
    };
    let add_file = |files: &mut Vec<XFile>, s: &SStr, dir: u64, inf: &Option<SInfo>| -> Option<u64> {
        if !str_ok(s, v5) {
            return None;
        }
        if let Some(i) = inf {
            if let Some(src) = &i.src {
                if src.bytes.contains(&0) {
                    return None;
                }
            }
        }
        let mk = |i: &SInfo| (i.ts, i.size, i.md5, i.src.clone());
        if let Some(p) = files.iter().position(|x| &x.path == s && x.dir == dir) {
            if let Some(i) = inf {
                let (ts, size, md5, src) = mk(i);
                files[p].ts = ts;
                files[p].size = size;
                files[p].md5 = md5;
                files[p].src = src;
            }
            return Some(p as u64);
        }
        let (ts, size, md5, src) = match inf {
            Some(i) => mk(i),
            None => (0, 0, [0u8; 16], None),
        };
        files.push(XFile { path: s.clone(), dir, ts, size, md5, src });
        Some(files.len() as u64 - 1)
    };
    let wd = add_dir(&mut dirs, &h.wd)?;
    if v5 {
        let sd = match &h.sd {
            Some(s) => add_dir(&mut dirs, s)?,
            None => wd,
        };
        add_file(&mut files, &h.sf, sd, &h.sfi)?;
    } else {
        // source_dir / source_file are not used for version <= 4, but the strings are still created
        if let Some(s) = &h.sd {
            if s.kind != 0 && s.bytes.contains(&0) {
                return None;
            }
        }
        if h.sf.kind != 0 && h.sf.bytes.contains(&0) {
            return None;
        }
        if let Some(i) = &h.sfi {
            if let Some(s) = &i.src {
                if s.kind != 0 && s.bytes.contains(&0) {
                    return None;
                }
            }
        }
    }
    let mut dids: Vec<u64> = vec![0];
    let mut fids: Vec<u64> = Vec::new();
    let mut flags = (false, false, false, false);
    // state machine as the script describes it
    let mut rows = Vec::new();
    let mut in_seq = false;
    let mut base: u64 = 0; // address that offset `base_off` maps to
    let mut base_off: u64 = 0;
    let mut cur_addr: u64 = 0; // the reader's address register
    let mut prev_ao: u64 = 0;
    let mut prev_opi: u64 = 0;
    let mut cur_file: u64 = 1;
    for op in ops {
        match op {
            Op::AddDir(s) => dids.push(add_dir(&mut dirs, s)?),
            Op::AddFile(s, d, inf) => {
                let dir = *dids.get(*d)?;
                fids.push(add_file(&mut files, s, dir, inf)?);
            }
            Op::Flags(a, b, c, d) => flags = (*a, *b, *c, *d),
            Op::Begin(a) => {
                if in_seq {
                    return None;
                }
                in_seq = true;
                if let Some((k, a)) = a {
                    if *k != 1 || *a > amax || *a >= tomb || *a < cur_addr {
                        return None;
                    }
                    base = *a;
                    base_off = prev_ao;
                    cur_addr = *a;
                }
            }
            Op::SetAddr(k, a) => {
                in_seq = true;
                if *k != 1 || *a > amax || *a >= tomb || *a < cur_addr {
                    return None;
                }
                base = *a;
                base_off = prev_ao;
                cur_addr = *a;
                prev_opi = 0; // DW_LNE_set_address resets op_index
            }
            Op::Row(r) => {
                in_seq = true;
                if r.ao < prev_ao || r.ao % mil != 0 || r.opi >= mops {
                    return None;
                }
                if r.ao == prev_ao && r.opi < prev_opi {
                    return None;
                }
                let address = base.checked_add(r.ao - base_off)?;
                if address > amax {
                    return None;
                }
                if let Some(hh) = r.fileh {
                    let idx = *fids.get(hh)?;
                    cur_file = if v5 { idx } else { idx + 1 };
                }
                rows.push(XRow {
                    address,
                    op_index: r.opi,
                    end: false,
                    file: cur_file,
                    line: r.line,
                    col: r.col,
                    disc: r.disc,
                    stmt: r.stmt,
                    bb: r.bb,
                    pe: r.pe,
                    eb: r.eb,
                    isa: r.isa,
                });
                cur_addr = address;
                prev_ao = r.ao;
                prev_opi = r.opi;
            }
            Op::End(off, opi) => {
                if *off < prev_ao || *off % mil != 0 || *opi >= mops {
                    return None;
                }
                if *off == prev_ao && *opi < prev_opi {
                    return None;
                }
                let address = base.checked_add(*off - base_off)?;
                if address > amax {
                    return None;
                }
                rows.push(XRow {
                    address,
                    op_index: *opi,
                    end: true,
                    file: 0,
                    line: 0,
                    col: 0,
                    disc: 0,
                    stmt: false,
                    bb: false,
                    pe: false,
                    eb: false,
                    isa: 0,
                });
                in_seq = false;
                base = 0;
                base_off = 0;
                cur_addr = 0;
                prev_ao = 0;
                prev_opi = 0;
                cur_file = 1;
            }
        }
    }
    // string forms: version <= 4 has inline strings only; version 5 uses one form per table
    if !v5 {
        if dirs.iter().skip(1).any(|d| d.kind != 0) || files.iter().any(|f| f.path.kind != 0) {
            return None;
        }
    } else {
        if dirs.iter().any(|d| d.kind != dirs[0].kind) || files.iter().any(|f| f.path.kind != files[0].path.kind) {
            return None;
        }
        if flags.3 {
            let k = files.iter().find_map(|f| f.src.as_ref().map(|s| s.kind));
            if let Some(k) = k {
                if files.iter().any(|f| f.src.as_ref().map(|s| s.kind != k).unwrap_or(false)) {
                    return None;
                }
            }
        }
    }
    Some(Meaning { rows, dirs, files, flags })
}

fn resolve<'a>(
    v: &read::AttributeValue<EndianSlice<'a, RunTimeEndian>>,
    dls: &read::DebugLineStr<EndianSlice<'a, RunTimeEndian>>,
    ds: &read::DebugStr<EndianSlice<'a, RunTimeEndian>>,
) -> Option<SStr> {
    match v {
        read::AttributeValue::String(s) => Some(SStr { kind: 0, bytes: s.slice().to_vec() }),
        read::AttributeValue::DebugStrRef(o) => ds.get_str(*o).ok().map(|s| SStr { kind: 1, bytes: s.slice().to_vec() }),
        read::AttributeValue::DebugLineStrRef(o) => {
            dls.get_str(*o).ok().map(|s| SStr { kind: 2, bytes: s.slice().to_vec() })
        }
        _ => None,
    }
}

/// read the sections back with gimli::read and compare with the meaning; Err(detail) on a difference
fn readback(h: &Hdr, m: &Meaning, dl: &[u8], dls: &[u8], ds: &[u8]) -> Result<(), String> {
    let en = endian_of(h.be);
    let rdl = read::DebugLine::new(dl, en);
    let rdls = read::DebugLineStr::from(EndianSlice::new(dls, en));
    let rds = read::DebugStr::new(ds, en);
    let program = rdl
        .program(DebugLineOffset(0), h.asz, None, None)
        .map_err(|e| format!("header:{}", errname(&e)))?;
    {
        let hd = program.header();
        let le = hd.line_encoding();
        if hd.version() != h.ver
            || (hd.format() == Format::Dwarf64) != h.fmt64
            || hd.address_size() != h.asz
            || le.minimum_instruction_length != h.mil
            || le.maximum_operations_per_instruction != h.mops
            || le.default_is_stmt != h.dis
            || le.line_base != h.lb
            || le.line_range != h.lr
            || hd.opcode_base() != 13
        {
            return Err("header-fields".into());
        }
        if (hd.unit_length() as u64) + (if h.fmt64 { 12 } else { 4 }) != dl.len() as u64 {
            return Err("unit-length".into());
        }
        let v5 = h.ver >= 5;
        // directories
        let want_dirs: Vec<SStr> = if v5 { m.dirs.clone() } else { m.dirs.iter().skip(1).cloned().collect() };
        let got_dirs: Vec<Option<SStr>> = hd.include_directories().iter().map(|d| resolve(d, &rdls, &rds)).collect();
        if got_dirs.len() != want_dirs.len() || got_dirs.iter().zip(&want_dirs).any(|(g, w)| g.as_ref() != Some(w)) {
            return Err(format!("directories:{:?}", got_dirs.len()));
        }
        // files
        let fs = hd.file_names();
        if fs.len() != m.files.len() {
            return Err(format!("file-count:{}", fs.len()));
        }
        if v5
            && (hd.file_has_timestamp() != m.flags.0
                || hd.file_has_size() != m.flags.1
                || hd.file_has_md5() != m.flags.2
                || hd.file_has_source() != m.flags.3)
        {
            return Err("file-flags".into());
        }
        for (k, (g, w)) in fs.iter().zip(&m.files).enumerate() {
            if resolve(&g.path_name(), &rdls, &rds).as_ref() != Some(&w.path) || g.directory_index() != w.dir {
                return Err(format!("file-path:{}", k));
            }
            // the directory a file refers to must resolve to the directory it was added with
            let dgot = g.directory(hd).and_then(|d| resolve(&d, &rdls, &rds));
            if v5 || w.dir != 0 {
                if dgot.as_ref() != m.dirs.get(w.dir as usize) {
                    return Err(format!("file-dir:{}", k));
                }
            }
            if (!v5 || m.flags.0) && g.timestamp() != w.ts {
                return Err(format!("file-timestamp:{}", k));
            }
            if (!v5 || m.flags.1) && g.size() != w.size {
                return Err(format!("file-size:{}", k));
            }
            if v5 && m.flags.2 && g.md5() != &w.md5 {
                return Err(format!("file-md5:{}", k));
            }
            if v5 && m.flags.3 {
                let got = g.source().and_then(|s| resolve(&s, &rdls, &rds)).map(|s| s.bytes);
                let want = w.src.as_ref().map(|s| s.bytes.clone()).unwrap_or_default();
                if got != Some(want) {
                    return Err(format!("file-source:{}", k));
                }
            }
        }
    }
    // rows
    let mut rows = program.rows();
    let mut k = 0usize;
    loop {
        match rows.next_row() {
            Err(e) => return Err(format!("row{}:{}", k, errname(&e))),
            Ok(None) => break,
            Ok(Some((_, r))) => {
                let w = match m.rows.get(k) {
                    Some(w) => w,
                    None => return Err(format!("extra-row{}", k)),
                };
                let ok = if w.end {
                    r.end_sequence() && r.address() == w.address && r.op_index() == w.op_index
                } else {
                    !r.end_sequence()
                        && r.address() == w.address
                        && r.op_index() == w.op_index
                        && r.file_index() == w.file
                        && r.line().map(|x| x.get()).unwrap_or(0) == w.line
                        && (match r.column() {
                            read::ColumnType::LeftEdge => 0,
                            read::ColumnType::Column(c) => c.get(),
                        }) == w.col
                        && r.discriminator() == w.disc
                        && r.is_stmt() == w.stmt
                        && r.basic_block() == w.bb
                        && r.prologue_end() == w.pe
                        && r.epilogue_begin() == w.eb
                        && r.isa() == w.isa
                };
                if !ok {
                    return Err(format!(
                        "row{}:addr={:#x};op={};line={:?};end={}:want:addr={:#x};op={};line={};end={}",
                        k,
                        r.address(),
                        r.op_index(),
                        r.line(),
                        r.end_sequence(),
                        w.address,
                        w.op_index,
                        w.line,
                        w.end
                    ));
                }
                k += 1;
            }
        }
    }
    if k != m.rows.len() {
        return Err(format!("row-count:{}:want:{}", k, m.rows.len()));
    }
    Ok(())
}

/// offset of the first instruction byte in a .debug_line holding one program
fn program_start(h: &Hdr, dl: &[u8]) -> usize {
    let en = endian_of(h.be);
    let mut p = if h.fmt64 { 12 } else { 4 };
    p += 2;
    if h.ver >= 5 {
        p += 2;
    }
    let w = if h.fmt64 { 8 } else { 4 };
    let mut v: u64 = 0;
    for k in 0..w {
        let b = dl[p + k] as u64;
        if en == RunTimeEndian::Big {
            v = (v << 8) | b;
        } else {
            v |= b << (8 * k);
        }
    }
    p + w + v as usize
}

/// full evaluation of one script: result line. `full` = print all three sections, else instruction bytes only.
fn eval(h: &Hdr, ops: &[Op], mode: u8) -> String {
    let m = meaning(h, ops);
    match run_gimli(h, ops) {
        Out::Ok(dl, dls, ds) => {
            if let Some(m) = &m {
                if let Err(d) = readback(h, m, &dl, &dls, &ds) {
                    return format!("readback-mismatch {}", d);
                }
            }
            match mode {
                0 => format!("ok {} {} {}", tohex(&dl), tohex(&dls), tohex(&ds)),
                1 => format!("ok {}", tohex(&dl[program_start(h, &dl)..])),
                _ => "ok".to_string(),
            }
        }
        Out::Err(e) => {
            if m.is_some() {
                format!("readback-mismatch wellformed-script-rejected:{}", e)
            } else {
                format!("err {}", e)
            }
        }
        Out::NewPanic => {
            if m.is_some() {
                "readback-mismatch wellformed-script-new-panicked".to_string()
            } else {
                "panic".to_string()
            }
        }
        Out::Panic => {
            if m.is_some() {
                "readback-mismatch wellformed-script-panicked".to_string()
            } else {
                "panic".to_string()
            }
        }
    }
}

fn plain_row(ao: u64, opi: u64, line: u64) -> Row {
    Row { ao, opi, fileh: None, line, col: 0, disc: 0, stmt: true, bb: false, pe: false, eb: false, isa: 0 }
}
fn grid_hdr(lb: i8, lr: u8, mil: u8, mops: u8, ver: u16) -> Hdr {
    Hdr {
        be: false,
        fmt64: false,
        ver,
        asz: 8,
        mil,
        mops,
        dis: true,
        lb,
        lr,
        uver: ver,
        uasz: 8,
        wd: SStr { kind: 0, bytes: vec![0x64] },
        sd: None,
        sf: SStr { kind: 0, bytes: vec![0x66] },
        sfi: None,
    }
}
fn grid_ops(mil: u8, mops: u8, ladv: i64, oadv: u64) -> Vec<Op> {
    let ao2 = (oadv / mops as u64) * mil as u64;
    let opi2 = oadv % mops as u64;
    vec![
        Op::Begin(Some((1, 0x1000))),
        Op::Row(plain_row(0, 0, 1000)),
        Op::Row(plain_row(ao2, opi2, (1000 + ladv) as u64)),
        Op::End(ao2 + mil as u64, opi2),
    ]
}

pub fn run(t: &[&str]) -> String {
    match t[0] {
        "c13.grid" => {
            let lb = i(t[1]) as i8;
            let lr = u(t[2]) as u8;
            let mil = u(t[3]) as u8;
            let mops = u(t[4]) as u8;
            let ver = u(t[5]) as u16;
            let h = grid_hdr(lb, lr, mil, mops, ver);
            let ops = grid_ops(mil, mops, i(t[6]), u(t[7]));
            eval(&h, &ops, 1)
        }
        "c13.newpre" | "c13.new" => {
            let h = grid_hdr(i(t[1]) as i8, u(t[2]) as u8, 1, 1, 4);
            match run_gimli(&h, &[]) {
                Out::NewPanic => "new-panic".to_string(),
                Out::Ok(..) => "ok".to_string(),
                Out::Err(e) => format!("err {}", e),
                Out::Panic => "panic".to_string(),
            }
        }
        "c13.prog" | "c13.edge" => {
            let mut tk = Tk { t, i: 1 };
            let h = tk.hdr();
            let ops = tk.ops();
            eval(&h, &ops, 0)
        }
        "c13.known" => {
            let mut tk = Tk { t, i: 2 };
            let h = tk.hdr();
            let ops = tk.ops();
            eval(&h, &ops, 2)
        }
        _ => format!("unknown-stream {}", t[0]),
    }
}
