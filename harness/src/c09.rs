// c09.rs — primitive codecs (leb128.rs, reader.rs, endianity.rs, write/writer.rs).
use crate::util::*;
use gimli::leb128;
use gimli::write::{EndianVec, Writer};
use gimli::{EndianSlice, Format, Reader, RunTimeEndian};

fn rd<'a>(b: &'a [u8], e: RunTimeEndian) -> EndianSlice<'a, RunTimeEndian> {
    EndianSlice::new(b, e)
}

pub fn run(t: &[&str]) -> String {
    match t[0] {
        "c09.uleb" => {
            let b = hex(t[1]);
            let mut r = rd(&b, RunTimeEndian::Little);
            match leb128::read::unsigned(&mut r) {
                Ok(v) => format!("ok {} {}", v, r.len()),
                Err(e) => err(&e),
            }
        }
        "c09.sleb" => {
            let b = hex(t[1]);
            let mut r = rd(&b, RunTimeEndian::Little);
            match leb128::read::signed(&mut r) {
                Ok(v) => format!("ok {} {}", v, r.len()),
                Err(e) => err(&e),
            }
        }
        "c09.uleb32" => {
            let b = hex(t[1]);
            let mut r = rd(&b, RunTimeEndian::Little);
            match r.read_uleb128_u32() {
                Ok(v) => format!("ok {} {}", v, r.len()),
                Err(e) => err(&e),
            }
        }
        "c09.uleb16" => {
            let b = hex(t[1]);
            let mut r = rd(&b, RunTimeEndian::Little);
            match leb128::read::u16(&mut r) {
                Ok(v) => format!("ok {} {}", v, r.len()),
                Err(e) => err(&e),
            }
        }
        "c09.skipleb" => {
            let b = hex(t[1]);
            let mut r = rd(&b, RunTimeEndian::Little);
            match leb128::read::skip(&mut r) {
                Ok(()) => format!("ok {}", r.len()),
                Err(e) => err(&e),
            }
        }
        "c09.wuleb" => {
            let v = u(t[1]);
            let enc = leb128::write::Leb128::unsigned(v);
            let size = leb128::write::uleb128_size(v);
            // Writer path must agree with the Leb128 helper
            let mut w = EndianVec::new(RunTimeEndian::Little);
            w.write_uleb128(v).unwrap();
            if w.slice() != enc.bytes() || enc.len() != enc.bytes().len() {
                return "writer-helper-mismatch".into();
            }
            // spec-level oracle: reading back is the identity and consumes everything
            let mut r = rd(enc.bytes(), RunTimeEndian::Little);
            match leb128::read::unsigned(&mut r) {
                Ok(x) if x == v && r.is_empty() => {}
                other => return format!("readback-mismatch {:?}", other),
            }
            format!("ok {} {}", tohex(enc.bytes()), size)
        }
        "c09.wsleb" => {
            let v = i(t[1]);
            let enc = leb128::write::Leb128::signed(v);
            let size = leb128::write::sleb128_size(v);
            let mut w = EndianVec::new(RunTimeEndian::Little);
            w.write_sleb128(v).unwrap();
            if w.slice() != enc.bytes() || enc.len() != enc.bytes().len() {
                return "writer-helper-mismatch".into();
            }
            let mut r = rd(enc.bytes(), RunTimeEndian::Little);
            match leb128::read::signed(&mut r) {
                Ok(x) if x == v && r.is_empty() => {}
                other => return format!("readback-mismatch {:?}", other),
            }
            format!("ok {} {}", tohex(enc.bytes()), size)
        }
        "c09.fixed" => {
            let kind = t[1];
            let w: usize = t[2].parse().unwrap();
            let e = endian(t[3]);
            let b = hex(t[4]);
            let mut r = rd(&b, e);
            // run-time endianity must agree with the compile-time ones
            let ct: Result<String, gimli::Error> = if t[3] == "1" {
                let mut r2 = EndianSlice::new(&b[..], gimli::BigEndian);
                fixed(kind, w, &mut r2)
            } else {
                let mut r2 = EndianSlice::new(&b[..], gimli::LittleEndian);
                fixed(kind, w, &mut r2)
            };
            let rt = fixed(kind, w, &mut r);
            let a = match rt { Ok(s) => s, Err(e) => err(&e) };
            let c = match ct { Ok(s) => s, Err(e) => err(&e) };
            if a != c {
                return format!("endianity-mismatch rt={} ct={}", a, c);
            }
            a
        }
        "c09.sized" => {
            let kind = t[1];
            let size: u8 = t[2].parse().unwrap();
            let e = endian(t[3]);
            let b = hex(t[4]);
            let mut r = rd(&b, e);
            let res = match kind {
                "addr" => r.read_address(size),
                "soff" => r.read_sized_offset(size).map(|x| x as u64),
                _ => r.read_address_size().map(u64::from),
            };
            match res {
                Ok(v) => format!("ok {} {}", v, r.len()),
                Err(e) => err(&e),
            }
        }
        "c09.ilen" => {
            let e = endian(t[1]);
            let b = hex(t[2]);
            let mut r = rd(&b, e);
            match r.read_initial_length() {
                Ok((v, f)) => format!(
                    "ok {} {} {}",
                    v,
                    if f == Format::Dwarf64 { 64 } else { 32 },
                    r.len()
                ),
                Err(e) => err(&e),
            }
        }
        "c09.wdata" => {
            let kind = t[1];
            let e = endian(t[2]);
            let size: u8 = t[4].parse().unwrap();
            let mut w = EndianVec::new(e);
            let res = match kind {
                "u" => w.write_udata(u(t[3]), size),
                "s" => w.write_sdata(i(t[3]), size),
                _ => {
                    let f = if size == 8 { Format::Dwarf64 } else { Format::Dwarf32 };
                    w.write_initial_length(f)
                        .and_then(|off| w.write_initial_length_at(off, u(t[3]), f))
                }
            };
            match res {
                Ok(()) => {
                    // spec-level oracle: what was written reads back as the same value
                    let bytes = w.slice().to_vec();
                    let mut r = rd(&bytes, e);
                    let back_ok = match kind {
                        "u" => r.read_uint(size as usize).map(|x| x == u(t[3])).unwrap_or(false),
                        "s" => {
                            let x = r.read_uint(size as usize).unwrap_or(0);
                            let sh = 64 - 8 * (size as u32);
                            (((x << sh) as i64) >> sh) == i(t[3])
                        }
                        _ => match r.read_initial_length() {
                            Ok((v, f)) => v as u64 == u(t[3]) && (f == Format::Dwarf64) == (size == 8),
                            Err(_) => false,
                        },
                    };
                    if !back_ok || !r.is_empty() {
                        return format!("readback-mismatch {}", tohex(&bytes));
                    }
                    format!("ok {}", tohex(&bytes))
                }
                Err(e) => err(&e),
            }
        }
        _ => format!("unknown-stream {}", t[0]),
    }
}

fn fixed<R: Reader>(kind: &str, w: usize, r: &mut R) -> Result<String, gimli::Error>
where
    R::Offset: core::fmt::Display,
{
    let s = match (kind, w) {
        ("u", 1) => format!("ok {} {}", r.read_u8()?, r.len()),
        ("u", 2) => format!("ok {} {}", r.read_u16()?, r.len()),
        ("u", 4) => format!("ok {} {}", r.read_u32()?, r.len()),
        ("u", 8) => format!("ok {} {}", r.read_u64()?, r.len()),
        ("u", 16) => format!("ok {} {}", r.read_u128()?, r.len()),
        ("i", 1) => format!("ok {} {}", r.read_i8()?, r.len()),
        ("i", 2) => format!("ok {} {}", r.read_i16()?, r.len()),
        ("i", 4) => format!("ok {} {}", r.read_i32()?, r.len()),
        ("i", 8) => format!("ok {} {}", r.read_i64()?, r.len()),
        ("n", n) => format!("ok {} {}", r.read_uint(n)?, r.len()),
        _ => "bad-case".to_string(),
    };
    Ok(s)
}
