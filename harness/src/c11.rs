// c11.rs — written units read back as the same forest with every reference intact
// (write/unit.rs, abbrev.rs, str.rs, dwarf.rs, section.rs, writer.rs).
//
// A case is an API script (tokens, see `parse`) that is interpreted against gimli::write. After the final
// write the harness
//   (a) prints the produced .debug_info/.debug_abbrev/.debug_str/.debug_line_str bytes (stream c11.units:
//       compared with the bytes of the Coq model),
//   (b) reads the sections back with gimli's reader and compares crate::dump::dump_dwarf with the dump
//       predicted from the script alone (`readback-mismatch <classes>` when they differ), checks that the
//       written order is the documented base-types-first order and that every DW_AT_sibling points just
//       behind the subtree of its entry,
//   (c) prints `err <Variant>` when gimli refuses the request.
// Stream c11.conv additionally reads the written sections, converts them (write::Dwarf::convert) and writes the
// units one at a time through ConvertUnit::write (all / none / a subset chosen by a mask) before the final
// Dwarf::write; the oracle (b) is applied to both outputs (`stage1-…` / `incremental-readback-mismatch …`).
use crate::dump::{self, diff_classes};
use crate::util::*;
use gimli::write::{
    self, Address, AttributeValue as WV, DebugInfoRef, Dwarf, DwarfUnit, EndianVec, Expression, LineProgram,
    LineString, Location, LocationList, Range, RangeList, Sections, Unit, UnitEntryId, UnitId, Writer,
};
use gimli::{Encoding, EndianSlice, Format, LineEncoding, RunTimeEndian, SectionId};
use std::collections::HashMap;

// ------------------------------------------------------------------ script

#[derive(Clone, Debug)]
enum Val {
    Addr(u64),
    AddrSym(usize, i64),
    Block(Vec<u8>),
    D1(u8),
    D2(u16),
    D4(u32),
    D8(u64),
    D16(u128),
    Sdata(i64),
    Udata(u64),
    Ic(i64),
    Expr(Vec<u8>),
    Flag(bool),
    FlagPresent,
    UnitRef(usize, usize),        // (unit that issued the id, index)
    InfoRef(usize, usize, usize), // (UnitId, unit that issued the entry id, index)
    InfoSym(usize),
    InfoSup(usize),
    LineProg,
    Loc(usize),
    Macinfo(usize),
    Macro(usize),
    Rng(usize),
    Types(u64),
    Str(usize),
    StrSup(usize),
    LStr(usize),
    String(Vec<u8>),
    Konst(usize, u64), // 0 Encoding 1 DecimalSign 2 Endianity 3 Accessibility 4 Visibility 5 Virtuality
    // 6 Language 7 AddressClass 8 IdentifierCase 9 CallingConvention 10 Inline 11 Ordering
    File(Option<usize>),
    // an expression built through write::Expression with one reference to a DIE of any unit:
    // kind 0 DW_OP_call_ref, 1 DW_OP_implicit_pointer, 2 DW_OP_GNU_variable_value; (kind, unit, entry index)
    ExprRef(usize, usize, usize),
}

/// the expression of a location list entry: raw bytes or one reference operation (see Val::ExprRef)
#[derive(Clone, Debug)]
enum XD {
    Raw(Vec<u8>),
    Ref(usize, usize, usize),
}

#[derive(Clone, Debug)]
enum Op {
    // version, format64, address size, line program: kind (0 none, 1 present), version, format64, address size, files
    NewUnit { enc: Encoding, lp: Option<(Encoding, usize)> },
    Str(Vec<u8>),
    LStr(Vec<u8>),
    Rng { u: usize, base: u64, pairs: Vec<(u64, u64)> },
    Loc { u: usize, base: u64, pairs: Vec<(u64, u64, XD)> },
    Add { u: usize, parent: usize, tag: u16 },
    Reserve { u: usize },
    AddReserved { u: usize, child: usize, parent: usize, tag: u16 },
    Set { u: usize, e: usize, name: u16, v: Val },
    Delete { u: usize, e: usize, name: u16 },
    Sibling { u: usize, e: usize, on: bool },
    DeleteChild { u: usize, parent: usize, child: usize },
    Write,
    Note,
}

struct Toks<'a> {
    t: &'a [&'a str],
    i: usize,
}
impl<'a> Toks<'a> {
    fn next(&mut self) -> Result<&'a str, String> {
        let x = self.t.get(self.i).ok_or_else(|| "bad-script eof".to_string())?;
        self.i += 1;
        Ok(x)
    }
    fn us(&mut self) -> Result<usize, String> {
        self.next()?.parse::<usize>().map_err(|_| "bad-script usize".to_string())
    }
    fn u64(&mut self) -> Result<u64, String> {
        self.next()?.parse::<u64>().map_err(|_| "bad-script u64".to_string())
    }
    fn i64(&mut self) -> Result<i64, String> {
        self.next()?.parse::<i64>().map_err(|_| "bad-script i64".to_string())
    }
    fn u128(&mut self) -> Result<u128, String> {
        self.next()?.parse::<u128>().map_err(|_| "bad-script u128".to_string())
    }
    fn hex(&mut self) -> Result<Vec<u8>, String> {
        Ok(hex(self.next()?))
    }
    fn enc(&mut self) -> Result<Encoding, String> {
        let version = self.u64()? as u16;
        let format = if self.u64()? == 1 { Format::Dwarf64 } else { Format::Dwarf32 };
        let address_size = self.u64()? as u8;
        Ok(Encoding { version, format, address_size })
    }
}

fn parse_val(t: &mut Toks) -> Result<Val, String> {
    let k = t.next()?;
    Ok(match k {
        "addr" => Val::Addr(t.u64()?),
        "asym" => Val::AddrSym(t.us()?, t.i64()?),
        "blk" => Val::Block(t.hex()?),
        "d1" => Val::D1(t.u64()? as u8),
        "d2" => Val::D2(t.u64()? as u16),
        "d4" => Val::D4(t.u64()? as u32),
        "d8" => Val::D8(t.u64()?),
        "d16" => Val::D16(t.u128()?),
        "sd" => Val::Sdata(t.i64()?),
        "ud" => Val::Udata(t.u64()?),
        "ic" => Val::Ic(t.i64()?),
        "ex" => Val::Expr(t.hex()?),
        "fl" => Val::Flag(t.u64()? != 0),
        "fp" => Val::FlagPresent,
        "ur" => Val::UnitRef(t.us()?, t.us()?),
        "ir" => Val::InfoRef(t.us()?, t.us()?, t.us()?),
        "isym" => Val::InfoSym(t.us()?),
        "irs" => Val::InfoSup(t.us()?),
        "lp" => Val::LineProg,
        "ll" => Val::Loc(t.us()?),
        "mi" => Val::Macinfo(t.us()?),
        "ma" => Val::Macro(t.us()?),
        "rl" => Val::Rng(t.us()?),
        "ty" => Val::Types(t.u64()?),
        "st" => Val::Str(t.us()?),
        "ss" => Val::StrSup(t.us()?),
        "ls" => Val::LStr(t.us()?),
        "str" => Val::String(t.hex()?),
        "k" => Val::Konst(t.us()?, t.u64()?),
        "xr" => Val::ExprRef(t.us()?, t.us()?, t.us()?),
        "fi" => {
            let x = t.i64()?;
            Val::File(if x < 0 { None } else { Some(x as usize) })
        }
        _ => return Err(format!("bad-script value-kind {}", k)),
    })
}

fn parse(t: &[&str]) -> Result<Vec<Op>, String> {
    let mut t = Toks { t, i: 0 };
    let mut ops = Vec::new();
    while t.i < t.t.len() {
        let k = t.next()?;
        let op = match k {
            "U" => {
                let enc = t.enc()?;
                let kind = t.u64()?;
                let lp = if kind == 0 {
                    None
                } else {
                    let e = t.enc()?;
                    Some((e, t.us()?))
                };
                Op::NewUnit { enc, lp }
            }
            "S" => Op::Str(t.hex()?),
            "L" => Op::LStr(t.hex()?),
            "R" => {
                let u = t.us()?;
                let base = t.u64()?;
                let n = t.us()?;
                let mut pairs = Vec::new();
                for _ in 0..n {
                    pairs.push((t.u64()?, t.u64()?));
                }
                Op::Rng { u, base, pairs }
            }
            "O" => {
                let u = t.us()?;
                let base = t.u64()?;
                let n = t.us()?;
                let mut pairs = Vec::new();
                for _ in 0..n {
                    pairs.push((t.u64()?, t.u64()?, XD::Raw(t.hex()?)));
                }
                Op::Loc { u, base, pairs }
            }
            "P" => {
                // location list whose expressions are single reference operations: (begin end kind unit entry)*
                let u = t.us()?;
                let base = t.u64()?;
                let n = t.us()?;
                let mut pairs = Vec::new();
                for _ in 0..n {
                    pairs.push((t.u64()?, t.u64()?, XD::Ref(t.us()?, t.us()?, t.us()?)));
                }
                Op::Loc { u, base, pairs }
            }
            "e" => Op::Add { u: t.us()?, parent: t.us()?, tag: t.u64()? as u16 },
            "r" => Op::Reserve { u: t.us()? },
            "a" => Op::AddReserved { u: t.us()?, child: t.us()?, parent: t.us()?, tag: t.u64()? as u16 },
            "s" => Op::Set { u: t.us()?, e: t.us()?, name: t.u64()? as u16, v: parse_val(&mut t)? },
            "d" => Op::Delete { u: t.us()?, e: t.us()?, name: t.u64()? as u16 },
            "b" => Op::Sibling { u: t.us()?, e: t.us()?, on: t.u64()? != 0 },
            "x" => Op::DeleteChild { u: t.us()?, parent: t.us()?, child: t.us()? },
            "W" => Op::Write,
            "N" => {
                t.next()?;
                Op::Note
            }
            _ => return Err(format!("bad-script op {}", k)),
        };
        ops.push(op);
    }
    Ok(ops)
}

// ------------------------------------------------------------------ intent (what the script means)

#[derive(Clone, Default)]
struct IEntry {
    tag: u16,
    sibling: bool,
    attrs: Vec<(u16, Val)>,
    children: Vec<usize>,
}

#[derive(Clone)]
struct IUnit {
    enc: Encoding,
    lp: Option<(Encoding, usize)>,
    entries: Vec<IEntry>, // indexed by id index; reserved-but-unadded ones have tag 0
    ranges: Vec<(u64, Vec<(u64, u64)>)>,           // by call number
    locs: Vec<(u64, Vec<(u64, u64, XD)>)>,        // by call number
}

#[derive(Clone)]
struct Intent {
    units: Vec<IUnit>,
    strs: Vec<Vec<u8>>,  // by call number
    lstrs: Vec<Vec<u8>>, // by call number
}

fn file_names(lp: &(Encoding, usize)) -> Vec<Vec<u8>> {
    // files of the unit's line program in FileId order
    let mut v = Vec::new();
    if lp.0.version >= 5 {
        v.push(b"f".to_vec());
    }
    for k in 0..lp.1 {
        v.push(format!("file{}", k).into_bytes());
    }
    v
}

impl IUnit {
    fn line_in_use(&self) -> bool {
        // the generated programs have no rows: in use iff some entry (reachable or not) has FileIndex(Some)
        self.lp.is_some()
            && self.entries.iter().any(|e| e.attrs.iter().any(|(_, v)| matches!(v, Val::File(Some(_)))))
    }
    /// written order: preorder from the root with base types moved first among the root's children
    fn order(&self, normalise: bool) -> Vec<(usize, usize)> {
        let mut out = Vec::new();
        fn go(u: &IUnit, i: usize, depth: usize, normalise: bool, out: &mut Vec<(usize, usize)>) {
            out.push((i, depth));
            let ch = &u.entries[i].children;
            if depth == 0 && normalise {
                for &c in ch.iter().filter(|&&c| u.entries[c].tag == 0x24) {
                    go(u, c, depth + 1, normalise, out);
                }
                for &c in ch.iter().filter(|&&c| u.entries[c].tag != 0x24) {
                    go(u, c, depth + 1, normalise, out);
                }
            } else {
                for &c in ch {
                    go(u, c, depth + 1, normalise, out);
                }
            }
        }
        go(self, 0, 0, normalise, &mut out);
        out
    }
}

// ------------------------------------------------------------------ interpretation against gimli::write

enum Holder {
    D(Dwarf),
    U(DwarfUnit),
}

struct Interp {
    h: Holder,
    endian: RunTimeEndian,
    unit_ids: Vec<UnitId>,
    entry_ids: Vec<Vec<UnitEntryId>>,
    str_ids: Vec<write::StringId>,
    lstr_ids: Vec<write::LineStringId>,
    rng_ids: Vec<Vec<write::RangeListId>>,
    loc_ids: Vec<Vec<write::LocationListId>>,
    file_ids: Vec<Vec<write::FileId>>,
    sections: Sections<EndianVec<RunTimeEndian>>,
}

fn ref_byte_offset(i: usize) -> i64 {
    (i as i64) * 5 - 3
}

fn mk_line_program(lp: &(Encoding, usize)) -> (LineProgram, Vec<write::FileId>) {
    let mut p = LineProgram::new(
        lp.0,
        LineEncoding::default(),
        LineString::String(b"d".to_vec()),
        None,
        LineString::String(b"f".to_vec()),
        None,
    );
    let dir = p.default_directory();
    let mut ids = Vec::new();
    if lp.0.version >= 5 {
        ids.push(p.add_file(LineString::String(b"f".to_vec()), dir, None));
    }
    for k in 0..lp.1 {
        ids.push(p.add_file(LineString::String(format!("file{}", k).into_bytes()), dir, None));
    }
    (p, ids)
}

impl Interp {
    fn unit_mut(&mut self, u: usize) -> Result<&mut Unit, String> {
        match &mut self.h {
            Holder::D(d) => {
                let id = *self.unit_ids.get(u).ok_or("bad-script unit")?;
                Ok(d.units.get_mut(id))
            }
            Holder::U(du) => {
                if u != 0 {
                    return Err("bad-script unit".into());
                }
                Ok(&mut du.unit)
            }
        }
    }
    fn eid(&self, u: usize, i: usize) -> Result<UnitEntryId, String> {
        self.entry_ids.get(u).and_then(|v| v.get(i)).copied().ok_or_else(|| "bad-script entry-id".to_string())
    }
    fn value(&self, u: usize, v: &Val) -> Result<WV, String> {
        Ok(match v {
            Val::Addr(a) => WV::Address(Address::Constant(*a)),
            Val::AddrSym(s, a) => WV::Address(Address::Symbol { symbol: *s, addend: *a }),
            Val::Block(b) => WV::Block(b.clone()),
            Val::D1(x) => WV::Data1(*x),
            Val::D2(x) => WV::Data2(*x),
            Val::D4(x) => WV::Data4(*x),
            Val::D8(x) => WV::Data8(*x),
            Val::D16(x) => WV::Data16(*x),
            Val::Sdata(x) => WV::Sdata(*x),
            Val::Udata(x) => WV::Udata(*x),
            Val::Ic(x) => WV::ImplicitConst(*x),
            Val::Expr(b) => WV::Exprloc(Expression::raw(b.clone())),
            Val::Flag(b) => WV::Flag(*b),
            Val::FlagPresent => WV::FlagPresent,
            Val::UnitRef(iu, i) => WV::UnitRef(self.eid(*iu, *i)?),
            Val::InfoRef(tu, eu, i) => {
                let uid = *self.unit_ids.get(*tu).ok_or("bad-script unit-id")?;
                WV::DebugInfoRef(DebugInfoRef::Entry(uid, self.eid(*eu, *i)?))
            }
            Val::InfoSym(s) => WV::DebugInfoRef(DebugInfoRef::Symbol(*s)),
            Val::InfoSup(x) => WV::DebugInfoRefSup(gimli::DebugInfoOffset(*x)),
            Val::LineProg => WV::LineProgramRef,
            Val::Loc(k) => WV::LocationListRef(*self.loc_ids[u].get(*k).ok_or("bad-script loc-id")?),
            Val::Macinfo(x) => WV::DebugMacinfoRef(gimli::DebugMacinfoOffset(*x)),
            Val::Macro(x) => WV::DebugMacroRef(gimli::DebugMacroOffset(*x)),
            Val::Rng(k) => WV::RangeListRef(*self.rng_ids[u].get(*k).ok_or("bad-script rng-id")?),
            Val::Types(x) => WV::DebugTypesRef(gimli::DebugTypeSignature(*x)),
            Val::Str(k) => WV::StringRef(*self.str_ids.get(*k).ok_or("bad-script str-id")?),
            Val::StrSup(x) => WV::DebugStrRefSup(gimli::DebugStrOffset(*x)),
            Val::LStr(k) => WV::LineStringRef(*self.lstr_ids.get(*k).ok_or("bad-script lstr-id")?),
            Val::String(b) => WV::String(b.clone()),
            Val::Konst(kind, x) => match kind {
                0 => WV::Encoding(gimli::DwAte(*x as u8)),
                1 => WV::DecimalSign(gimli::DwDs(*x as u8)),
                2 => WV::Endianity(gimli::DwEnd(*x as u8)),
                3 => WV::Accessibility(gimli::DwAccess(*x as u8)),
                4 => WV::Visibility(gimli::DwVis(*x as u8)),
                5 => WV::Virtuality(gimli::DwVirtuality(*x as u8)),
                6 => WV::Language(gimli::DwLang(*x as u16)),
                7 => WV::AddressClass(gimli::DwAddr(*x)),
                8 => WV::IdentifierCase(gimli::DwId(*x as u8)),
                9 => WV::CallingConvention(gimli::DwCc(*x as u8)),
                10 => WV::Inline(gimli::DwInl(*x as u8)),
                _ => WV::Ordering(gimli::DwOrd(*x as u8)),
            },
            Val::File(None) => WV::FileIndex(None),
            Val::File(Some(k)) => WV::FileIndex(Some(*self.file_ids[u].get(*k).ok_or("bad-script file-id")?)),
            Val::ExprRef(kind, tu, i) => WV::Exprloc(self.ref_expr(*kind, *tu, *i)?),
        })
    }

    fn ref_expr(&self, kind: usize, tu: usize, i: usize) -> Result<Expression, String> {
        let uid = *self.unit_ids.get(tu).ok_or("bad-script unit-id")?;
        let r = DebugInfoRef::Entry(uid, self.eid(tu, i)?);
        let mut e = Expression::new();
        match kind {
            0 => e.op_call_ref(r),
            1 => e.op_implicit_pointer(r, ref_byte_offset(i)),
            _ => e.op_variable_value(r),
        }
        Ok(e)
    }

    fn write_units(&mut self) -> Result<(), write::Error> {
        match &mut self.h {
            Holder::D(d) => d.units.write(&mut self.sections, &mut d.line_strings, &mut d.strings),
            Holder::U(_) => Ok(()),
        }
    }

    fn finish(&mut self, mode: usize) -> Result<(), write::Error> {
        match &mut self.h {
            Holder::D(d) => {
                if mode == 0 {
                    d.write(&mut self.sections)
                } else {
                    d.units.write(&mut self.sections, &mut d.line_strings, &mut d.strings)?;
                    d.line_strings.write(&mut self.sections.debug_line_str)?;
                    d.strings.write(&mut self.sections.debug_str)
                }
            }
            Holder::U(du) => du.write(&mut self.sections),
        }
    }
}

/// run the script; Ok(intent) after a successful final write
fn interpret(ops: &[Op], mode: usize, endian: RunTimeEndian) -> Result<Result<(Intent, Interp), write::Error>, String> {
    let mut it = Interp {
        h: if mode == 2 {
            // replaced at the (single) NewUnit
            Holder::D(Dwarf::new())
        } else {
            Holder::D(Dwarf::new())
        },
        endian,
        unit_ids: Vec::new(),
        entry_ids: Vec::new(),
        str_ids: Vec::new(),
        lstr_ids: Vec::new(),
        rng_ids: Vec::new(),
        loc_ids: Vec::new(),
        file_ids: Vec::new(),
        sections: Sections::new(EndianVec::new(endian)),
    };
    let mut intent = Intent { units: Vec::new(), strs: Vec::new(), lstrs: Vec::new() };
    for op in ops {
        match op {
            Op::NewUnit { enc, lp } => {
                let (program, fids) = match lp {
                    None => (LineProgram::none(), Vec::new()),
                    Some(l) => mk_line_program(l),
                };
                if mode == 2 {
                    if !intent.units.is_empty() {
                        return Err("bad-script one-unit-only".into());
                    }
                    let mut du = DwarfUnit::new(*enc);
                    du.unit.line_program = program;
                    let root = du.unit.root();
                    it.h = Holder::U(du);
                    it.entry_ids.push(vec![root]);
                } else {
                    let unit = Unit::new(*enc, program);
                    let root = unit.root();
                    if let Holder::D(d) = &mut it.h {
                        it.unit_ids.push(d.units.add(unit));
                    }
                    it.entry_ids.push(vec![root]);
                }
                it.file_ids.push(fids);
                it.rng_ids.push(Vec::new());
                it.loc_ids.push(Vec::new());
                intent.units.push(IUnit {
                    enc: *enc,
                    lp: *lp,
                    entries: vec![IEntry { tag: 0x11, ..Default::default() }],
                    ranges: Vec::new(),
                    locs: Vec::new(),
                });
            }
            Op::Str(b) => {
                let id = match &mut it.h {
                    Holder::D(d) => d.strings.add(b.clone()),
                    Holder::U(du) => du.strings.add(b.clone()),
                };
                it.str_ids.push(id);
                intent.strs.push(b.clone());
            }
            Op::LStr(b) => {
                let id = match &mut it.h {
                    Holder::D(d) => d.line_strings.add(b.clone()),
                    Holder::U(du) => du.line_strings.add(b.clone()),
                };
                it.lstr_ids.push(id);
                intent.lstrs.push(b.clone());
            }
            Op::Rng { u, base, pairs } => {
                let mut l = vec![Range::BaseAddress { address: Address::Constant(*base) }];
                for (b, e) in pairs {
                    l.push(Range::OffsetPair { begin: *b, end: *e });
                }
                let id = it.unit_mut(*u)?.ranges.add(RangeList(l));
                it.rng_ids[*u].push(id);
                intent.units[*u].ranges.push((*base, pairs.clone()));
            }
            Op::Loc { u, base, pairs } => {
                let mut l = vec![Location::BaseAddress { address: Address::Constant(*base) }];
                for (b, e, x) in pairs {
                    let data = match x {
                        XD::Raw(x) => Expression::raw(x.clone()),
                        XD::Ref(kind, tu, i) => it.ref_expr(*kind, *tu, *i)?,
                    };
                    l.push(Location::OffsetPair { begin: *b, end: *e, data });
                }
                let id = it.unit_mut(*u)?.locations.add(LocationList(l));
                it.loc_ids[*u].push(id);
                intent.units[*u].locs.push((*base, pairs.clone()));
            }
            Op::Add { u, parent, tag } => {
                let p = it.eid(*u, *parent)?;
                let id = it.unit_mut(*u)?.add(p, gimli::DwTag(*tag));
                it.entry_ids[*u].push(id);
                let iu = &mut intent.units[*u];
                let n = iu.entries.len();
                iu.entries.push(IEntry { tag: *tag, ..Default::default() });
                iu.entries[*parent].children.push(n);
            }
            Op::Reserve { u } => {
                let id = it.unit_mut(*u)?.reserve();
                it.entry_ids[*u].push(id);
                intent.units[*u].entries.push(IEntry::default());
            }
            Op::AddReserved { u, child, parent, tag } => {
                let c = it.eid(*u, *child)?;
                let p = it.eid(*u, *parent)?;
                it.unit_mut(*u)?.add_reserved(c, p, gimli::DwTag(*tag));
                let iu = &mut intent.units[*u];
                iu.entries[*child].tag = *tag;
                iu.entries[*parent].children.push(*child);
            }
            Op::Set { u, e, name, v } => {
                let id = it.eid(*u, *e)?;
                let wv = it.value(*u, v)?;
                it.unit_mut(*u)?.get_mut(id).set(gimli::DwAt(*name), wv);
                let attrs = &mut intent.units[*u].entries[*e].attrs;
                if let Some(a) = attrs.iter_mut().find(|a| a.0 == *name) {
                    a.1 = v.clone();
                } else {
                    attrs.push((*name, v.clone()));
                }
            }
            Op::Delete { u, e, name } => {
                let id = it.eid(*u, *e)?;
                it.unit_mut(*u)?.get_mut(id).delete(gimli::DwAt(*name));
                intent.units[*u].entries[*e].attrs.retain(|a| a.0 != *name);
            }
            Op::Sibling { u, e, on } => {
                let id = it.eid(*u, *e)?;
                it.unit_mut(*u)?.get_mut(id).set_sibling(*on);
                intent.units[*u].entries[*e].sibling = *on;
            }
            Op::DeleteChild { u, parent, child } => {
                let p = it.eid(*u, *parent)?;
                let c = it.eid(*u, *child)?;
                it.unit_mut(*u)?.get_mut(p).delete_child(c);
                intent.units[*u].entries[*parent].children.retain(|x| x != child);
            }
            Op::Write => {
                if let Err(x) = it.write_units() {
                    return Ok(Err(x));
                }
            }
            Op::Note => {}
        }
    }
    match it.finish(mode) {
        Ok(()) => Ok(Ok((intent, it))),
        Err(x) => Ok(Err(x)),
    }
}

// ------------------------------------------------------------------ predicted dump

type Rd<'a> = EndianSlice<'a, RunTimeEndian>;

fn expr_text(bytes: &[u8], enc: Encoding, endian: RunTimeEndian) -> String {
    let e = gimli::Expression(EndianSlice::new(bytes, endian));
    match dump::dump_expr::<Rd>(&e, enc, None, None, 0, None) {
        Ok(s) => s,
        Err(x) => format!("!{}", x),
    }
}

fn konst_text(kind: usize, x: u64) -> String {
    type AV<'a> = gimli::AttributeValue<Rd<'a>>;
    let v: AV = match kind {
        0 => AV::Encoding(gimli::DwAte(x as u8)),
        1 => AV::DecimalSign(gimli::DwDs(x as u8)),
        2 => AV::Endianity(gimli::DwEnd(x as u8)),
        3 => AV::Accessibility(gimli::DwAccess(x as u8)),
        4 => AV::Visibility(gimli::DwVis(x as u8)),
        5 => AV::Virtuality(gimli::DwVirtuality(x as u8)),
        6 => AV::Language(gimli::DwLang(x as u16)),
        7 => AV::AddressClass(gimli::DwAddr(x)),
        8 => AV::IdentifierCase(gimli::DwId(x as u8)),
        9 => AV::CallingConvention(gimli::DwCc(x as u8)),
        10 => AV::Inline(gimli::DwInl(x as u8)),
        _ => AV::Ordering(gimli::DwOrd(x as u8)),
    };
    format!("{:?}", v).replace(' ', "")
}

/// (unit, entry index) -> "@u:i" with i = position in the normalised preorder; None = not in the tree
fn ref_expr_text(intent: &Intent, pos: &Vec<HashMap<usize, usize>>, kind: usize, tu: usize, i: usize) -> String {
    let r = ref_text(intent, pos, tu, i);
    match kind {
        0 => format!("Call({})", r),
        1 => format!("ImplicitPointer({},{})", r, ref_byte_offset(i)),
        _ => format!("VariableValue({})", r),
    }
}

fn ref_text(intent: &Intent, pos: &Vec<HashMap<usize, usize>>, u: usize, i: usize) -> String {
    match pos.get(u).and_then(|m| m.get(&i)) {
        Some(k) => format!("@{}:{}", u, k),
        None => "@unreachable".to_string(),
    }
}

/// `crossver`: predict what the FileIndex defect repaired by c92c4f4 produced instead (raw index computed from the unit's
/// version while the line program uses the 1-based numbering of DWARF <= 4) — only used to classify a mismatch.
fn predict(intent: &Intent, endian: RunTimeEndian, crossver: bool) -> Vec<String> {
    type AV<'a> = gimli::AttributeValue<Rd<'a>>;
    let orders: Vec<Vec<(usize, usize)>> = intent.units.iter().map(|u| u.order(true)).collect();
    let pos: Vec<HashMap<usize, usize>> =
        orders.iter().map(|o| o.iter().enumerate().map(|(k, (i, _))| (*i, k)).collect()).collect();
    let mut out = Vec::new();
    for (ui, u) in intent.units.iter().enumerate() {
        out.push(format!("unit {} v{} {:?} asz{} type=Compilation", ui, u.enc.version, u.enc.format, u.enc.address_size));
        let in_use = u.line_in_use();
        let files = u.lp.as_ref().map(file_names).unwrap_or_default();
        for &(i, depth) in &orders[ui] {
            let en = &u.entries[i];
            let mut attrs: Vec<(u16, Val)> = en.attrs.clone();
            if i == 0 {
                if in_use {
                    if let Some(a) = attrs.iter_mut().find(|a| a.0 == 0x10) {
                        a.1 = Val::LineProg;
                    } else {
                        attrs.push((0x10, Val::LineProg));
                    }
                } else {
                    attrs.retain(|a| a.0 != 0x10);
                }
            }
            let mut texts = Vec::new();
            for (name, v) in &attrs {
                let t = match v {
                    Val::Addr(a) => format!("addr:{:#x}", a),
                    Val::AddrSym(..) => "unencodable".to_string(),
                    Val::Block(b) => format!("block:{}", dump::hex(b)),
                    Val::D1(x) => format!("{:?}", AV::Data1(*x)),
                    Val::D2(x) => format!("{:?}", AV::Data2(*x)),
                    Val::D4(x) => format!("{:?}", AV::Data4(*x)),
                    Val::D8(x) => format!("{:?}", AV::Data8(*x)),
                    Val::D16(x) => format!("{:?}", AV::Data16(*x)),
                    Val::Sdata(x) | Val::Ic(x) => format!("{:?}", AV::Sdata(*x)),
                    Val::Udata(x) => format!("{:?}", AV::Udata(*x)),
                    Val::Expr(b) => format!("expr:{}", expr_text(b, u.enc, endian)),
                    Val::Flag(b) => format!("flag:{}", *b as u8),
                    Val::FlagPresent => "flag:1".to_string(),
                    Val::UnitRef(iu, k) => {
                        // the intended target is entry k of the unit that issued the id; a reference
                        // that leaves the unit cannot be expressed by a unit-relative form
                        if *iu == ui { format!("ref:{}", ref_text(intent, &pos, ui, *k)) } else { "ref:@foreign".to_string() }
                    }
                    Val::InfoRef(tu, eu, k) => {
                        if tu == eu { format!("ref:{}", ref_text(intent, &pos, *tu, *k)) } else { "ref:@foreign".to_string() }
                    }
                    Val::InfoSym(_) => "unencodable".to_string(),
                    Val::InfoSup(x) => format!("{:?}", AV::DebugInfoRefSup(gimli::DebugInfoOffset(*x))).replace(' ', ""),
                    // (dump.rs drops the attribute of row-less programs only for C12, see EMPTY_LINE_PROGRAM_IS_NOTHING;
                    // its presence is checked by check_layout as well)
                    Val::LineProg => "lineprogram".to_string(),
                    Val::Loc(k) => {
                        let (base, pairs) = &u.locs[*k];
                        let mut s = String::from("locs:");
                        for (b, e, x) in pairs.iter().filter(|p| p.0 != p.1) {
                            let xt = match x {
                                XD::Raw(x) => expr_text(x, u.enc, endian),
                                XD::Ref(kind, tu, i) => ref_expr_text(intent, &pos, *kind, *tu, *i),
                            };
                            s.push_str(&format!("[{:#x},{:#x}){{{}}}", base + b, base + e, xt));
                        }
                        s
                    }
                    Val::Macinfo(x) => format!("{:?}", AV::DebugMacinfoRef(gimli::DebugMacinfoOffset(*x))).replace(' ', ""),
                    Val::Macro(x) => format!("{:?}", AV::DebugMacroRef(gimli::DebugMacroOffset(*x))).replace(' ', ""),
                    Val::Rng(k) => {
                        let (base, pairs) = &u.ranges[*k];
                        let mut s = String::from("ranges:");
                        for (b, e) in pairs.iter().filter(|p| p.0 != p.1) {
                            s.push_str(&format!("[{:#x},{:#x})", base + b, base + e));
                        }
                        s
                    }
                    Val::Types(x) => format!("{:?}", AV::DebugTypesRef(gimli::DebugTypeSignature(*x))).replace(' ', ""),
                    Val::Str(k) => format!("str:{}", dump::hex(&intent.strs[*k])),
                    Val::StrSup(x) => format!("{:?}", AV::DebugStrRefSup(gimli::DebugStrOffset(*x))).replace(' ', ""),
                    Val::LStr(k) => format!("str:{}", dump::hex(&intent.lstrs[*k])),
                    Val::String(b) => format!("str:{}", dump::hex(b)),
                    Val::Konst(kind, x) => konst_text(*kind, *x),
                    Val::ExprRef(kind, tu, k) => format!("expr:{}", ref_expr_text(intent, &pos, *kind, *tu, *k)),
                    Val::File(f) => {
                        // the reader resolves a file index through the unit's line program (present iff in use)
                        if !in_use {
                            "file?0".to_string()
                        } else {
                            let lpv = u.lp.as_ref().map(|l| l.0.version).unwrap_or(0);
                            let dir = if lpv >= 5 { dump::hex(b"d") } else { "-".to_string() };
                            // index 0 of a program before v5 is the unit's own DW_AT_name, if any
                            let file0 = || -> String {
                                let name = u.entries[0].attrs.iter().find(|a| a.0 == 0x03).and_then(|a| match &a.1 {
                                    Val::String(b) => Some(b.clone()),
                                    Val::Str(k) => Some(intent.strs[*k].clone()),
                                    Val::LStr(k) => Some(intent.lstrs[*k].clone()),
                                    _ => None,
                                });
                                match name {
                                    Some(n) => format!("file(-,{})", dump::hex(&n)),
                                    None => "file-oob0".to_string(),
                                }
                            };
                            match f {
                                Some(k) if crossver && u.enc.version >= 5 && lpv <= 4 => {
                                    if *k == 0 { file0() } else { format!("file({},{})", dir, dump::hex(&files[*k - 1])) }
                                }
                                Some(k) => format!("file({},{})", dir, dump::hex(&files[*k])),
                                // "no file" is raw index 0: file 0 in v5, the unit's name (if any) before
                                None => {
                                    if lpv >= 5 { format!("file({},{})", dir, dump::hex(&files[0])) } else { file0() }
                                }
                            }
                        }
                    }
                };
                texts.push(format!("{}={}", name, t.replace(' ', "")));
            }
            out.push(format!(" {} tag{:#x} {}", depth, en.tag, texts.join(" ")));
        }
    }
    out
}

// ------------------------------------------------------------------ read back

fn section_bytes(s: &Sections<EndianVec<RunTimeEndian>>) -> HashMap<SectionId, Vec<u8>> {
    let mut out = HashMap::new();
    let _: Result<(), ()> = s.for_each(|id, data| {
        out.insert(id, data.slice().to_vec());
        Ok(())
    });
    out
}

fn load<'a>(secs: &'a HashMap<SectionId, Vec<u8>>, endian: RunTimeEndian) -> gimli::Dwarf<Rd<'a>> {
    static EMPTY: [u8; 0] = [];
    gimli::Dwarf::load(|id| -> Result<_, ()> {
        Ok(EndianSlice::new(secs.get(&id).map(|v| &v[..]).unwrap_or(&EMPTY[..]), endian))
    })
    .unwrap()
}

/// written order (tags/depths, base types first) and DW_AT_sibling targets
fn check_layout(intent: &Intent, d: &gimli::Dwarf<Rd>) -> Result<(), String> {
    let mut it = d.units();
    let mut ui = 0;
    while let Some(h) = it.next().map_err(|e| format!("hdr:{}", errname(&e)))? {
        let unit = d.unit(h).map_err(|e| format!("unit:{}", errname(&e)))?;
        let iu = intent.units.get(ui).ok_or("extra-unit")?;
        let order = iu.order(true);
        // records: (offset, depth, null?, sibling value); stmt: DW_AT_stmt_list present (non-null entries)
        let mut stmt: Vec<bool> = Vec::new();
        let mut recs: Vec<(usize, isize, bool, Option<usize>)> = Vec::new();
        let mut raw = unit.entries_raw(None).map_err(|e| errname(&e))?;
        while !raw.is_empty() {
            let off = raw.next_offset().0;
            let depth = raw.next_depth();
            match raw.read_abbreviation().map_err(|e| errname(&e))? {
                None => recs.push((off, depth, true, None)),
                Some(a) => {
                    let mut sib = None;
                    stmt.push(a.attributes().iter().any(|sp| sp.name() == gimli::DW_AT_stmt_list));
                    for spec in a.attributes() {
                        let attr = raw.read_attribute(*spec).map_err(|e| errname(&e))?;
                        if attr.name() == gimli::DW_AT_sibling {
                            match attr.value() {
                                gimli::AttributeValue::UnitRef(o) => sib = Some(o.0),
                                _ => return Err("sibling-form".into()),
                            }
                        }
                    }
                    recs.push((off, depth, false, sib));
                }
            }
        }
        let ents: Vec<&(usize, isize, bool, Option<usize>)> = recs.iter().filter(|r| !r.2).collect();
        if ents.len() != order.len() {
            return Err("order:count".into());
        }
        for (k, &(i, depth)) in order.iter().enumerate() {
            let want_sib = iu.entries[i].sibling && !iu.entries[i].children.is_empty();
            if ents[k].1 != depth as isize {
                return Err("order:depth".into());
            }
            if want_sib != ents[k].3.is_some() {
                return Err("sibling:presence".into());
            }
            // DW_AT_stmt_list: on the root iff the line program is in use, elsewhere iff the script set it
            let has = iu.entries[i].attrs.iter().any(|a| a.0 == 0x10);
            let want_stmt = if i == 0 { iu.line_in_use() } else { has };
            if want_stmt != stmt[k] {
                return Err("stmt_list:presence".into());
            }
        }
        // every sibling attribute points just behind the null entry that closes the entry's children
        for (k, r) in recs.iter().enumerate() {
            if let Some(s) = r.3 {
                let close = recs[k + 1..].iter().find(|q| q.2 && q.1 == r.1 + 1).ok_or("sibling:no-null")?;
                if s != close.0 + 1 {
                    return Err("sibling:target".into());
                }
            }
        }
        ui += 1;
    }
    if ui != intent.units.len() {
        return Err("order:units".into());
    }
    Ok(())
}

/// raw (un-normalised) tag order of the root's children must be the stable base-types-first partition
fn check_base_types_first(intent: &Intent, d: &gimli::Dwarf<Rd>) -> Result<(), String> {
    let mut it = d.units();
    let mut ui = 0;
    while let Some(h) = it.next().map_err(|e| errname(&e))? {
        let unit = d.unit(h).map_err(|e| errname(&e))?;
        let iu = &intent.units[ui];
        let want: Vec<u16> = iu.order(true).iter().map(|(i, _)| iu.entries[*i].tag).collect();
        let mut got = Vec::new();
        let mut raw = unit.entries_raw(None).map_err(|e| errname(&e))?;
        while !raw.is_empty() {
            if let Some(a) = raw.read_abbreviation().map_err(|e| errname(&e))? {
                got.push(a.tag().0);
                raw.skip_attributes(a.attributes()).map_err(|e| errname(&e))?;
            }
        }
        if want != got {
            return Err("order:tags".into());
        }
        ui += 1;
    }
    Ok(())
}

fn readable(intent: &Intent) -> bool {
    intent.units.iter().all(|u| matches!(u.enc.address_size, 1 | 2 | 4 | 8))
}

/// semantic oracle: the dump of the written sections is the dump predicted from the script; written order and
/// sibling pointers are the documented ones. None = agreement.
fn oracle(intent: &Intent, secs: &HashMap<SectionId, Vec<u8>>, endian: RunTimeEndian) -> Option<String> {
    if !readable(intent) {
        return None;
    }
    let d = load(secs, endian);
    let actual = match dump::dump_dwarf(&d, false) {
        Ok(a) => a,
        Err(x) => return Some(format!("readback-mismatch reread:{}", x.replace(' ', "_"))),
    };
    let expected = predict(intent, endian, false);
    let diff = diff_classes(&expected, &actual);
    if !diff.is_empty() {
        // (the defect repaired by c92c4f4 stays recognisable: a mutant reverting it is named)
        if diff_classes(&predict(intent, endian, true), &actual).is_empty() {
            return Some("readback-mismatch crossver-file".to_string());
        }
        return Some(format!("readback-mismatch {}", diff));
    }
    if let Err(x) = check_base_types_first(intent, &d) {
        return Some(format!("readback-mismatch {}", x.replace(' ', "_")));
    }
    if let Err(x) = check_layout(intent, &d) {
        return Some(format!("readback-mismatch {}", x.replace(' ', "_")));
    }
    None
}

/// the same meaning with the units in the order `perm` (perm[k] = old index of the unit written k-th)
fn permute(intent: &Intent, perm: &[usize]) -> Intent {
    let mut inv = vec![0usize; perm.len()];
    for (k, &o) in perm.iter().enumerate() {
        inv[o] = k;
    }
    let mv = |v: &Val| -> Val {
        match v {
            Val::UnitRef(iu, i) => Val::UnitRef(inv[*iu], *i),
            Val::InfoRef(tu, eu, i) => Val::InfoRef(inv[*tu], inv[*eu], *i),
            Val::ExprRef(k, tu, i) => Val::ExprRef(*k, inv[*tu], *i),
            other => other.clone(),
        }
    };
    let units = perm
        .iter()
        .map(|&o| {
            let mut u = intent.units[o].clone();
            for en in u.entries.iter_mut() {
                for a in en.attrs.iter_mut() {
                    a.1 = mv(&a.1);
                }
            }
            for l in u.locs.iter_mut() {
                for p in l.1.iter_mut() {
                    if let XD::Ref(k, tu, i) = &p.2 {
                        p.2 = XD::Ref(*k, inv[*tu], *i);
                    }
                }
            }
            u
        })
        .collect();
    Intent { units, strs: intent.strs.clone(), lstrs: intent.lstrs.clone() }
}

/// read `secs`, convert it with write::Dwarf::convert; the k-th unit is written at once through
/// ConvertUnit::write iff bit k of `mask` is set, the others are left to the final Dwarf::write
fn convert_incremental(
    secs: &HashMap<SectionId, Vec<u8>>,
    endian: RunTimeEndian,
    mask: u64,
) -> Result<Sections<EndianVec<RunTimeEndian>>, String> {
    let rd = load(secs, endian);
    let mut out = Dwarf::new();
    let mut sections = Sections::new(EndianVec::new(endian));
    {
        let mut conv = out.convert(&rd).map_err(|x| format!("convert:{:?}", x))?;
        let mut k = 0;
        loop {
            let (mut unit, root) = match conv.read_unit().map_err(|x| format!("read_unit:{:?}", x))? {
                Some(p) => p,
                None => break,
            };
            unit.convert(root, &|a| Some(Address::Constant(a))).map_err(|x| format!("convert_unit:{:?}", x))?;
            if (mask >> (k % 60)) & 1 == 1 {
                unit.write(&mut sections).map_err(|x| format!("unit_write:{}", err(&x)))?;
            }
            k += 1;
        }
    }
    out.write(&mut sections).map_err(|x| format!("final_write:{}", err(&x)))?;
    Ok(sections)
}

pub fn run(t: &[&str]) -> String {
    match t[0] {
        "c11.units" | "c11.sem" | "c11.misuse" => {
            if t.len() < 3 {
                return "bad-script header".into();
            }
            let endian = endian(t[1]);
            let mode: usize = t[2].parse().unwrap_or(0);
            let ops = match parse(&t[3..]) {
                Ok(o) => o,
                Err(x) => return x.replace(' ', "_"),
            };
            let (intent, it) = match interpret(&ops, mode, endian) {
                Err(x) => return x.replace(' ', "_"),
                Ok(Err(x)) => return if t[0] == "c11.sem" { format!("ok {}", err(&x)) } else { err(&x) },
                Ok(Ok(p)) => p,
            };
            let secs = section_bytes(&it.sections);
            let get = |id: SectionId| -> String { tohex(secs.get(&id).map(|v| &v[..]).unwrap_or(&[])) };
            // (b) semantic oracle
            if let Some(x) = oracle(&intent, &secs, endian) {
                return x;
            }
            if t[0] == "c11.sem" {
                let n: usize = intent.units.iter().map(|u| u.order(true).len()).sum();
                return format!("ok same {}", n);
            }
            format!(
                "ok {} {} {} {}",
                get(SectionId::DebugInfo),
                get(SectionId::DebugAbbrev),
                get(SectionId::DebugStr),
                get(SectionId::DebugLineStr)
            )
        }
        // the composed writer model (UnitGlueWr): the script machinery lives in c15.rs
        "c11.glue" => crate::c15::run_glue(t),
        "c11.conv" => {
            // c11.conv <be> <mask> ops…: the script is written with Dwarf::write (stage 1, oracle), read back and
            // converted unit by unit; unit k goes out at once through ConvertUnit::write iff bit k of mask is set,
            // the rest with the final Dwarf::write (stage 2, oracle again: every reference must still hit its DIE)
            if t.len() < 3 {
                return "bad-script header".into();
            }
            let endian = endian(t[1]);
            let mask: u64 = t[2].parse().unwrap_or(0);
            let ops = match parse(&t[3..]) {
                Ok(o) => o,
                Err(x) => return x.replace(' ', "_"),
            };
            let (intent, it) = match interpret(&ops, 0, endian) {
                Err(x) => return x.replace(' ', "_"),
                Ok(Err(x)) => return format!("ok {}", err(&x)),
                Ok(Ok(p)) => p,
            };
            let secs = section_bytes(&it.sections);
            if let Some(x) = oracle(&intent, &secs, endian) {
                return format!("stage1-{}", x);
            }
            let sections2 = match convert_incremental(&secs, endian, mask) {
                Ok(s) => s,
                Err(x) => return format!("convert-err {}", x.replace(' ', "_")),
            };
            let n = intent.units.len();
            let mut perm: Vec<usize> = (0..n).filter(|k| (mask >> (k % 60)) & 1 == 1).collect();
            perm.extend((0..n).filter(|k| (mask >> (k % 60)) & 1 == 0));
            let intent2 = permute(&intent, &perm);
            let secs2 = section_bytes(&sections2);
            if let Some(x) = oracle(&intent2, &secs2, endian) {
                return format!("incremental-{}", x);
            }
            let n: usize = intent.units.iter().map(|u| u.order(true).len()).sum();
            format!("ok same {}", n)
        }
        "c11.form" => {
            // c11.form <version> <fmt64> <asz> <value…>: AttributeValue::form
            let mut tk = Toks { t: &t[1..], i: 0 };
            let enc = match tk.enc() {
                Ok(e) => e,
                Err(x) => return x.replace(' ', "_"),
            };
            let v = match parse_val(&mut tk) {
                Ok(v) => v,
                Err(x) => return x.replace(' ', "_"),
            };
            // ids are needed only to build the value; the form does not depend on them
            let mut d = Dwarf::new();
            let uid = d.units.add(Unit::new(enc, LineProgram::none()));
            let root = d.units.get(uid).root();
            let sid = d.strings.add(b"s".to_vec());
            let lid = d.line_strings.add(b"l".to_vec());
            let rid = d.units.get_mut(uid).ranges.add(RangeList(Vec::new()));
            let oid = d.units.get_mut(uid).locations.add(LocationList(Vec::new()));
            let (_, fids) = mk_line_program(&(Encoding { version: 4, format: Format::Dwarf32, address_size: 4 }, 1));
            let it = Interp {
                h: Holder::D(Dwarf::new()),
                endian: RunTimeEndian::Little,
                unit_ids: vec![uid],
                entry_ids: vec![vec![root]],
                str_ids: vec![sid],
                lstr_ids: vec![lid],
                rng_ids: vec![vec![rid]],
                loc_ids: vec![vec![oid]],
                file_ids: vec![fids],
                sections: Sections::new(EndianVec::new(RunTimeEndian::Little)),
            };
            let wv = match it.value(0, &v) {
                Ok(w) => w,
                Err(x) => return x.replace(' ', "_"),
            };
            match wv.form(enc) {
                Ok((f, ic)) => match ic {
                    Some(z) => format!("ok {} {}", f.0, z),
                    None => format!("ok {} -", f.0),
                },
                Err(x) => err(&x),
            }
        }
        _ => format!("unknown-stream {}", t[0]),
    }
}
