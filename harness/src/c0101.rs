// c0101.rs — C01 extension for src/read/macros.rs (model: coq/Model/MacroRd.v, streams: ocaml/s_c01m.ml).
// The file is named c0101 (not c01m) because harness/build.rs only registers `c<digits>.rs` and the
// dispatcher routes a case by the text before the first '.' of its stream name.
//
//   c0101.info  <be> <offset> <section>     DebugMacinfo::get_macinfo(offset) then MacroIter to exhaustion
//   c0101.macro <be> <offset> <section>     DebugMacro::get_macros(offset)    then MacroIter to exhaustion
//   c0101.rt    <i|m> <be> <offset> <section>   same, on encoder output (expected column = the spec entries)
//
// The iterator is driven with errors IGNORED (`next()` is called again after an Err) until Ok(None), at most
// len+8 times; after the first Ok(None) it is called twice more.  One canonical token per step.
// Oracles evaluated here on the implementation alone (first token `<what>-mismatch`):
//   nonterminating  more than len+8 calls of next() without Ok(None)
//   after-error     an entry or a second error after an Err ("Iteration cannot continue after an error")
//   after-end       anything but Ok(None) after Ok(None)
//   iter-adapter    the std::iter::Iterator impl over a clone of the iterator reports a different sequence
use crate::util::*;
use gimli::{
    DebugMacinfo, DebugMacinfoOffset, DebugMacro, DebugMacroOffset, EndianSlice, MacroEntry, MacroIter, MacroString,
    Reader, RunTimeEndian,
};

type R<'a> = EndianSlice<'a, RunTimeEndian>;

fn direct(r: &R, sect: &R) -> String {
    format!("{}@{}", tohex(r.slice()), r.offset_from(*sect))
}

fn mstr(s: &MacroString<R>, sect: &R) -> String {
    match s {
        MacroString::Direct(r) => format!("d.{}", direct(r, sect)),
        MacroString::StringPointer(o) => format!("p.{}", o.0),
        MacroString::IndirectStringPointer(i) => format!("x.{}", i.0),
        MacroString::Supplementary(o) => format!("s.{}", o.0),
    }
}

fn entry(e: &MacroEntry<R>, sect: &R) -> String {
    match e {
        MacroEntry::Define { line, text } => format!("def:{}:{}", line, mstr(text, sect)),
        MacroEntry::Undef { line, name } => format!("undef:{}:{}", line, mstr(name, sect)),
        MacroEntry::StartFile { line, file } => format!("start:{}:{}", line, file),
        MacroEntry::EndFile => "endf".to_string(),
        MacroEntry::Import { offset } => format!("imp:{}", offset.0),
        MacroEntry::ImportSup { offset } => format!("imps:{}", offset.0),
        MacroEntry::VendorExt { numeric, string } => format!("vend:{}:{}", numeric, direct(string, sect)),
    }
}

fn drive(mut it: MacroIter<R>, sect: &R) -> String {
    let cap = sect.len() + 8;
    let mut it2 = it.clone();
    let mut toks: Vec<String> = Vec::new();
    let mut steps = 0usize;
    let mut seen_err = false;
    let mut after_err = false;
    let mut ended = false;
    while steps < cap {
        steps += 1;
        match it.next() {
            Ok(None) => {
                ended = true;
                break;
            }
            Ok(Some(e)) => {
                if seen_err {
                    after_err = true;
                }
                toks.push(entry(&e, sect));
            }
            Err(e) => {
                if seen_err {
                    after_err = true;
                }
                seen_err = true;
                toks.push(format!("E.{}", errname(&e)));
            }
        }
    }
    if !ended {
        return format!("nonterminating-mismatch {}", toks.join(" "));
    }
    // the std `Iterator` adapter (next().transpose()) over a clone reports the same sequence
    let mut toks2: Vec<String> = Vec::new();
    let mut n2 = 0usize;
    while n2 < cap {
        n2 += 1;
        match Iterator::next(&mut it2) {
            None => break,
            Some(Ok(e)) => toks2.push(entry(&e, sect)),
            Some(Err(e)) => toks2.push(format!("E.{}", errname(&e))),
        }
    }
    let adapter_differs = toks2 != toks;
    let mut after_end = false;
    for _ in 0..2 {
        match it.next() {
            Ok(None) => {}
            Ok(Some(e)) => {
                after_end = true;
                toks.push(entry(&e, sect));
            }
            Err(e) => {
                after_end = true;
                toks.push(format!("E.{}", errname(&e)));
            }
        }
    }
    let head = if after_err {
        "after-error-mismatch"
    } else if after_end {
        "after-end-mismatch"
    } else if adapter_differs {
        "iter-adapter-mismatch"
    } else {
        "ok"
    };
    toks.push("end".to_string());
    format!("{} {}", head, toks.join(" "))
}

fn macinfo(be: &str, off: &str, sec: &str) -> String {
    let b = hex(sec);
    let sect: R = EndianSlice::new(&b, endian(be));
    match DebugMacinfo::from(sect).get_macinfo(DebugMacinfoOffset(u(off) as usize)) {
        Ok(it) => drive(it, &sect),
        Err(e) => err(&e),
    }
}

fn macros(be: &str, off: &str, sec: &str) -> String {
    let b = hex(sec);
    let sect: R = EndianSlice::new(&b, endian(be));
    match DebugMacro::from(sect).get_macros(DebugMacroOffset(u(off) as usize)) {
        Ok(it) => drive(it, &sect),
        Err(e) => err(&e),
    }
}

pub fn run(t: &[&str]) -> String {
    match t[0] {
        "c0101.info" => macinfo(t[1], t[2], t[3]),
        "c0101.macro" => macros(t[1], t[2], t[3]),
        "c0101.rt" => {
            if t[1] == "i" {
                macinfo(t[2], t[3], t[4])
            } else {
                macros(t[2], t[3], t[4])
            }
        }
        _ => format!("unknown-stream {}", t[0]),
    }
}
