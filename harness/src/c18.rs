// c18.rs — relocation transparency (src/read/relocate.rs, src/write/relocate.rs and the call sites of the
// relocatable primitives in the readers and writers).
//
// Model streams (expected column = the Gallina mirror):
//   c18.wops    writer-op scripts on EndianVec (symbols resolved) and on a recording RelocateWriter
//   c18.rprog   linear reader programs through RelocateReader vs a plain reader on pre-applied bytes
//   c18.hdr     parse_unit_header through RelocateReader
//   c18.ranges  RawRngListIter (.debug_ranges) through RelocateReader
// Every one of them also evaluates the spec-level oracle on gimli itself and answers `relocwrite-mismatch`
// / `relocread-mismatch` when the property fails on the implementation.
// Oracle streams: see c18_build (c18.write) and c18.corpus below.
use crate::util::*;
use gimli::read::Relocate;
use gimli::write::{Address, EndianVec, RelocateWriter, Relocation, RelocationTarget, Writer};
use gimli::{DwEhPe, EndianSlice, Format, Reader, RelocateReader, RunTimeEndian, SectionId};
use std::cell::RefCell;
use std::collections::HashMap;
use std::rc::Rc;

pub const SECTIONS: [SectionId; 23] = [
    SectionId::DebugAbbrev,
    SectionId::DebugAddr,
    SectionId::DebugAranges,
    SectionId::DebugCuIndex,
    SectionId::DebugFrame,
    SectionId::EhFrame,
    SectionId::EhFrameHdr,
    SectionId::DebugInfo,
    SectionId::DebugLine,
    SectionId::DebugLineStr,
    SectionId::DebugLoc,
    SectionId::DebugLocLists,
    SectionId::DebugMacinfo,
    SectionId::DebugMacro,
    SectionId::DebugNames,
    SectionId::DebugPubNames,
    SectionId::DebugPubTypes,
    SectionId::DebugRanges,
    SectionId::DebugRngLists,
    SectionId::DebugStr,
    SectionId::DebugStrOffsets,
    SectionId::DebugTuIndex,
    SectionId::DebugTypes,
];

pub fn section_index(id: SectionId) -> usize {
    SECTIONS.iter().position(|s| *s == id).unwrap_or(99)
}

// ---------------------------------------------------------------- recording writer

/// The recorder of crates/examples/src/bin/simple_write.rs: an EndianVec plus the list of relocations.
#[derive(Clone, Debug)]
pub struct Rec {
    pub w: EndianVec<RunTimeEndian>,
    pub rel: Vec<Relocation>,
}

impl Rec {
    pub fn new(e: RunTimeEndian) -> Self {
        Rec { w: EndianVec::new(e), rel: Vec::new() }
    }
}

impl RelocateWriter for Rec {
    type Writer = EndianVec<RunTimeEndian>;
    fn writer(&self) -> &Self::Writer {
        &self.w
    }
    fn writer_mut(&mut self) -> &mut Self::Writer {
        &mut self.w
    }
    fn relocate(&mut self, relocation: Relocation) {
        self.rel.push(relocation);
    }
}

fn put(buf: &mut [u8], pos: usize, w: usize, v: u64, big: bool) {
    for i in 0..w {
        let b = if i < 8 { (v >> (8 * i)) as u8 } else { 0 };
        if big {
            buf[pos + w - 1 - i] = b;
        } else {
            buf[pos + i] = b;
        }
    }
}

fn get(buf: &[u8], pos: usize, w: usize, big: bool) -> u64 {
    let mut v: u64 = 0;
    for i in 0..w.min(8) {
        let b = if big { buf[pos + w - 1 - i] } else { buf[pos + i] };
        v |= (b as u64) << (8 * i);
    }
    v
}

/// What a linker does with one recorded relocation (written independently of the model):
/// S + A, minus the place for pc-relative unwind pointers, stored in the low `size` bytes.
pub fn apply_write_reloc(buf: &mut [u8], r: &Relocation, env: &dyn Fn(&RelocationTarget) -> u64, big: bool) {
    let size = r.size as usize;
    if r.offset.checked_add(size).map(|e| e > buf.len()).unwrap_or(true) {
        return;
    }
    let mut v = env(&r.target).wrapping_add(r.addend as u64);
    if let Some(pe) = r.eh_pe {
        if pe.application() == gimli::DW_EH_PE_pcrel {
            v = v.wrapping_sub(r.offset as u64);
        }
    }
    put(buf, r.offset, size, v, big);
}

// ---------------------------------------------------------------- relocating reader

/// object::read::RelocationMap::relocate, plus a log of every (offset, value) gimli hands to it.
#[derive(Clone, Debug)]
pub struct MapRel {
    pub map: Rc<HashMap<usize, (bool, u64)>>,
    pub log: Rc<RefCell<Vec<(usize, u64)>>>,
}

impl MapRel {
    pub fn new(rels: &[(usize, usize, bool, u64)]) -> Self {
        let mut m = HashMap::new();
        for r in rels {
            m.entry(r.0).or_insert((r.2, r.3));
        }
        MapRel { map: Rc::new(m), log: Rc::new(RefCell::new(Vec::new())) }
    }
    fn relocate(&self, offset: usize, value: u64) -> u64 {
        self.log.borrow_mut().push((offset, value));
        match self.map.get(&offset) {
            Some(&(true, a)) => value.wrapping_add(a),
            Some(&(false, a)) => a,
            None => value,
        }
    }
    pub fn sites(&self) -> String {
        let l = self.log.borrow();
        if l.is_empty() {
            return "-".into();
        }
        l.iter().map(|(o, v)| format!("{}:{}", o, v)).collect::<Vec<_>>().join(",")
    }
}

impl Relocate<usize> for MapRel {
    fn relocate_address(&self, offset: usize, value: u64) -> gimli::Result<u64> {
        Ok(self.relocate(offset, value))
    }
    fn relocate_offset(&self, offset: usize, value: usize) -> gimli::Result<usize> {
        <usize as gimli::ReaderOffset>::from_u64(self.relocate(offset, value as u64))
    }
}

pub type RR<'a> = RelocateReader<EndianSlice<'a, RunTimeEndian>, MapRel>;

/// The section with the relocations already applied (written independently of the model).
pub fn apply_read_relocs(bytes: &[u8], rels: &[(usize, usize, bool, u64)], big: bool) -> Vec<u8> {
    let mut b = bytes.to_vec();
    for &(pos, w, imp, add) in rels {
        if pos.checked_add(w).map(|e| e > b.len()).unwrap_or(true) {
            continue;
        }
        let v = get(&b, pos, w, big);
        let nv = if imp { v.wrapping_add(add) } else { add };
        put(&mut b, pos, w, nv, big);
    }
    b
}

fn parse_rels(t: &[&str], i: &mut usize) -> Vec<(usize, usize, bool, u64)> {
    let n: usize = t[*i].parse().unwrap();
    *i += 1;
    let mut v = Vec::new();
    for _ in 0..n {
        let f: Vec<&str> = t[*i].split(':').collect();
        v.push((f[0].parse().unwrap(), f[1].parse().unwrap(), f[2] == "1", u(f[3])));
        *i += 1;
    }
    v
}

// ---------------------------------------------------------------- c18.wops

fn z64(tok: &str) -> u64 {
    // decimal, possibly negative (i64) or up to u64
    if let Some(s) = tok.strip_prefix('-') {
        (s.parse::<u64>().unwrap() as i64).wrapping_neg() as u64
    } else {
        tok.parse::<u64>().unwrap()
    }
}

#[derive(Clone, Debug)]
enum Wop {
    B(Vec<u8>),
    At(usize, Vec<u8>),
    U(u64, u8),
    UA(usize, u64, u8),
    Addr(Address, u8),
    Off(usize, SectionId, u8),
    OffAt(usize, usize, SectionId, u8),
    Eh(Address, DwEhPe, u8),
    Ref(usize, u8),
}

fn sect(tok: &str) -> SectionId {
    SECTIONS[tok.parse::<usize>().unwrap() % SECTIONS.len()]
}
fn sz(tok: &str) -> u8 {
    tok.parse::<u8>().unwrap()
}
fn us(tok: &str) -> usize {
    u(tok) as usize
}

fn parse_wops(t: &[&str], i: &mut usize) -> Vec<Wop> {
    let n: usize = t[*i].parse().unwrap();
    *i += 1;
    let mut v = Vec::new();
    for _ in 0..n {
        let k = t[*i];
        let a = &t[*i + 1..];
        let (op, used) = match k {
            "B" => (Wop::B(hex(a[0])), 1),
            "A" => (Wop::At(us(a[0]), hex(a[1])), 2),
            "U" => (Wop::U(u(a[0]), sz(a[1])), 2),
            "UA" => (Wop::UA(us(a[0]), u(a[1]), sz(a[2])), 3),
            "AC" => (Wop::Addr(Address::Constant(u(a[0])), sz(a[1])), 2),
            "AS" => (Wop::Addr(Address::Symbol { symbol: us(a[0]), addend: z64(a[1]) as i64 }, sz(a[2])), 3),
            "O" => (Wop::Off(us(a[0]), sect(a[1]), sz(a[2])), 3),
            "OA" => (Wop::OffAt(us(a[0]), us(a[1]), sect(a[2]), sz(a[3])), 4),
            "EC" => (Wop::Eh(Address::Constant(u(a[0])), DwEhPe(sz(a[1])), sz(a[2])), 3),
            "ES" => (
                Wop::Eh(Address::Symbol { symbol: us(a[0]), addend: z64(a[1]) as i64 }, DwEhPe(sz(a[2])), sz(a[3])),
                4,
            ),
            "R" => (Wop::Ref(us(a[0]), sz(a[1])), 2),
            _ => panic!("bad wop {}", k),
        };
        v.push(op);
        *i += 1 + used;
    }
    v
}

fn run_wops<W: Writer>(w: &mut W, ops: &[Wop]) -> gimli::write::Result<()> {
    for op in ops {
        match op {
            Wop::B(b) => w.write(b)?,
            Wop::At(p, b) => w.write_at(*p, b)?,
            Wop::U(v, s) => w.write_udata(*v, *s)?,
            Wop::UA(p, v, s) => w.write_udata_at(*p, *v, *s)?,
            Wop::Addr(a, s) => w.write_address(*a, *s)?,
            Wop::Off(v, t, s) => w.write_offset(*v, *t, *s)?,
            Wop::OffAt(p, v, t, s) => w.write_offset_at(*p, *v, *t, *s)?,
            Wop::Eh(a, e, s) => w.write_eh_pointer(*a, *e, *s)?,
            Wop::Ref(y, s) => w.write_reference(*y, *s)?,
        }
    }
    Ok(())
}

fn show_reloc(r: &Relocation) -> String {
    format!(
        "{}:{}:{}:{}:{}",
        r.offset,
        r.size,
        match r.target {
            RelocationTarget::Symbol(s) => format!("S{}", s),
            RelocationTarget::Section(s) => format!("T{}", section_index(s)),
        },
        r.addend,
        match r.eh_pe {
            None => "-".to_string(),
            Some(e) => format!("{}", e.0),
        }
    )
}

fn wops(t: &[&str]) -> String {
    let e = endian(t[1]);
    let big = t[1] == "1";
    let owed = t[2] == "1";
    let ns: usize = t[3].parse().unwrap();
    let syms: Vec<u64> = (0..ns).map(|k| u(t[4 + k])).collect();
    let sb = u(t[4 + ns]);
    let mut i = 5 + ns;
    let ops = parse_wops(t, &mut i);
    let env = |tg: &RelocationTarget| -> u64 {
        match tg {
            RelocationTarget::Symbol(s) => syms[*s % syms.len()],
            RelocationTarget::Section(id) => sb.wrapping_mul(section_index(*id) as u64 + 1),
        }
    };
    // direct writing with final values
    let resolve_addr = |a: &Address| match a {
        Address::Constant(v) => Address::Constant(*v),
        Address::Symbol { symbol, addend } => {
            Address::Constant(env(&RelocationTarget::Symbol(*symbol)).wrapping_add(*addend as u64))
        }
    };
    let resolved: Vec<Wop> = ops
        .iter()
        .map(|op| match op {
            Wop::Addr(a, s) => Wop::Addr(resolve_addr(a), *s),
            Wop::Eh(a, p, s) => Wop::Eh(resolve_addr(a), *p, *s),
            Wop::Off(v, id, s) => {
                Wop::Off(env(&RelocationTarget::Section(*id)).wrapping_add(*v as u64) as usize, *id, *s)
            }
            Wop::OffAt(p, v, id, s) => {
                Wop::OffAt(*p, env(&RelocationTarget::Section(*id)).wrapping_add(*v as u64) as usize, *id, *s)
            }
            o => o.clone(),
        })
        .collect();
    let mut pw = EndianVec::new(e);
    let pres = run_wops(&mut pw, &resolved);
    let mut rw = Rec::new(e);
    let rres = run_wops(&mut rw, &ops);
    let ps = match &pres {
        Ok(()) => format!("ok {}", tohex(pw.slice())),
        Err(x) => err(x),
    };
    let (rs, applied) = match &rres {
        Ok(()) => {
            let mut s = format!("ok {} {}", tohex(rw.w.slice()), rw.rel.len());
            for r in &rw.rel {
                s.push(' ');
                s.push_str(&show_reloc(r));
            }
            let mut b = rw.w.slice().to_vec();
            for r in &rw.rel {
                apply_write_reloc(&mut b, r, &env, big);
            }
            (s, Some(b))
        }
        Err(x) => (err(x), None),
    };
    if owed {
        if let (Ok(()), Some(b)) = (&pres, &applied) {
            if b.as_slice() != pw.slice() {
                return format!("relocwrite-mismatch direct={} applied={}", tohex(pw.slice()), tohex(b));
            }
        }
    }
    format!(
        "p {} r {} a {}",
        ps,
        rs,
        match &applied {
            Some(b) => tohex(b),
            None => "x".to_string(),
        }
    )
}

// ---------------------------------------------------------------- c18.rprog

#[derive(Clone, Debug)]
enum Rop {
    U(usize),
    Uleb,
    Sleb,
    Skip(usize),
    Len,
    Addr(u8),
    Off(bool),
    Sized(u8),
    Word(bool),
    Split(usize, usize),
}

fn parse_rops(t: &[&str], i: &mut usize) -> Vec<Rop> {
    let n: usize = t[*i].parse().unwrap();
    *i += 1;
    let mut v = Vec::new();
    for _ in 0..n {
        let k = t[*i];
        let a = &t[*i + 1..];
        let (op, used) = match k {
            "u" => (Rop::U(us(a[0])), 1),
            "uleb" => (Rop::Uleb, 0),
            "sleb" => (Rop::Sleb, 0),
            "skip" => (Rop::Skip(us(a[0])), 1),
            "len" => (Rop::Len, 0),
            "addr" => (Rop::Addr(sz(a[0])), 1),
            "off" => (Rop::Off(a[0] == "1"), 1),
            "soff" => (Rop::Sized(sz(a[0])), 1),
            "word" => (Rop::Word(a[0] == "1"), 1),
            "split" => (Rop::Split(us(a[0]), us(a[1])), 2),
            _ => panic!("bad rop {}", k),
        };
        v.push(op);
        *i += 1 + used;
    }
    v
}

fn fmt_of(b: bool) -> Format {
    if b {
        Format::Dwarf64
    } else {
        Format::Dwarf32
    }
}

fn exec<R: Reader<Offset = usize>>(ops: &[Rop], r: &mut R, acc: &mut Vec<u64>) -> gimli::Result<()> {
    let mut i = 0;
    while i < ops.len() {
        match &ops[i] {
            Rop::U(1) => acc.push(r.read_u8()? as u64),
            Rop::U(2) => acc.push(r.read_u16()? as u64),
            Rop::U(4) => acc.push(r.read_u32()? as u64),
            Rop::U(_) => acc.push(r.read_u64()?),
            Rop::Uleb => acc.push(r.read_uleb128()?),
            Rop::Sleb => acc.push(r.read_sleb128()? as u64),
            Rop::Skip(n) => r.skip(*n)?,
            Rop::Len => acc.push(r.len() as u64),
            Rop::Addr(s) => acc.push(r.read_address(*s)?),
            Rop::Off(f) => acc.push(r.read_offset(fmt_of(*f))? as u64),
            Rop::Sized(s) => acc.push(r.read_sized_offset(*s)? as u64),
            Rop::Word(f) => acc.push(r.read_word(fmt_of(*f))? as u64),
            Rop::Split(len, cnt) => {
                let mut head = r.split(*len)?;
                let end = (i + 1 + *cnt).min(ops.len());
                exec(&ops[i + 1..end], &mut head, acc)?;
                i = end;
                continue;
            }
        }
        i += 1;
    }
    Ok(())
}

fn run_prog<R: Reader<Offset = usize>>(ops: &[Rop], r: R) -> String {
    let base = r.clone();
    let mut r = r;
    let mut acc = Vec::new();
    match exec(ops, &mut r, &mut acc) {
        Ok(()) => format!(
            "ok {} {} {}",
            if acc.is_empty() { "-".to_string() } else { acc.iter().map(|x| x.to_string()).collect::<Vec<_>>().join(",") },
            r.offset_from(&base),
            r.len()
        ),
        Err(e) => err(&e),
    }
}

/// Both readings of one case: through RelocateReader on the raw bytes, plainly on the applied bytes.
fn both_ways(
    t: &[&str],
    bytes: &[u8],
    rels: &[(usize, usize, bool, u64)],
    f: &dyn Fn(Result<RR<'_>, EndianSlice<'_, RunTimeEndian>>) -> String,
) -> String {
    let e = endian(t[1]);
    let owed = t[2] == "1";
    let rel = MapRel::new(rels);
    let rr = f(Ok(RelocateReader::new(EndianSlice::new(bytes, e), rel.clone())));
    let applied = apply_read_relocs(bytes, rels, t[1] == "1");
    let pr = f(Err(EndianSlice::new(&applied, e)));
    if owed && rr != pr {
        return format!("relocread-mismatch reloc=[{}] applied=[{}]", rr, pr);
    }
    format!("r {} p {} s {}", rr, pr, rel.sites())
}

fn rprog(t: &[&str]) -> String {
    let bytes = hex(t[3]);
    let mut i = 4;
    let rels = parse_rels(t, &mut i);
    let ops = parse_rops(t, &mut i);
    both_ways(t, &bytes, &rels, &|r| match r {
        Ok(r) => run_prog(&ops, r),
        Err(r) => run_prog(&ops, r),
    })
}

// ---------------------------------------------------------------- c18.hdr

fn show_header<R: Reader<Offset = usize>>(h: gimli::Result<Option<gimli::UnitHeader<R>>>) -> String {
    match h {
        Ok(Some(h)) => {
            let (ut, a, b) = match h.type_() {
                gimli::UnitType::Compilation => (1, 0, 0),
                gimli::UnitType::Type { type_signature, type_offset } => (2, type_signature.0, type_offset.0 as u64),
                gimli::UnitType::Partial => (3, 0, 0),
                gimli::UnitType::Skeleton(id) => (4, id.0, 0),
                gimli::UnitType::SplitCompilation(id) => (5, id.0, 0),
                gimli::UnitType::SplitType { type_signature, type_offset } => (6, type_signature.0, type_offset.0 as u64),
            };
            format!(
                "ok {},{},{},{},{},{},{},{},{}",
                h.format().word_size(),
                h.version(),
                h.address_size(),
                ut,
                h.debug_abbrev_offset().0,
                a,
                b,
                h.unit_length(),
                h.length_including_self() - h.header_size()
            )
        }
        Ok(None) => "none".into(),
        Err(e) => err(&e),
    }
}

fn hdr(t: &[&str]) -> String {
    let types = t[3] == "1";
    let bytes = hex(t[4]);
    let mut i = 5;
    let rels = parse_rels(t, &mut i);
    fn one<R: Reader<Offset = usize>>(r: R, types: bool) -> String {
        if types {
            show_header(gimli::DebugTypes::from(r).units().next())
        } else {
            show_header(gimli::DebugInfo::from(r).units().next())
        }
    }
    both_ways(t, &bytes, &rels, &|r| match r {
        Ok(r) => one(r, types),
        Err(r) => one(r, types),
    })
}

// ---------------------------------------------------------------- c18.ranges

fn ranges(t: &[&str]) -> String {
    let asz: u8 = t[3].parse().unwrap();
    let bytes = hex(t[4]);
    let mut i = 5;
    let rels = parse_rels(t, &mut i);
    fn one<R: Reader<Offset = usize>>(r: R, asz: u8) -> String {
        let mut empty = r.clone();
        empty.empty();
        let rl = gimli::RangeLists::new(gimli::DebugRanges::from(r), gimli::DebugRngLists::from(empty));
        let enc = gimli::Encoding { format: Format::Dwarf32, version: 4, address_size: asz };
        let mut it = match rl.raw_ranges(gimli::RangeListsOffset(0), enc) {
            Ok(it) => it,
            Err(e) => return err(&e),
        };
        let mut out: Vec<String> = Vec::new();
        loop {
            match it.next() {
                Ok(None) => break,
                Ok(Some(gimli::RawRngListEntry::BaseAddress { addr })) => out.push(format!("1,{}", addr)),
                Ok(Some(gimli::RawRngListEntry::AddressOrOffsetPair { begin, end })) => {
                    out.push(format!("2,{},{}", begin, end))
                }
                Ok(Some(_)) => out.push("other".into()),
                Err(e) => return err(&e),
            }
        }
        format!("ok {}", if out.is_empty() { "-".to_string() } else { out.join(",") })
    }
    both_ways(t, &bytes, &rels, &|r| match r {
        Ok(r) => one(r, asz),
        Err(r) => one(r, asz),
    })
}

pub fn run(t: &[&str]) -> String {
    match t[0] {
        "c18.wops" => wops(t),
        "c18.rprog" => rprog(t),
        "c18.hdr" => hdr(t),
        "c18.ranges" => ranges(t),
        _ => format!("unknown-stream {}", t[0]),
    }
}
