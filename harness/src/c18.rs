// c18.rs — relocation transparency (src/read/relocate.rs, src/write/relocate.rs and the call sites of the
// relocatable primitives in the readers and writers).
//
// Model streams (expected column = the Gallina mirror):
//   c18.wops    writer-op scripts on EndianVec (symbols resolved) and on a recording RelocateWriter
//   c18.rprog   linear reader programs through RelocateReader vs a plain reader on pre-applied bytes
//   c18.hdr     parse_unit_header through RelocateReader
//   c18.ranges  RawRngListIter (.debug_ranges) through RelocateReader
// Every one of them also evaluates the spec-level oracle on gimli itself and answers `relocwrite-mismatch`
// / `relocread-mismatch` when the property fails on the implementation.
// Oracle streams: see c18_build (c18.write) and c18.corpus below.
use crate::util::*;
use gimli::read::Relocate;
use gimli::write::{Address, EndianVec, RelocateWriter, Relocation, RelocationTarget, Writer};
use gimli::{DwEhPe, EndianSlice, Format, Reader, RelocateReader, RunTimeEndian, SectionId};
use std::cell::RefCell;
use std::collections::HashMap;
use std::rc::Rc;

pub const SECTIONS: [SectionId; 23] = [
    SectionId::DebugAbbrev,
    SectionId::DebugAddr,
    SectionId::DebugAranges,
    SectionId::DebugCuIndex,
    SectionId::DebugFrame,
    SectionId::EhFrame,
    SectionId::EhFrameHdr,
    SectionId::DebugInfo,
    SectionId::DebugLine,
    SectionId::DebugLineStr,
    SectionId::DebugLoc,
    SectionId::DebugLocLists,
    SectionId::DebugMacinfo,
    SectionId::DebugMacro,
    SectionId::DebugNames,
    SectionId::DebugPubNames,
    SectionId::DebugPubTypes,
    SectionId::DebugRanges,
    SectionId::DebugRngLists,
    SectionId::DebugStr,
    SectionId::DebugStrOffsets,
    SectionId::DebugTuIndex,
    SectionId::DebugTypes,
];

pub fn section_index(id: SectionId) -> usize {
    SECTIONS.iter().position(|s| *s == id).unwrap_or(99)
}

// ---------------------------------------------------------------- recording writer

/// The recorder of crates/examples/src/bin/simple_write.rs: an EndianVec plus the list of relocations.
#[derive(Clone, Debug)]
pub struct Rec {
    pub w: EndianVec<RunTimeEndian>,
    pub rel: Vec<Relocation>,
}

impl Rec {
    pub fn new(e: RunTimeEndian) -> Self {
        Rec { w: EndianVec::new(e), rel: Vec::new() }
    }
}

impl RelocateWriter for Rec {
    type Writer = EndianVec<RunTimeEndian>;
    fn writer(&self) -> &Self::Writer {
        &self.w
    }
    fn writer_mut(&mut self) -> &mut Self::Writer {
        &mut self.w
    }
    fn relocate(&mut self, relocation: Relocation) {
        self.rel.push(relocation);
    }
}

fn put(buf: &mut [u8], pos: usize, w: usize, v: u64, big: bool) {
    for i in 0..w {
        let b = if i < 8 { (v >> (8 * i)) as u8 } else { 0 };
        if big {
            buf[pos + w - 1 - i] = b;
        } else {
            buf[pos + i] = b;
        }
    }
}

fn get(buf: &[u8], pos: usize, w: usize, big: bool) -> u64 {
    let mut v: u64 = 0;
    for i in 0..w.min(8) {
        let b = if big { buf[pos + w - 1 - i] } else { buf[pos + i] };
        v |= (b as u64) << (8 * i);
    }
    v
}

/// What a linker does with one recorded relocation (written independently of the model):
/// S + A, minus the place for pc-relative unwind pointers, stored in the low `size` bytes.
pub fn apply_write_reloc(buf: &mut [u8], r: &Relocation, env: &dyn Fn(&RelocationTarget) -> u64, big: bool) {
    let size = r.size as usize;
    if r.offset.checked_add(size).map(|e| e > buf.len()).unwrap_or(true) {
        return;
    }
    let mut v = env(&r.target).wrapping_add(r.addend as u64);
    if let Some(pe) = r.eh_pe {
        if pe.application() == gimli::DW_EH_PE_pcrel {
            v = v.wrapping_sub(r.offset as u64);
        }
    }
    put(buf, r.offset, size, v, big);
}

// ---------------------------------------------------------------- relocating reader

/// object::read::RelocationMap::relocate, plus a log of every (offset, value) gimli hands to it.
#[derive(Clone, Debug)]
pub struct MapRel {
    pub map: Rc<HashMap<usize, (bool, u64)>>,
    pub log: Rc<RefCell<Vec<(usize, u64)>>>,
}

impl MapRel {
    pub fn new(rels: &[(usize, usize, bool, u64)]) -> Self {
        let mut m = HashMap::new();
        for r in rels {
            m.entry(r.0).or_insert((r.2, r.3));
        }
        MapRel { map: Rc::new(m), log: Rc::new(RefCell::new(Vec::new())) }
    }
    fn relocate(&self, offset: usize, value: u64) -> u64 {
        self.log.borrow_mut().push((offset, value));
        match self.map.get(&offset) {
            Some(&(true, a)) => value.wrapping_add(a),
            Some(&(false, a)) => a,
            None => value,
        }
    }
    pub fn sites(&self) -> String {
        let l = self.log.borrow();
        if l.is_empty() {
            return "-".into();
        }
        l.iter().map(|(o, v)| format!("{}:{}", o, v)).collect::<Vec<_>>().join(",")
    }
}

impl Relocate<usize> for MapRel {
    fn relocate_address(&self, offset: usize, value: u64) -> gimli::Result<u64> {
        Ok(self.relocate(offset, value))
    }
    fn relocate_offset(&self, offset: usize, value: usize) -> gimli::Result<usize> {
        <usize as gimli::ReaderOffset>::from_u64(self.relocate(offset, value as u64))
    }
}

pub type RR<'a> = RelocateReader<EndianSlice<'a, RunTimeEndian>, MapRel>;

/// The section with the relocations already applied (written independently of the model).
pub fn apply_read_relocs(bytes: &[u8], rels: &[(usize, usize, bool, u64)], big: bool) -> Vec<u8> {
    let mut b = bytes.to_vec();
    for &(pos, w, imp, add) in rels {
        if pos.checked_add(w).map(|e| e > b.len()).unwrap_or(true) {
            continue;
        }
        let v = get(&b, pos, w, big);
        let nv = if imp { v.wrapping_add(add) } else { add };
        put(&mut b, pos, w, nv, big);
    }
    b
}

fn parse_rels(t: &[&str], i: &mut usize) -> Vec<(usize, usize, bool, u64)> {
    let n: usize = t[*i].parse().unwrap();
    *i += 1;
    let mut v = Vec::new();
    for _ in 0..n {
        let f: Vec<&str> = t[*i].split(':').collect();
        v.push((f[0].parse().unwrap(), f[1].parse().unwrap(), f[2] == "1", u(f[3])));
        *i += 1;
    }
    v
}

// ---------------------------------------------------------------- c18.wops

fn z64(tok: &str) -> u64 {
    // decimal, possibly negative (i64) or up to u64
    if let Some(s) = tok.strip_prefix('-') {
        (s.parse::<u64>().unwrap() as i64).wrapping_neg() as u64
    } else {
        tok.parse::<u64>().unwrap()
    }
}

#[derive(Clone, Debug)]
enum Wop {
    B(Vec<u8>),
    At(usize, Vec<u8>),
    U(u64, u8),
    UA(usize, u64, u8),
    Addr(Address, u8),
    Off(usize, SectionId, u8),
    OffAt(usize, usize, SectionId, u8),
    Eh(Address, DwEhPe, u8),
    Ref(usize, u8),
}

fn sect(tok: &str) -> SectionId {
    SECTIONS[tok.parse::<usize>().unwrap() % SECTIONS.len()]
}
fn sz(tok: &str) -> u8 {
    tok.parse::<u8>().unwrap()
}
fn us(tok: &str) -> usize {
    u(tok) as usize
}

fn parse_wops(t: &[&str], i: &mut usize) -> Vec<Wop> {
    let n: usize = t[*i].parse().unwrap();
    *i += 1;
    let mut v = Vec::new();
    for _ in 0..n {
        let k = t[*i];
        let a = &t[*i + 1..];
        let (op, used) = match k {
            "B" => (Wop::B(hex(a[0])), 1),
            "A" => (Wop::At(us(a[0]), hex(a[1])), 2),
            "U" => (Wop::U(u(a[0]), sz(a[1])), 2),
            "UA" => (Wop::UA(us(a[0]), u(a[1]), sz(a[2])), 3),
            "AC" => (Wop::Addr(Address::Constant(u(a[0])), sz(a[1])), 2),
            "AS" => (Wop::Addr(Address::Symbol { symbol: us(a[0]), addend: z64(a[1]) as i64 }, sz(a[2])), 3),
            "O" => (Wop::Off(us(a[0]), sect(a[1]), sz(a[2])), 3),
            "OA" => (Wop::OffAt(us(a[0]), us(a[1]), sect(a[2]), sz(a[3])), 4),
            "EC" => (Wop::Eh(Address::Constant(u(a[0])), DwEhPe(sz(a[1])), sz(a[2])), 3),
            "ES" => (
                Wop::Eh(Address::Symbol { symbol: us(a[0]), addend: z64(a[1]) as i64 }, DwEhPe(sz(a[2])), sz(a[3])),
                4,
            ),
            "R" => (Wop::Ref(us(a[0]), sz(a[1])), 2),
            _ => panic!("bad wop {}", k),
        };
        v.push(op);
        *i += 1 + used;
    }
    v
}

fn run_wops<W: Writer>(w: &mut W, ops: &[Wop]) -> gimli::write::Result<()> {
    for op in ops {
        match op {
            Wop::B(b) => w.write(b)?,
            Wop::At(p, b) => w.write_at(*p, b)?,
            Wop::U(v, s) => w.write_udata(*v, *s)?,
            Wop::UA(p, v, s) => w.write_udata_at(*p, *v, *s)?,
            Wop::Addr(a, s) => w.write_address(*a, *s)?,
            Wop::Off(v, t, s) => w.write_offset(*v, *t, *s)?,
            Wop::OffAt(p, v, t, s) => w.write_offset_at(*p, *v, *t, *s)?,
            Wop::Eh(a, e, s) => w.write_eh_pointer(*a, *e, *s)?,
            Wop::Ref(y, s) => w.write_reference(*y, *s)?,
        }
    }
    Ok(())
}

fn show_reloc(r: &Relocation) -> String {
    format!(
        "{}:{}:{}:{}:{}",
        r.offset,
        r.size,
        match r.target {
            RelocationTarget::Symbol(s) => format!("S{}", s),
            RelocationTarget::Section(s) => format!("T{}", section_index(s)),
        },
        r.addend,
        match r.eh_pe {
            None => "-".to_string(),
            Some(e) => format!("{}", e.0),
        }
    )
}

fn wops(t: &[&str]) -> String {
    let e = endian(t[1]);
    let big = t[1] == "1";
    let owed = t[2] == "1";
    let ns: usize = t[3].parse().unwrap();
    let syms: Vec<u64> = (0..ns).map(|k| u(t[4 + k])).collect();
    let sb = u(t[4 + ns]);
    let mut i = 5 + ns;
    let ops = parse_wops(t, &mut i);
    let env = |tg: &RelocationTarget| -> u64 {
        match tg {
            RelocationTarget::Symbol(s) => syms[*s % syms.len()],
            RelocationTarget::Section(id) => sb.wrapping_mul(section_index(*id) as u64 + 1),
        }
    };
    // direct writing with final values
    let resolve_addr = |a: &Address| match a {
        Address::Constant(v) => Address::Constant(*v),
        Address::Symbol { symbol, addend } => {
            Address::Constant(env(&RelocationTarget::Symbol(*symbol)).wrapping_add(*addend as u64))
        }
    };
    let resolved: Vec<Wop> = ops
        .iter()
        .map(|op| match op {
            Wop::Addr(a, s) => Wop::Addr(resolve_addr(a), *s),
            Wop::Eh(a, p, s) => Wop::Eh(resolve_addr(a), *p, *s),
            Wop::Off(v, id, s) => {
                Wop::Off(env(&RelocationTarget::Section(*id)).wrapping_add(*v as u64) as usize, *id, *s)
            }
            Wop::OffAt(p, v, id, s) => {
                Wop::OffAt(*p, env(&RelocationTarget::Section(*id)).wrapping_add(*v as u64) as usize, *id, *s)
            }
            o => o.clone(),
        })
        .collect();
    let mut pw = EndianVec::new(e);
    let pres = run_wops(&mut pw, &resolved);
    let mut rw = Rec::new(e);
    let rres = run_wops(&mut rw, &ops);
    let ps = match &pres {
        Ok(()) => format!("ok {}", tohex(pw.slice())),
        Err(x) => err(x),
    };
    let (rs, applied) = match &rres {
        Ok(()) => {
            let mut s = format!("ok {} {}", tohex(rw.w.slice()), rw.rel.len());
            for r in &rw.rel {
                s.push(' ');
                s.push_str(&show_reloc(r));
            }
            let mut b = rw.w.slice().to_vec();
            for r in &rw.rel {
                apply_write_reloc(&mut b, r, &env, big);
            }
            (s, Some(b))
        }
        Err(x) => (err(x), None),
    };
    if owed {
        if let (Ok(()), Some(b)) = (&pres, &applied) {
            if b.as_slice() != pw.slice() {
                return format!("relocwrite-mismatch direct={} applied={}", tohex(pw.slice()), tohex(b));
            }
        }
    }
    format!(
        "p {} r {} a {}",
        ps,
        rs,
        match &applied {
            Some(b) => tohex(b),
            None => "x".to_string(),
        }
    )
}

// ---------------------------------------------------------------- c18.rprog

#[derive(Clone, Debug)]
enum Rop {
    U(usize),
    Uleb,
    Sleb,
    Skip(usize),
    Len,
    Addr(u8),
    Off(bool),
    Sized(u8),
    Word(bool),
    Split(usize, usize),
}

fn parse_rops(t: &[&str], i: &mut usize) -> Vec<Rop> {
    let n: usize = t[*i].parse().unwrap();
    *i += 1;
    let mut v = Vec::new();
    for _ in 0..n {
        let k = t[*i];
        let a = &t[*i + 1..];
        let (op, used) = match k {
            "u" => (Rop::U(us(a[0])), 1),
            "uleb" => (Rop::Uleb, 0),
            "sleb" => (Rop::Sleb, 0),
            "skip" => (Rop::Skip(us(a[0])), 1),
            "len" => (Rop::Len, 0),
            "addr" => (Rop::Addr(sz(a[0])), 1),
            "off" => (Rop::Off(a[0] == "1"), 1),
            "soff" => (Rop::Sized(sz(a[0])), 1),
            "word" => (Rop::Word(a[0] == "1"), 1),
            "split" => (Rop::Split(us(a[0]), us(a[1])), 2),
            _ => panic!("bad rop {}", k),
        };
        v.push(op);
        *i += 1 + used;
    }
    v
}

fn fmt_of(b: bool) -> Format {
    if b {
        Format::Dwarf64
    } else {
        Format::Dwarf32
    }
}

fn exec<R: Reader<Offset = usize>>(ops: &[Rop], r: &mut R, acc: &mut Vec<u64>) -> gimli::Result<()> {
    let mut i = 0;
    while i < ops.len() {
        match &ops[i] {
            Rop::U(1) => acc.push(r.read_u8()? as u64),
            Rop::U(2) => acc.push(r.read_u16()? as u64),
            Rop::U(4) => acc.push(r.read_u32()? as u64),
            Rop::U(_) => acc.push(r.read_u64()?),
            Rop::Uleb => acc.push(r.read_uleb128()?),
            Rop::Sleb => acc.push(r.read_sleb128()? as u64),
            Rop::Skip(n) => r.skip(*n)?,
            Rop::Len => acc.push(r.len() as u64),
            Rop::Addr(s) => acc.push(r.read_address(*s)?),
            Rop::Off(f) => acc.push(r.read_offset(fmt_of(*f))? as u64),
            Rop::Sized(s) => acc.push(r.read_sized_offset(*s)? as u64),
            Rop::Word(f) => acc.push(r.read_word(fmt_of(*f))? as u64),
            Rop::Split(len, cnt) => {
                let mut head = r.split(*len)?;
                let end = (i + 1 + *cnt).min(ops.len());
                exec(&ops[i + 1..end], &mut head, acc)?;
                i = end;
                continue;
            }
        }
        i += 1;
    }
    Ok(())
}

fn run_prog<R: Reader<Offset = usize>>(ops: &[Rop], r: R) -> String {
    let base = r.clone();
    let mut r = r;
    let mut acc = Vec::new();
    match exec(ops, &mut r, &mut acc) {
        Ok(()) => format!(
            "ok {} {} {}",
            if acc.is_empty() { "-".to_string() } else { acc.iter().map(|x| x.to_string()).collect::<Vec<_>>().join(",") },
            r.offset_from(&base),
            r.len()
        ),
        Err(e) => err(&e),
    }
}

/// Both readings of one case: through RelocateReader on the raw bytes, plainly on the applied bytes.
fn both_ways(
    t: &[&str],
    bytes: &[u8],
    rels: &[(usize, usize, bool, u64)],
    f: &dyn Fn(Result<RR<'_>, EndianSlice<'_, RunTimeEndian>>) -> String,
) -> String {
    let e = endian(t[1]);
    let owed = t[2] == "1";
    let rel = MapRel::new(rels);
    let rr = f(Ok(RelocateReader::new(EndianSlice::new(bytes, e), rel.clone())));
    let applied = apply_read_relocs(bytes, rels, t[1] == "1");
    let pr = f(Err(EndianSlice::new(&applied, e)));
    if owed && rr != pr {
        return format!("relocread-mismatch reloc=[{}] applied=[{}]", rr, pr);
    }
    format!("r {} p {} s {}", rr, pr, rel.sites())
}

fn rprog(t: &[&str]) -> String {
    let bytes = hex(t[3]);
    let mut i = 4;
    let rels = parse_rels(t, &mut i);
    let ops = parse_rops(t, &mut i);
    both_ways(t, &bytes, &rels, &|r| match r {
        Ok(r) => run_prog(&ops, r),
        Err(r) => run_prog(&ops, r),
    })
}

// ---------------------------------------------------------------- c18.hdr

fn show_header<R: Reader<Offset = usize>>(h: gimli::Result<Option<gimli::UnitHeader<R>>>) -> String {
    match h {
        Ok(Some(h)) => {
            let (ut, a, b) = match h.type_() {
                gimli::UnitType::Compilation => (1, 0, 0),
                gimli::UnitType::Type { type_signature, type_offset } => (2, type_signature.0, type_offset.0 as u64),
                gimli::UnitType::Partial => (3, 0, 0),
                gimli::UnitType::Skeleton(id) => (4, id.0, 0),
                gimli::UnitType::SplitCompilation(id) => (5, id.0, 0),
                gimli::UnitType::SplitType { type_signature, type_offset } => (6, type_signature.0, type_offset.0 as u64),
            };
            format!(
                "ok {},{},{},{},{},{},{},{},{}",
                h.format().word_size(),
                h.version(),
                h.address_size(),
                ut,
                h.debug_abbrev_offset().0,
                a,
                b,
                h.unit_length(),
                h.length_including_self() - h.header_size()
            )
        }
        Ok(None) => "none".into(),
        Err(e) => err(&e),
    }
}

fn hdr(t: &[&str]) -> String {
    let types = t[3] == "1";
    let bytes = hex(t[4]);
    let mut i = 5;
    let rels = parse_rels(t, &mut i);
    fn one<R: Reader<Offset = usize>>(r: R, types: bool) -> String {
        if types {
            show_header(gimli::DebugTypes::from(r).units().next())
        } else {
            show_header(gimli::DebugInfo::from(r).units().next())
        }
    }
    both_ways(t, &bytes, &rels, &|r| match r {
        Ok(r) => one(r, types),
        Err(r) => one(r, types),
    })
}

// ---------------------------------------------------------------- c18.ranges

fn ranges(t: &[&str]) -> String {
    let asz: u8 = t[3].parse().unwrap();
    let bytes = hex(t[4]);
    let mut i = 5;
    let rels = parse_rels(t, &mut i);
    fn one<R: Reader<Offset = usize>>(r: R, asz: u8) -> String {
        let mut empty = r.clone();
        empty.empty();
        let rl = gimli::RangeLists::new(gimli::DebugRanges::from(r), gimli::DebugRngLists::from(empty));
        let enc = gimli::Encoding { format: Format::Dwarf32, version: 4, address_size: asz };
        let mut it = match rl.raw_ranges(gimli::RangeListsOffset(0), enc) {
            Ok(it) => it,
            Err(e) => return err(&e),
        };
        let mut out: Vec<String> = Vec::new();
        loop {
            match it.next() {
                Ok(None) => break,
                Ok(Some(gimli::RawRngListEntry::BaseAddress { addr })) => out.push(format!("1,{}", addr)),
                Ok(Some(gimli::RawRngListEntry::AddressOrOffsetPair { begin, end })) => {
                    out.push(format!("2,{},{}", begin, end))
                }
                Ok(Some(_)) => out.push("other".into()),
                Err(e) => return err(&e),
            }
        }
        format!("ok {}", if out.is_empty() { "-".to_string() } else { out.join(",") })
    }
    both_ways(t, &bytes, &rels, &|r| match r {
        Ok(r) => one(r, asz),
        Err(r) => one(r, asz),
    })
}


// ================================================================ oracle streams
// c18.write: abstract units / line programs / lists / frame tables built with gimli::write twice —
// into plain EndianVec sections with constant addresses, and through the recording RelocateWriter with
// Address::Symbol for the same addresses — then
//   (a) recorded relocations applied to the recorded bytes == direct bytes        (relocwrite-mismatch)
//   (b) set of recorded sites == set of offsets the readers hand to Relocate       (relocsites-mismatch)
//   (c) semantic dump through RelocateReader on the UNRELOCATED bytes == dump of a plain reader on
//       pre-applied bytes, for the symbol assignment used in (a) and for a perturbed one, with explicit
//       (RELA) and in-place (REL) addends                                           (relocread-mismatch)
// c18.corpus: compiler-built sections through RelocateReader with the identity relocation vs plainly.

use gimli::write as gw;
use std::fmt::Write as _;

const WSECS: [SectionId; 11] = [
    SectionId::DebugAbbrev,
    SectionId::DebugInfo,
    SectionId::DebugLine,
    SectionId::DebugLineStr,
    SectionId::DebugRanges,
    SectionId::DebugRngLists,
    SectionId::DebugLoc,
    SectionId::DebugLocLists,
    SectionId::DebugStr,
    SectionId::DebugFrame,
    SectionId::EhFrame,
];

struct WP {
    e: RunTimeEndian,
    big: bool,
    enc: gimli::Encoding,
    seed: u64,
    nunits: usize,
    ndies: usize,
    flags: u64,
    cfi: u64,
    ncie: usize,
    nfde: usize,
}

const F_LOWPC: u64 = 1;
const F_STRP: u64 = 2;
const F_LINE: u64 = 4;
const F_RANGES: u64 = 8;
const F_LOCS: u64 = 16;
const F_XREF: u64 = 32;
const F_OPADDR: u64 = 64;
const F_LINESTRP: u64 = 128;
const F_SUP: u64 = 256;
const F_MACRO: u64 = 512;

const NSYM: usize = 6;

/// final address of symbol i under assignment `which`
fn symaddr(p: &WP, which: u64, i: usize) -> u64 {
    let mut r = Rng(p.seed ^ (0x5151 * (which + 1)) ^ ((i as u64) << 32));
    let page = 1 + r.below(if p.enc.address_size == 4 || p.cfi == 3 { 0x7000 } else { 0x7000_0000 });
    page * 0x1000 + 0x100 * (i as u64 % NSYM as u64)
}

fn mkaddr(p: &WP, sym: bool, i: usize, off: i64) -> gw::Address {
    let i = i % NSYM;
    if sym {
        gw::Address::Symbol { symbol: i, addend: off }
    } else {
        gw::Address::Constant(symaddr(p, 0, i).wrapping_add(off as u64))
    }
}

fn build(p: &WP, sym: bool) -> Result<(gw::Dwarf, gw::FrameTable, usize), gw::Error> {
    let enc = p.enc;
    let mut rng = Rng(p.seed);
    let mut dwarf = gw::Dwarf::new();
    // pass 1: units with their line programs and DIE skeletons
    let mut ids: Vec<(gw::UnitId, Vec<gw::UnitEntryId>)> = Vec::new();
    for u in 0..p.nunits {
        let lp = if p.flags & F_LINE != 0 {
            let kind = if enc.version >= 5 { rng.below(3) } else { 0 };
            let mk = |dwarf: &mut gw::Dwarf, s: &[u8]| -> gw::LineString {
                match kind {
                    0 => gw::LineString::String(s.to_vec()),
                    1 => gw::LineString::StringRef(dwarf.strings.add(s.to_vec())),
                    _ => gw::LineString::LineStringRef(dwarf.line_strings.add(s.to_vec())),
                }
            };
            let dir = mk(&mut dwarf, format!("/dir{}", u).as_bytes());
            let file = mk(&mut dwarf, format!("unit{}.c", u).as_bytes());
            let mut lp = gw::LineProgram::new(enc, gimli::LineEncoding::default(), dir, None, file, None);
            let d2 = mk(&mut dwarf, b"inc");
            let did = lp.add_directory(d2);
            let f2 = mk(&mut dwarf, format!("h{}.h", u).as_bytes());
            let fid = lp.add_file(f2, did, None);
            let nseq = 1 + rng.below(3);
            for s in 0..nseq {
                let a = mkaddr(p, sym, (u + s as usize) % NSYM, (rng.below(64) * 4) as i64);
                lp.begin_sequence(Some(a));
                let nrows = 1 + rng.below(5);
                for _ in 0..nrows {
                    lp.row().file = fid;
                    lp.row().line += 1 + rng.below(20);
                    lp.row().address_offset += rng.below(30);
                    lp.generate_row();
                    if rng.below(9) == 0 {
                        // a second DW_LNE_set_address inside the sequence
                        let off = lp.row().address_offset as i64 + 0x100;
                        let _ = off;
                    }
                }
                let end = lp.row().address_offset + 1 + rng.below(8);
                lp.end_sequence(end);
            }
            lp
        } else {
            gw::LineProgram::none()
        };
        let uid = dwarf.units.add(gw::Unit::new(enc, lp));
        let unit = dwarf.units.get_mut(uid);
        let root = unit.root();
        let mut ents = vec![root];
        for d in 0..p.ndies {
            let parent = if d > 0 && rng.below(3) == 0 { ents[1 + rng.below(d as u64) as usize] } else { root };
            let tag = [gimli::DW_TAG_subprogram, gimli::DW_TAG_variable, gimli::DW_TAG_lexical_block, gimli::DW_TAG_base_type]
                [rng.below(4) as usize];
            ents.push(unit.add(parent, tag));
        }
        ids.push((uid, ents));
    }
    // pass 2: attributes
    for u in 0..p.nunits {
        let (uid, ents) = ids[u].clone();
        let name = format!("unit{}.c", u).into_bytes();
        let name_v = if p.flags & F_STRP != 0 {
            gw::AttributeValue::StringRef(dwarf.strings.add(name))
        } else {
            gw::AttributeValue::String(name)
        };
        let ls = if p.flags & F_LINESTRP != 0 && enc.version >= 5 {
            Some(gw::AttributeValue::LineStringRef(dwarf.line_strings.add(format!("/comp{}", u).into_bytes())))
        } else {
            None
        };
        let nun = p.nunits;
        let other = ids[(u + 1) % nun].clone();
        let unit = dwarf.units.get_mut(uid);
        let root = ents[0];
        unit.get_mut(root).set(gimli::DW_AT_name, name_v);
        if let Some(v) = ls {
            unit.get_mut(root).set(gimli::DW_AT_comp_dir, v);
        }
        let lowpc = p.flags & F_LOWPC != 0;
        if lowpc {
            unit.get_mut(root).set(gimli::DW_AT_low_pc, gw::AttributeValue::Address(mkaddr(p, sym, u, 0)));
        }
        let v5 = enc.version >= 5;
        let mk_ranges = |rng: &mut Rng| -> gw::RangeList {
            let mut v = Vec::new();
            let n = 1 + rng.below(3);
            let style = rng.below(3);
            if lowpc && !v5 {
                for k in 0..n {
                    v.push(gw::Range::OffsetPair { begin: 16 * k, end: 16 * k + 1 + rng.below(12) });
                }
            } else if style == 0 {
                v.push(gw::Range::BaseAddress { address: mkaddr(p, sym, rng.below(6) as usize, 0x40) });
                for k in 0..n {
                    v.push(gw::Range::OffsetPair { begin: 16 * k, end: 16 * k + 1 + rng.below(12) });
                }
            } else {
                for _ in 0..n {
                    let s = rng.below(6) as usize;
                    let off = (rng.below(50) * 8) as i64;
                    if rng.below(2) == 0 {
                        v.push(gw::Range::StartEnd { begin: mkaddr(p, sym, s, off), end: mkaddr(p, sym, s, off + 1 + rng.below(40) as i64) });
                    } else {
                        v.push(gw::Range::StartLength { begin: mkaddr(p, sym, s, off), length: 1 + rng.below(40) });
                    }
                }
            }
            gw::RangeList(v)
        };
        let mk_expr = |rng: &mut Rng| -> gw::Expression {
            let mut e = gw::Expression::new();
            if p.flags & F_OPADDR != 0 && rng.below(2) == 0 {
                e.op_addr(mkaddr(p, sym, rng.below(6) as usize, (rng.below(100) as i64) - 20));
                if rng.below(2) == 0 {
                    e.op_plus_uconst(rng.below(300));
                }
            } else {
                e.op_fbreg(-(rng.below(200) as i64));
            }
            e
        };
        let mk_locs = |rng: &mut Rng| -> gw::LocationList {
            let mut v = Vec::new();
            let n = 1 + rng.below(3);
            let style = rng.below(3);
            if lowpc && !v5 {
                for k in 0..n {
                    v.push(gw::Location::OffsetPair { begin: 16 * k, end: 16 * k + 1 + rng.below(12), data: mk_expr(rng) });
                }
            } else if style == 0 {
                v.push(gw::Location::BaseAddress { address: mkaddr(p, sym, rng.below(6) as usize, 0x80) });
                for k in 0..n {
                    v.push(gw::Location::OffsetPair { begin: 16 * k, end: 16 * k + 1 + rng.below(12), data: mk_expr(rng) });
                }
            } else {
                for _ in 0..n {
                    let s = rng.below(6) as usize;
                    let off = (rng.below(50) * 8) as i64;
                    if rng.below(2) == 0 {
                        v.push(gw::Location::StartEnd {
                            begin: mkaddr(p, sym, s, off),
                            end: mkaddr(p, sym, s, off + 1 + rng.below(40) as i64),
                            data: mk_expr(rng),
                        });
                    } else {
                        v.push(gw::Location::StartLength { begin: mkaddr(p, sym, s, off), length: 1 + rng.below(40), data: mk_expr(rng) });
                    }
                }
                if v5 && rng.below(3) == 0 {
                    v.push(gw::Location::DefaultLocation { data: mk_expr(rng) });
                }
            }
            gw::LocationList(v)
        };
        if p.flags & F_RANGES != 0 {
            let rl = mk_ranges(&mut rng);
            let id = unit.ranges.add(rl);
            unit.get_mut(root).set(gimli::DW_AT_ranges, gw::AttributeValue::RangeListRef(id));
        }
        for (d, &e) in ents.iter().enumerate().skip(1) {
            let nattr = 1 + rng.below(5);
            for _ in 0..nattr {
                match rng.below(17) {
                    0 | 1 => {
                        unit.get_mut(e).set(gimli::DW_AT_low_pc, gw::AttributeValue::Address(mkaddr(p, sym, d, (rng.below(64) * 4) as i64 - 8)));
                        unit.get_mut(e).set(gimli::DW_AT_high_pc, gw::AttributeValue::Udata(1 + rng.below(100)));
                    }
                    2 => {
                        let s = format!("n{}_{}", u, rng.below(4)).into_bytes();
                        let v = if p.flags & F_STRP != 0 { gw::AttributeValue::StringRef(dwarf.strings.add(s)) } else { gw::AttributeValue::String(s) };
                        unit.get_mut(e).set(gimli::DW_AT_name, v);
                    }
                    3 => {
                        if p.flags & F_LINESTRP != 0 && v5 {
                            let v = gw::AttributeValue::LineStringRef(dwarf.line_strings.add(format!("ls{}", rng.below(3)).into_bytes()));
                            unit.get_mut(e).set(gimli::DW_AT_linkage_name, v);
                        }
                    }
                    4 => {
                        if p.flags & F_LOCS != 0 && unit.get(e).get(gimli::DW_AT_location).is_none() {
                            let ll = mk_locs(&mut rng);
                            let id = unit.locations.add(ll);
                            unit.get_mut(e).set(gimli::DW_AT_location, gw::AttributeValue::LocationListRef(id));
                        }
                    }
                    5 => {
                        let ex = mk_expr(&mut rng);
                        if unit.get(e).get(gimli::DW_AT_frame_base).is_none() {
                            unit.get_mut(e).set(gimli::DW_AT_frame_base, gw::AttributeValue::Exprloc(ex));
                        }
                    }
                    6 => {
                        if d > 1 {
                            let t = ents[1 + rng.below(d as u64 - 1) as usize];
                            unit.get_mut(e).set(gimli::DW_AT_type, gw::AttributeValue::UnitRef(t));
                        }
                    }
                    7 => {
                        if p.flags & F_XREF != 0 {
                            let t = other.1[rng.below(other.1.len() as u64) as usize];
                            unit.get_mut(e).set(
                                gimli::DW_AT_abstract_origin,
                                gw::AttributeValue::DebugInfoRef(gw::DebugInfoRef::Entry(other.0, t)),
                            );
                        }
                    }
                    8 => {
                        if p.flags & F_RANGES != 0 && unit.get(e).get(gimli::DW_AT_ranges).is_none() {
                            let rl = mk_ranges(&mut rng);
                            let id = unit.ranges.add(rl);
                            unit.get_mut(e).set(gimli::DW_AT_ranges, gw::AttributeValue::RangeListRef(id));
                        }
                    }
                    9 => {
                        if p.flags & F_SUP != 0 {
                            unit.get_mut(e).set(gimli::DW_AT_import, gw::AttributeValue::DebugInfoRefSup(gimli::DebugInfoOffset(11 + rng.below(90) as usize)));
                            unit.get_mut(e).set(gimli::DW_AT_description, gw::AttributeValue::DebugStrRefSup(gimli::DebugStrOffset(rng.below(90) as usize)));
                        }
                    }
                    10 => {
                        if p.flags & F_MACRO != 0 {
                            if v5 {
                                unit.get_mut(e).set(gimli::DW_AT_macros, gw::AttributeValue::DebugMacroRef(gimli::DebugMacroOffset(rng.below(90) as usize)));
                            } else {
                                unit.get_mut(e).set(gimli::DW_AT_macro_info, gw::AttributeValue::DebugMacinfoRef(gimli::DebugMacinfoOffset(rng.below(90) as usize)));
                            }
                        }
                    }
                    11 => {
                        unit.get_mut(e).set(gimli::DW_AT_entry_pc, gw::AttributeValue::Address(mkaddr(p, sym, d + 1, rng.below(16) as i64)));
                    }
                    12 => {
                        unit.get_mut(e).set(gimli::DW_AT_decl_line, gw::AttributeValue::Udata(rng.below(5000)));
                    }
                    13 | 14 => {
                        // every attribute name whose classes include loclistptr: in DWARF 2/3 the writer emits
                        // DW_FORM_data4/data8 for it, which the reader must still treat as a section offset
                        let names = [
                            gimli::DW_AT_location,
                            gimli::DW_AT_string_length,
                            gimli::DW_AT_return_addr,
                            gimli::DW_AT_frame_base,
                            gimli::DW_AT_segment,
                            gimli::DW_AT_static_link,
                            gimli::DW_AT_use_location,
                            gimli::DW_AT_vtable_elem_location,
                            gimli::DW_AT_data_member_location,
                        ];
                        let nm = names[rng.below(names.len() as u64) as usize];
                        if p.flags & F_LOCS != 0 && unit.get(e).get(nm).is_none() {
                            let ll = mk_locs(&mut rng);
                            let id = unit.locations.add(ll);
                            unit.get_mut(e).set(nm, gw::AttributeValue::LocationListRef(id));
                        }
                    }
                    15 => {
                        if p.flags & F_RANGES != 0 && unit.get(e).get(gimli::DW_AT_start_scope).is_none() {
                            let rl = mk_ranges(&mut rng);
                            let id = unit.ranges.add(rl);
                            unit.get_mut(e).set(gimli::DW_AT_start_scope, gw::AttributeValue::RangeListRef(id));
                        }
                    }
                    _ => {
                        unit.get_mut(e).set(gimli::DW_AT_external, gw::AttributeValue::Flag(true));
                    }
                }
            }
        }
    }
    // frame table
    let mut ft = gw::FrameTable::default();
    if p.cfi != 0 {
        let eh = p.cfi >= 2;
        let cfi_enc = gimli::Encoding { format: enc.format, version: if eh { 1 } else { [1u16, 3, 4][(p.seed % 3) as usize] }, address_size: enc.address_size };
        let mut cids = Vec::new();
        for c in 0..p.ncie.max(1) {
            let mut cie = gw::CommonInformationEntry::new(cfi_enc, 1, -8, gimli::Register(16 + c as u16));
            cie.add_instruction(gw::CallFrameInstruction::Cfa(gimli::Register(7), 8));
            cie.add_instruction(gw::CallFrameInstruction::Offset(gimli::Register(16), -8));
            if p.cfi == 3 {
                cie.fde_address_encoding = gimli::DwEhPe(0x1b); // pcrel | sdata4
            }
            if p.cfi == 4 {
                // absptr addresses, augmentation with personality and LSDA (absptr)
                cie.personality = Some((gimli::DW_EH_PE_absptr, mkaddr(p, sym, 5, 0x10)));
                cie.lsda_encoding = Some(gimli::DW_EH_PE_absptr);
            }
            cids.push(ft.add_cie(cie));
        }
        for f in 0..p.nfde {
            let cid = cids[rng.below(cids.len() as u64) as usize];
            let mut fde = gw::FrameDescriptionEntry::new(mkaddr(p, sym, f, (f as i64) * 0x40), 0x20 + rng.below(0x20) as u32);
            if p.cfi == 4 {
                fde.lsda = Some(mkaddr(p, sym, (f + 2) % NSYM, 0x8));
            }
            fde.add_instruction(1 + rng.below(4) as u32, gw::CallFrameInstruction::CfaOffset(16));
            fde.add_instruction(6 + rng.below(4) as u32, gw::CallFrameInstruction::Offset(gimli::Register(6), -16));
            ft.add_fde(cid, fde);
        }
    }
    // attributes written with a plain primitive although the reader uses read_offset for them
    // (offsets into the supplementary object file): the only expected .debug_info sites without a relocation
    let mut nsup = 0usize;
    for (uid, ents) in &ids {
        let unit = dwarf.units.get(*uid);
        for e in ents {
            for a in unit.get(*e).attrs() {
                if matches!(a.get(), gw::AttributeValue::DebugStrRefSup(_)) {
                    nsup += 1;
                }
            }
        }
    }
    Ok((dwarf, ft, nsup))
}

fn write_all<W: Writer + Clone>(p: &WP, sym: bool, w: W) -> Result<(gw::Sections<W>, usize), gw::Error> {
    let (mut dwarf, ft, nsup) = build(p, sym)?;
    let mut sections = gw::Sections::new(w);
    dwarf.write(&mut sections)?;
    if p.cfi == 1 {
        ft.write_debug_frame(&mut sections.debug_frame)?;
    } else if p.cfi >= 2 {
        ft.write_eh_frame(&mut sections.eh_frame)?;
    }
    Ok((sections, nsup))
}

// ---------------------------------------------------------------- semantic dump, generic in the reader

fn hexr<R: Reader<Offset = usize>>(r: &R) -> String {
    match r.to_slice() {
        Ok(b) => tohex(&b),
        Err(_) => "?".into(),
    }
}

fn fmt_op<R: Reader<Offset = usize>>(op: &gimli::Operation<R>) -> String {
    match op {
        gimli::Operation::ImplicitValue { data } => format!("ImplicitValue({})", hexr(data)),
        gimli::Operation::EntryValue { expression } => format!("EntryValue({})", hexr(expression)),
        gimli::Operation::TypedLiteral { base_type, value } => format!("TypedLiteral({},{})", base_type.0, hexr(value)),
        other => format!("{:?}", other),
    }
}

fn fmt_expr<R: Reader<Offset = usize>>(e: &gimli::Expression<R>, enc: gimli::Encoding) -> String {
    let mut s = String::from("[");
    let mut ops = e.clone().operations(enc);
    loop {
        match ops.next() {
            Ok(Some(op)) => {
                s.push_str(&fmt_op(&op));
                s.push(';');
            }
            Ok(None) => break,
            Err(e) => {
                s.push_str(&format!("!{}", errname(&e)));
                break;
            }
        }
    }
    s.push(']');
    s
}

fn fmt_value<R: Reader<Offset = usize>>(v: &gimli::AttributeValue<R>, enc: gimli::Encoding) -> String {
    match v {
        gimli::AttributeValue::Block(b) => format!("Block({})", hexr(b)),
        gimli::AttributeValue::String(b) => format!("String({})", hexr(b)),
        gimli::AttributeValue::Exprloc(e) => format!("Exprloc{}", fmt_expr(e, enc)),
        other => format!("{:?}", other),
    }
}

fn dump_dwarf<R: Reader<Offset = usize>>(d: &gimli::Dwarf<R>, out: &mut String, cap: usize) {
    let mut units = d.units();
    let mut n = 0usize;
    loop {
        let header = match units.next() {
            Ok(Some(h)) => h,
            Ok(None) => break,
            Err(e) => {
                let _ = writeln!(out, "units!{}", errname(&e));
                break;
            }
        };
        let _ = writeln!(out, "unit {:?} v{} len{} abbrev{}", header.offset(), header.version(), header.unit_length(), header.debug_abbrev_offset().0);
        let unit = match d.unit(header) {
            Ok(u) => u,
            Err(e) => {
                let _ = writeln!(out, "unit!{}", errname(&e));
                continue;
            }
        };
        let enc = unit.encoding();
        let _ = writeln!(out, " low_pc{} name{:?} line{}", unit.low_pc, unit.name.as_ref().map(hexr), unit.line_program.is_some());
        let mut cur = unit.entries();
        loop {
            match cur.next_dfs() {
                Ok(Some(entry)) => {
                    n += 1;
                    if n > cap {
                        let _ = writeln!(out, " capped");
                        return;
                    }
                    let _ = writeln!(out, " die {} {:?}", entry.offset().0, entry.tag());
                    for a in entry.attrs() {
                        let v = a.value();
                        let _ = write!(out, "  {:?} {:?} {}", a.name(), a.form(), fmt_value(&v, enc));
                        if let Ok(s) = d.attr_string(&unit, v.clone()) {
                            let _ = write!(out, " str={}", hexr(&s));
                        }
                        match d.attr_ranges(&unit, v.clone()) {
                            Ok(Some(mut it)) => {
                                let _ = write!(out, " ranges=");
                                loop {
                                    match it.next() {
                                        Ok(Some(r)) => {
                                            let _ = write!(out, "{:x}-{:x},", r.begin, r.end);
                                        }
                                        Ok(None) => break,
                                        Err(e) => {
                                            let _ = write!(out, "!{}", errname(&e));
                                            break;
                                        }
                                    }
                                }
                            }
                            Ok(None) => {}
                            Err(e) => {
                                let _ = write!(out, " ranges!{}", errname(&e));
                            }
                        }
                        if matches!(a.name(), gimli::DW_AT_location | gimli::DW_AT_frame_base | gimli::DW_AT_data_member_location | gimli::DW_AT_call_value | gimli::DW_AT_string_length | gimli::DW_AT_return_addr | gimli::DW_AT_segment | gimli::DW_AT_static_link | gimli::DW_AT_use_location | gimli::DW_AT_vtable_elem_location) {
                            match d.attr_locations(&unit, v.clone()) {
                                Ok(Some(mut it)) => {
                                    let _ = write!(out, " locs=");
                                    loop {
                                        match it.next() {
                                            Ok(Some(l)) => {
                                                let _ = write!(out, "{:x}-{:x}{},", l.range.begin, l.range.end, fmt_expr(&l.data, enc));
                                            }
                                            Ok(None) => break,
                                            Err(e) => {
                                                let _ = write!(out, "!{}", errname(&e));
                                                break;
                                            }
                                        }
                                    }
                                }
                                Ok(None) => {}
                                Err(e) => {
                                    let _ = write!(out, " locs!{}", errname(&e));
                                }
                            }
                        }
                        let _ = writeln!(out);
                    }
                }
                Ok(None) => break,
                Err(e) => {
                    let _ = writeln!(out, " entries!{}", errname(&e));
                    break;
                }
            }
        }
        if let Some(lp) = unit.line_program.clone() {
            let h = lp.header().clone();
            let _ = write!(out, " line v{} dirs=", h.version());
            for dir in h.include_directories() {
                match d.attr_string(&unit, dir.clone()) {
                    Ok(s) => {
                        let _ = write!(out, "{},", hexr(&s));
                    }
                    Err(e) => {
                        let _ = write!(out, "!{},", errname(&e));
                    }
                }
            }
            let _ = write!(out, " files=");
            for f in h.file_names() {
                match d.attr_string(&unit, f.path_name()) {
                    Ok(s) => {
                        let _ = write!(out, "{}:{},", hexr(&s), f.directory_index());
                    }
                    Err(e) => {
                        let _ = write!(out, "!{},", errname(&e));
                    }
                }
            }
            let _ = writeln!(out);
            let mut rows = lp.rows();
            let mut k = 0;
            loop {
                match rows.next_row() {
                    Ok(Some((_, r))) => {
                        k += 1;
                        if k > cap {
                            break;
                        }
                        let _ = writeln!(out, "  row {:x} f{} l{:?} {}{}", r.address(), r.file_index(), r.line(), if r.is_stmt() { "s" } else { "" }, if r.end_sequence() { "E" } else { "" });
                    }
                    Ok(None) => break,
                    Err(e) => {
                        let _ = writeln!(out, "  rows!{}", errname(&e));
                        break;
                    }
                }
            }
        }
    }
}

fn dump_cfi<R: Reader<Offset = usize>, S: gimli::UnwindSection<R>>(sec: &S, bases: &gimli::BaseAddresses, out: &mut String, cap: usize)
where
    S::Offset: gimli::UnwindOffset<usize>,
{
    let mut it = sec.entries(bases);
    let mut n = 0;
    loop {
        n += 1;
        if n > cap {
            break;
        }
        match it.next() {
            Ok(Some(gimli::CieOrFde::Cie(c))) => {
                let _ = write!(out, "cie {} v{} ca{} da{} ra{:?} pers{:?} lsda{:?} fenc{:?} ins=", c.offset(), c.version(), c.code_alignment_factor(), c.data_alignment_factor(), c.return_address_register(), c.personality(), c.lsda_encoding(), c.fde_address_encoding());
                let mut ins = c.instructions(sec, bases);
                loop {
                    match ins.next() {
                        Ok(Some(i)) => {
                            let _ = write!(out, "{};", fmt_cfi(&i));
                        }
                        Ok(None) => break,
                        Err(e) => {
                            let _ = write!(out, "!{}", errname(&e));
                            break;
                        }
                    }
                }
                let _ = writeln!(out);
            }
            Ok(Some(gimli::CieOrFde::Fde(pf))) => match pf.parse(|s, b, o| s.cie_from_offset(b, o)) {
                Ok(f) => {
                    let _ = write!(out, "fde {} cie{} addr{:x} len{:x} lsda{:?} ins=", f.offset(), f.cie().offset(), f.initial_address(), f.len(), f.lsda());
                    let mut ins = f.instructions(sec, bases);
                    loop {
                        match ins.next() {
                            Ok(Some(i)) => {
                                let _ = write!(out, "{};", fmt_cfi(&i));
                            }
                            Ok(None) => break,
                            Err(e) => {
                                let _ = write!(out, "!{}", errname(&e));
                                break;
                            }
                        }
                    }
                    let _ = writeln!(out);
                }
                Err(e) => {
                    let _ = writeln!(out, "fde!{}", errname(&e));
                }
            },
            Ok(None) => break,
            Err(e) => {
                let _ = writeln!(out, "cfi!{}", errname(&e));
                break;
            }
        }
    }
}

fn fmt_cfi<T: gimli::ReaderOffset>(i: &gimli::CallFrameInstruction<T>) -> String {
    // expressions are offsets into the section (no reader inside)
    format!("{:?}", i)
}

fn dump_misc<R: Reader<Offset = usize>>(get: &dyn Fn(SectionId) -> R, out: &mut String, cap: usize) {
    // .debug_aranges
    let ar = gimli::DebugAranges::from(get(SectionId::DebugAranges));
    let mut hs = ar.headers();
    let mut n = 0;
    loop {
        match hs.next() {
            Ok(Some(h)) => {
                let _ = write!(out, "aranges info{} ", h.debug_info_offset().0);
                let mut es = h.entries();
                loop {
                    n += 1;
                    if n > cap {
                        break;
                    }
                    match es.next() {
                        Ok(Some(e)) => {
                            let _ = write!(out, "{:x}+{:x},", e.address(), e.length());
                        }
                        Ok(None) => break,
                        Err(e) => {
                            let _ = write!(out, "!{}", errname(&e));
                            break;
                        }
                    }
                }
                let _ = writeln!(out);
            }
            Ok(None) => break,
            Err(e) => {
                let _ = writeln!(out, "aranges!{}", errname(&e));
                break;
            }
        }
    }
    // .debug_pubnames / .debug_pubtypes
    let pn = gimli::DebugPubNames::from(get(SectionId::DebugPubNames));
    let mut it = pn.items();
    let mut n = 0;
    loop {
        n += 1;
        if n > cap {
            break;
        }
        match it.next() {
            Ok(Some(e)) => {
                let _ = writeln!(out, "pubname {} u{} d{}", hexr(e.name()), e.unit_header_offset().0, e.die_offset().0);
            }
            Ok(None) => break,
            Err(e) => {
                let _ = writeln!(out, "pubnames!{}", errname(&e));
                break;
            }
        }
    }
    let pt = gimli::DebugPubTypes::from(get(SectionId::DebugPubTypes));
    let mut it = pt.items();
    let mut n = 0;
    loop {
        n += 1;
        if n > cap {
            break;
        }
        match it.next() {
            Ok(Some(e)) => {
                let _ = writeln!(out, "pubtype {} u{} d{}", hexr(e.name()), e.unit_header_offset().0, e.die_offset().0);
            }
            Ok(None) => break,
            Err(e) => {
                let _ = writeln!(out, "pubtypes!{}", errname(&e));
                break;
            }
        }
    }
}

fn dump_all<R: Reader<Offset = usize>>(get: &dyn Fn(SectionId) -> R, cap: usize, asz: u8) -> String {
    dump_all_ft(get, cap, true, false, asz)
}

fn dump_all_ft<R: Reader<Offset = usize>>(get: &dyn Fn(SectionId) -> R, cap: usize, cfi: bool, dwo: bool, asz: u8) -> String {
    let mut out = String::new();
    let mut d: gimli::Dwarf<R> = gimli::Dwarf::load(|id| -> Result<R, gimli::Error> { Ok(get(id)) }).unwrap();
    if dwo {
        d.file_type = gimli::DwarfFileType::Dwo;
    }
    dump_dwarf(&d, &mut out, cap);
    if cfi {
        let bases = gimli::BaseAddresses::default().set_eh_frame(0).set_text(0).set_got(0);
        let mut df = gimli::DebugFrame::from(get(SectionId::DebugFrame));
        df.set_address_size(asz);
        dump_cfi(&df, &bases, &mut out, cap);
        let mut eh = gimli::EhFrame::from(get(SectionId::EhFrame));
        eh.set_address_size(asz);
        dump_cfi(&eh, &bases, &mut out, cap);
    }
    dump_misc(get, &mut out, cap);
    out
}

fn first_diff(a: &str, b: &str) -> String {
    for (x, y) in a.lines().zip(b.lines()) {
        if x != y {
            return format!("reloc=[{}] applied=[{}]", x.trim().replace(' ', "_"), y.trim().replace(' ', "_"));
        }
    }
    format!("lines {} vs {}", a.lines().count(), b.lines().count())
}

fn sname(id: SectionId) -> &'static str {
    id.name().trim_start_matches('.')
}

fn write_stream(t: &[&str]) -> String {
    let ver: u16 = t[2].parse().unwrap();
    let p = WP {
        e: endian(t[1]),
        big: t[1] == "1",
        enc: gimli::Encoding { format: if t[3] == "8" { Format::Dwarf64 } else { Format::Dwarf32 }, version: ver, address_size: sz(t[4]) },
        seed: u(t[5]),
        nunits: us(t[6]).max(1),
        ndies: us(t[7]),
        flags: u(t[8]),
        cfi: u(t[9]),
        ncie: us(t[10]),
        nfde: us(t[11]),
    };
    // direct
    let direct = write_all(&p, false, EndianVec::new(p.e));
    let recorded = write_all(&p, true, Rec::new(p.e));
    let (direct, recorded, nsup) = match (direct, recorded) {
        (Ok(d), Ok(r)) => (d.0, r.0, r.1),
        (Err(a), Err(b)) => {
            return if errname(&a) == errname(&b) { format!("builderr {}", errname(&a)) } else { format!("relocwrite-mismatch direct-err={} recording-err={}", errname(&a), errname(&b)) };
        }
        (Ok(_), Err(b)) => return format!("relocwrite-mismatch direct-ok recording-err={}", errname(&b)),
        (Err(a), Ok(_)) => return format!("relocwrite-mismatch direct-err={} recording-ok", errname(&a)),
    };
    // (a) apply and compare byte for byte
    let mut nrel = 0usize;
    for id in WSECS {
        let dsec = direct.get(id).unwrap().slice();
        let rsec = recorded.get(id).unwrap();
        let mut b = rsec.w.slice().to_vec();
        nrel += rsec.rel.len();
        let env = |tg: &RelocationTarget| -> u64 {
            match tg {
                RelocationTarget::Symbol(s) => symaddr(&p, 0, *s),
                RelocationTarget::Section(_) => 0,
            }
        };
        for r in &rsec.rel {
            apply_write_reloc(&mut b, r, &env, p.big);
        }
        if b.as_slice() != dsec {
            let pos = b.iter().zip(dsec.iter()).position(|(x, y)| x != y).unwrap_or(b.len().min(dsec.len()));
            return format!("relocwrite-mismatch {} at {} lens {} {}", sname(id), pos, b.len(), dsec.len());
        }
    }
    // relocatable fields of a frame table, by construction of the script: per FDE the CIE pointer
    // (.debug_frame only: write_offset) and the initial address; nothing in CIEs without personality
    {
        let nf = recorded.get(SectionId::DebugFrame).unwrap().rel.len() + recorded.get(SectionId::EhFrame).unwrap().rel.len();
        let want = match p.cfi {
            1 => Some(2 * p.nfde),
            2 | 3 => Some(p.nfde),
            _ => None,
        };
        if let Some(w) = want {
            if nf != w {
                return format!("relocsites-mismatch frame-fields recorded={} expected={}", nf, w);
            }
        }
    }
    // (c) + (b): replay through RelocateReader
    let mut missed: Vec<String> = Vec::new();
    let mut extra: Vec<String> = Vec::new();
    for which in 0..2u64 {
        for style in 0..2u64 {
            // per section: unrelocated bytes (style 1: addends stored in place where that is lossless),
            // relocation list for the map, pre-applied bytes
            let mut raw: HashMap<SectionId, Vec<u8>> = HashMap::new();
            let mut app: HashMap<SectionId, Vec<u8>> = HashMap::new();
            let mut maps: HashMap<SectionId, MapRel> = HashMap::new();
            for id in WSECS {
                let rsec = recorded.get(id).unwrap();
                let mut b = rsec.w.slice().to_vec();
                let mut rels: Vec<(usize, usize, bool, u64)> = Vec::new();
                for r in &rsec.rel {
                    let s = match r.target {
                        RelocationTarget::Symbol(s) => symaddr(&p, which, s),
                        RelocationTarget::Section(_) => 0,
                    };
                    let pc = match r.eh_pe {
                        Some(pe) if pe.application() == gimli::DW_EH_PE_pcrel => r.offset as u64,
                        _ => 0,
                    };
                    let size = r.size as usize;
                    let total = s.wrapping_add(r.addend as u64).wrapping_sub(pc);
                    let mask = if size >= 8 { u64::MAX } else { (1u64 << (8 * size)) - 1 };
                    let inplace = (r.addend as u64) & mask;
                    let lossless = inplace.checked_add(s.wrapping_sub(pc)).map(|v| v == total && (size >= 8 || v <= mask)).unwrap_or(false);
                    if style == 1 && lossless && r.offset + size <= b.len() {
                        put(&mut b, r.offset, size, inplace, p.big);
                        rels.push((r.offset, size, true, s.wrapping_sub(pc)));
                    } else {
                        rels.push((r.offset, size, false, total));
                    }
                }
                app.insert(id, apply_read_relocs(&b, &rels, p.big));
                maps.insert(id, MapRel::new(&rels));
                raw.insert(id, b);
            }
            let empty: Vec<u8> = Vec::new();
            let none = MapRel::new(&[]);
            let get_r = |id: SectionId| -> RR<'_> {
                match raw.get(&id) {
                    Some(b) => RelocateReader::new(EndianSlice::new(b, p.e), maps.get(&id).unwrap().clone()),
                    None => RelocateReader::new(EndianSlice::new(&empty, p.e), none.clone()),
                }
            };
            let get_p = |id: SectionId| -> EndianSlice<'_, RunTimeEndian> {
                match app.get(&id) {
                    Some(b) => EndianSlice::new(b, p.e),
                    None => EndianSlice::new(&empty, p.e),
                }
            };
            let dr = dump_all(&get_r, 100000, p.enc.address_size);
            let dp = dump_all(&get_p, 100000, p.enc.address_size);
            if dr != dp {
                return format!("relocread-mismatch env{} style{} {}", which, style, first_diff(&dr, &dp));
            }
            if which == 0 && style == 0 {
                // the plain dump of the pre-applied sections must also be the dump of the direct sections
                // (they are byte-identical by (a)); sanity of the harness itself
                // (b) sites
                for id in WSECS {
                    let rsec = recorded.get(id).unwrap();
                    let log = maps.get(&id).unwrap().log.borrow();
                    let seen: std::collections::BTreeSet<usize> = log.iter().map(|x| x.0).collect();
                    let rec: std::collections::BTreeSet<usize> = rsec.rel.iter().map(|r| r.offset).collect();
                    for o in rec.difference(&seen) {
                        missed.push(format!("{}:{}", sname(id), o));
                    }
                    for o in seen.difference(&rec) {
                        extra.push(format!("{}:{}", sname(id), o));
                    }
                }
            }
        }
    }
    if !missed.is_empty() {
        // a recorded relocation site that no reader passes to Relocate
        let secs: std::collections::BTreeSet<&str> = missed.iter().map(|m| m.split(':').next().unwrap()).collect();
        return format!("relocsites-mismatch missed {} first={}", secs.into_iter().collect::<Vec<_>>().join(","), missed[0]);
    }
    // sites the readers relocate although no relocation was recorded: only where the format cannot tell
    // (pairs of .debug_ranges/.debug_loc, the FDE length read with read_address, supplementary-file offsets)
    {
        let count = |sec: &str| extra.iter().filter(|x| x.split(':').next() == Some(sec)).count();
        let bad = if count("debug_info") != nsup {
            Some("debug_info")
        } else if count("debug_line") != 0 {
            Some("debug_line")
        } else if count("debug_rnglists") != 0 {
            Some("debug_rnglists")
        } else if count("debug_loclists") != 0 {
            Some("debug_loclists")
        } else if count("debug_frame") + count("eh_frame") > p.nfde {
            Some("frame")
        } else {
            None
        };
        if let Some(b) = bad {
            return format!("relocsites-mismatch extra {} sup={} [{}]", b, nsup, extra.join(","));
        }
    }
    if std::env::var_os("GV_C18_EXTRA").is_some() {
        return format!("ok rel{} extra{} {}", nrel, extra.len(), extra.join(","));
    }
    let _ = nrel;
    "ok".to_string()
}


// ---------------------------------------------------------------- c18.corpus

#[derive(Clone, Debug)]
struct IdRel;
impl Relocate<usize> for IdRel {
    fn relocate_address(&self, _offset: usize, value: u64) -> gimli::Result<u64> {
        Ok(value)
    }
    fn relocate_offset(&self, _offset: usize, value: usize) -> gimli::Result<usize> {
        Ok(value)
    }
}

/// Like MapRel, but remembers which calls were relocate_address (the only ones perturbed below).
#[derive(Clone, Debug)]
struct AddrLog {
    inner: MapRel,
    addrs: Rc<RefCell<Vec<(usize, u64)>>>,
}
impl Relocate<usize> for AddrLog {
    fn relocate_address(&self, offset: usize, value: u64) -> gimli::Result<u64> {
        self.addrs.borrow_mut().push((offset, value));
        self.inner.relocate_address(offset, value)
    }
    fn relocate_offset(&self, offset: usize, value: usize) -> gimli::Result<usize> {
        self.inner.relocate_offset(offset, value)
    }
}

fn corpus_dir() -> String {
    std::env::var("GV_CORPUS").unwrap_or_else(|_| concat!(env!("CARGO_MANIFEST_DIR"), "/../corpus/sections").to_string())
}

fn corpus(t: &[&str]) -> String {
    let variant = t[1];
    let seed = u(t[2]);
    let cap = us(t[3]);
    let e = RunTimeEndian::Little;
    let dwo = variant.contains("dwo") || variant.contains("dwp");
    let dir = format!("{}/{}", corpus_dir(), variant);
    let mut secs: HashMap<SectionId, Vec<u8>> = HashMap::new();
    for id in SECTIONS {
        let n = sname(id);
        let data = std::fs::read(format!("{}/{}.dwo", dir, n)).or_else(|_| std::fs::read(format!("{}/{}", dir, n)));
        if let Ok(d) = data {
            secs.insert(id, d);
        }
    }
    if secs.is_empty() {
        return "missing-corpus".into();
    }
    let empty: Vec<u8> = Vec::new();
    let bytes = |m: &HashMap<SectionId, Vec<u8>>, id: SectionId| -> *const Vec<u8> {
        match m.get(&id) {
            Some(b) => b as *const _,
            None => &empty as *const _,
        }
    };
    let _ = bytes;
    // 1. identity relocation == plain
    let get_p = |id: SectionId| -> EndianSlice<'_, RunTimeEndian> { EndianSlice::new(secs.get(&id).unwrap_or(&empty), e) };
    let get_i = |id: SectionId| -> RelocateReader<EndianSlice<'_, RunTimeEndian>, IdRel> {
        RelocateReader::new(EndianSlice::new(secs.get(&id).unwrap_or(&empty), e), IdRel)
    };
    let dp = dump_all_ft(&get_p, cap, true, dwo, 8);
    let di = dump_all_ft(&get_i, cap, true, dwo, 8);
    if dp != di {
        return format!("relocread-mismatch identity {}", first_diff(&di, &dp));
    }
    if variant.contains("dwp") {
        // package files: the contributions of several units share each section and are reached through the
        // index only; a flat walk reads them with the wrong bases, so only the identity check applies
        return "ok".to_string();
    }
    // 2. log the address sites, perturb a third of them, replay
    let mut logs: HashMap<SectionId, AddrLog> = HashMap::new();
    for id in SECTIONS {
        logs.insert(id, AddrLog { inner: MapRel::new(&[]), addrs: Rc::new(RefCell::new(Vec::new())) });
    }
    {
        let get_l = |id: SectionId| -> RelocateReader<EndianSlice<'_, RunTimeEndian>, AddrLog> {
            RelocateReader::new(EndianSlice::new(secs.get(&id).unwrap_or(&empty), e), logs.get(&id).unwrap().clone())
        };
        let dl = dump_all_ft(&get_l, cap, true, dwo, 8);
        if dl != dp {
            return format!("relocread-mismatch logging {}", first_diff(&dl, &dp));
        }
    }
    let mut rng = Rng(seed);
    let mut app: HashMap<SectionId, Vec<u8>> = HashMap::new();
    let mut maps: HashMap<SectionId, MapRel> = HashMap::new();
    let mut nsites = 0usize;
    for id in SECTIONS {
        let b = match secs.get(&id) {
            Some(b) => b,
            None => continue,
        };
        let mut sites: Vec<(usize, u64)> = logs.get(&id).unwrap().addrs.borrow().clone();
        sites.sort();
        sites.dedup_by_key(|x| x.0);
        let mut rels: Vec<(usize, usize, bool, u64)> = Vec::new();
        let mut last_end = 0usize;
        for (o, v) in sites {
            // the corpus is x86-64: every relocate_address site is 8 bytes wide, except 4-byte ones in
            // 32-bit address tables; take only sites whose 8 bytes hold exactly the logged value
            // zero / all-ones values are list terminators and base-address markers: relocating them changes what
            // the following bytes mean, so other sites would be read plainly (outside the property's side condition)
            if v == 0 || v >= (1u64 << 62) || o < last_end || o + 8 > b.len() || get(b, o, 8, false) != v {
                continue;
            }
            if rng.below(3) != 0 {
                continue;
            }
            let delta = 0x1000 * (1 + rng.below(0x100));
            if v.checked_add(delta).is_none() {
                continue;
            }
            let implicit = rng.below(2) == 0;
            rels.push((o, 8, implicit, if implicit { delta } else { v + delta }));
            last_end = o + 8;
        }
        nsites += rels.len();
        app.insert(id, apply_read_relocs(b, &rels, false));
        maps.insert(id, MapRel::new(&rels));
    }
    let none = MapRel::new(&[]);
    let get_r = |id: SectionId| -> RR<'_> {
        RelocateReader::new(EndianSlice::new(secs.get(&id).unwrap_or(&empty), e), maps.get(&id).unwrap_or(&none).clone())
    };
    let get_a = |id: SectionId| -> EndianSlice<'_, RunTimeEndian> { EndianSlice::new(app.get(&id).unwrap_or(&empty), e) };
    let dr = dump_all_ft(&get_r, cap, true, dwo, 8);
    let da = dump_all_ft(&get_a, cap, true, dwo, 8);
    if dr != da {
        return format!("relocread-mismatch perturbed sites={} {}", nsites, first_diff(&dr, &da));
    }
    "ok".to_string()
}


// ---------------------------------------------------------------- c18.secoff

fn secoff(t: &[&str]) -> String {
    let name: u64 = u(t[5]);
    let form: u64 = u(t[6]);
    let info = hex(t[7]);
    let mut i = 8;
    let rels = parse_rels(t, &mut i);
    // abbrev 1: DW_TAG_compile_unit, no children, one attribute (name, form)
    let mut abbrev: Vec<u8> = vec![1, 0x11, 0];
    let mut uleb = |mut v: u64, out: &mut Vec<u8>| loop {
        let b = (v & 0x7f) as u8;
        v >>= 7;
        if v == 0 {
            out.push(b);
            break;
        }
        out.push(b | 0x80);
    };
    uleb(name, &mut abbrev);
    uleb(form, &mut abbrev);
    abbrev.extend_from_slice(&[0, 0, 0]);
    let e = endian(t[1]);
    fn one<R: Reader<Offset = usize>>(info: R, abbrev: R) -> String {
        let di = gimli::DebugInfo::from(info);
        let da = gimli::DebugAbbrev::from(abbrev);
        let h = match di.units().next() {
            Ok(Some(h)) => h,
            Ok(None) => return "none".into(),
            Err(e) => return err(&e),
        };
        let ab = match h.abbreviations(&da) {
            Ok(a) => a,
            Err(e) => return err(&e),
        };
        let mut cur = h.entries(&ab);
        match cur.next_dfs() {
            Ok(Some(entry)) => match entry.attrs().first() {
                Some(a) => match a.raw_value() {
                    gimli::AttributeValue::Data4(v) => format!("ok 0,{}", v),
                    gimli::AttributeValue::Data8(v) => format!("ok 0,{}", v),
                    gimli::AttributeValue::SecOffset(v) => format!("ok 1,{}", v),
                    other => format!("other {:?}", other).replace(' ', "_"),
                },
                None => "noattr".into(),
            },
            Ok(None) => "nodie".into(),
            Err(e) => err(&e),
        }
    }
    let rel = MapRel::new(&rels);
    let norel = MapRel::new(&[]);
    let rr = one(
        RelocateReader::new(EndianSlice::new(&info, e), rel.clone()),
        RelocateReader::new(EndianSlice::new(&abbrev, e), norel),
    );
    let applied = apply_read_relocs(&info, &rels, t[1] == "1");
    let pr = one(EndianSlice::new(&applied, e), EndianSlice::new(&abbrev, e));
    if t[2] == "1" && rr != pr {
        return format!("relocread-mismatch reloc=[{}] applied=[{}]", rr, pr);
    }
    // the unit header's debug_abbrev_offset is relocatable too; the model starts at the attribute's field
    let fw = if form == 6 { 4 } else if form == 7 { 8 } else { us(t[4]) };
    let foff = info.len().saturating_sub(fw);
    rel.log.borrow_mut().retain(|x| x.0 >= foff);
    format!("r {} p {} s {}", rr, pr, rel.sites())
}


// ---------------------------------------------------------------- c18.parsers
// The real parsers driven through RelocateReader<EndianSlice, MapRel> on the raw bytes and through a plain
// EndianSlice on the applied bytes; output in the flat form of coq/Model/RelocPar.v.

fn join(v: &[String]) -> String {
    if v.is_empty() {
        "-".to_string()
    } else {
        v.join(",")
    }
}

fn flat_attr<R: Reader<Offset = usize>>(v: &gimli::AttributeValue<R>) -> Vec<String> {
    use gimli::AttributeValue as V;
    let (t, p): (u32, String) = match v {
        V::Addr(a) => (1, a.to_string()),
        V::Block(b) => (2, b.len().to_string()),
        V::Data1(n) => (3, n.to_string()),
        V::Data2(n) => (4, n.to_string()),
        V::Data4(n) => (5, n.to_string()),
        V::Data8(n) => (6, n.to_string()),
        V::Data16(n) => (7, n.to_string()),
        V::Sdata(z) => (8, (*z as u64).to_string()),
        V::Udata(n) => (9, n.to_string()),
        V::Exprloc(e) => (10, e.0.len().to_string()),
        V::Flag(f) => (11, (*f as u8).to_string()),
        V::SecOffset(o) => (12, o.to_string()),
        V::UnitRef(o) => (13, o.0.to_string()),
        V::DebugInfoRef(o) => (14, o.0.to_string()),
        V::DebugInfoRefSup(o) => (15, o.0.to_string()),
        V::DebugTypesRef(s) => (16, s.0.to_string()),
        V::String(s) => (17, s.len().to_string()),
        V::DebugStrRef(o) => (18, o.0.to_string()),
        V::DebugStrRefSup(o) => (19, o.0.to_string()),
        V::DebugLineStrRef(o) => (20, o.0.to_string()),
        V::DebugStrOffsetsIndex(i) => (21, i.0.to_string()),
        V::DebugAddrIndex(i) => (22, i.0.to_string()),
        V::DebugLocListsIndex(i) => (23, i.0.to_string()),
        V::DebugRngListsIndex(i) => (24, i.0.to_string()),
        _ => (0, "0".to_string()),
    };
    vec![t.to_string(), p]
}

fn p_line<R: Reader<Offset = usize>>(r: R, asz0: u8, big: bool) -> String {
    let dl = gimli::DebugLine::from(r);
    let prog = match dl.program(gimli::DebugLineOffset(0), asz0, None, None) {
        Ok(p) => p,
        Err(e) => return err(&e),
    };
    let h = prog.header();
    let mut out: Vec<String> = Vec::new();
    let mut n = |x: u64| out.push(x.to_string());
    n(h.unit_length() as u64);
    n(h.format().word_size() as u64);
    n(h.version() as u64);
    n(h.address_size() as u64);
    n(h.header_length() as u64);
    n(h.minimum_instruction_length() as u64);
    n(h.maximum_operations_per_instruction() as u64);
    n(h.default_is_stmt() as u64);
    n(h.line_base() as u8 as u64);
    n(h.line_range() as u64);
    n(h.opcode_base() as u64);
    n(111);
    for d in h.include_directories() {
        out.extend(flat_attr(d));
    }
    out.push("222".into());
    for f in h.file_names() {
        out.extend(flat_attr(&f.path_name()));
        out.push(f.directory_index().to_string());
        out.push(f.timestamp().to_string());
        out.push(f.size().to_string());
        let m = *f.md5();
        out.push((if big { u128::from_be_bytes(m) } else { u128::from_le_bytes(m) }).to_string());
        match f.source() {
            Some(s) => out.extend(flat_attr(&s)),
            None => {
                out.push("0".into());
                out.push("0".into());
            }
        }
    }
    out.push("333".into());
    let mut it = h.instructions();
    loop {
        use gimli::LineInstruction as I;
        match it.next_instruction(h) {
            Ok(None) => break,
            Err(e) => return err(&e),
            Ok(Some(i)) => {
                let v: Vec<u64> = match i {
                    I::Special(o) => vec![o as u64],
                    I::Copy => vec![1],
                    I::AdvancePc(a) => vec![2, a],
                    I::AdvanceLine(a) => vec![3, a as u64],
                    I::SetFile(a) => vec![4, a],
                    I::SetColumn(a) => vec![5, a],
                    I::NegateStatement => vec![6],
                    I::SetBasicBlock => vec![7],
                    I::ConstAddPc => vec![8],
                    I::FixedAddPc(a) => vec![9, a as u64],
                    I::SetPrologueEnd => vec![10],
                    I::SetEpilogueBegin => vec![11],
                    I::SetIsa(a) => vec![12, a],
                    I::UnknownStandard0(o) => vec![o.0 as u64],
                    I::UnknownStandard1(o, a) => vec![o.0 as u64, a],
                    I::UnknownStandardN(o, a) => vec![o.0 as u64, a.len() as u64],
                    I::EndSequence => vec![0, 1],
                    I::SetAddress(a) => vec![0, 2, a],
                    I::DefineFile(f) => {
                        let l = match f.path_name() {
                            gimli::AttributeValue::String(s) => s.len() as u64,
                            _ => 0,
                        };
                        vec![0, 3, l, f.directory_index(), f.timestamp(), f.size()]
                    }
                    I::SetDiscriminator(d) => vec![0, 4, d],
                    I::UnknownExtended(o, a) => vec![0, o.0 as u64, a.len() as u64],
                };
                out.extend(v.iter().map(|x| x.to_string()));
            }
        }
    }
    format!("ok {}", join(&out))
}

fn p_attr<R: Reader<Offset = usize>>(info: R, abbrev: R) -> String {
    let di = gimli::DebugInfo::from(info);
    let da = gimli::DebugAbbrev::from(abbrev);
    let h = match di.units().next() {
        Ok(Some(h)) => h,
        Ok(None) => return "none".into(),
        Err(e) => return err(&e),
    };
    let ab = match h.abbreviations(&da) {
        Ok(a) => a,
        Err(e) => return err(&e),
    };
    let mut cur = h.entries(&ab);
    match cur.next_dfs() {
        Ok(Some(entry)) => match entry.attrs().first() {
            Some(a) => format!("ok {}", join(&flat_attr(&a.raw_value()))),
            None => "noattr".into(),
        },
        Ok(None) => "nodie".into(),
        Err(e) => err(&e),
    }
}

fn p_rle<R: Reader<Offset = usize>>(r: R, asz: u8) -> String {
    let mut empty = r.clone();
    empty.empty();
    let rl = gimli::RangeLists::new(gimli::DebugRanges::from(empty), gimli::DebugRngLists::from(r));
    let enc = gimli::Encoding { format: Format::Dwarf32, version: 5, address_size: asz };
    let mut it = match rl.raw_ranges(gimli::RangeListsOffset(0), enc) {
        Ok(it) => it,
        Err(e) => return err(&e),
    };
    let mut out: Vec<String> = Vec::new();
    loop {
        use gimli::RawRngListEntry as E;
        let v: Vec<u64> = match it.next() {
            Ok(None) => break,
            Err(e) => return err(&e),
            Ok(Some(E::BaseAddressx { addr })) => vec![1, addr.0 as u64],
            Ok(Some(E::StartxEndx { begin, end })) => vec![2, begin.0 as u64, end.0 as u64],
            Ok(Some(E::StartxLength { begin, length })) => vec![3, begin.0 as u64, length],
            Ok(Some(E::OffsetPair { begin, end })) => vec![4, begin, end],
            Ok(Some(E::BaseAddress { addr })) => vec![5, addr],
            Ok(Some(E::StartEnd { begin, end })) => vec![6, begin, end],
            Ok(Some(E::StartLength { begin, length })) => vec![7, begin, length],
            Ok(Some(E::AddressOrOffsetPair { begin, end })) => vec![99, begin, end],
        };
        out.extend(v.iter().map(|x| x.to_string()));
    }
    format!("ok {}", join(&out))
}

fn p_loc<R: Reader<Offset = usize>>(r: R, kind: &str, ver: u16, asz: u8) -> String {
    let mut empty = r.clone();
    empty.empty();
    let enc = gimli::Encoding { format: Format::Dwarf32, version: ver, address_size: asz };
    let it = if kind == "locbare" {
        gimli::LocationLists::new(gimli::DebugLoc::from(r), gimli::DebugLocLists::from(empty))
            .raw_locations(gimli::LocationListsOffset(0), enc)
    } else if ver >= 5 {
        gimli::LocationLists::new(gimli::DebugLoc::from(empty), gimli::DebugLocLists::from(r))
            .raw_locations(gimli::LocationListsOffset(0), enc)
    } else {
        gimli::LocationLists::new(gimli::DebugLoc::from(r), gimli::DebugLocLists::from(empty))
            .raw_locations_dwo(gimli::LocationListsOffset(0), enc)
    };
    let mut it = match it {
        Ok(it) => it,
        Err(e) => return err(&e),
    };
    let mut out: Vec<String> = Vec::new();
    loop {
        use gimli::RawLocListEntry as E;
        let v: Vec<u64> = match it.next() {
            Ok(None) => break,
            Err(e) => return err(&e),
            Ok(Some(E::BaseAddressx { addr })) => vec![1, addr.0 as u64],
            Ok(Some(E::StartxEndx { begin, end, data })) => vec![2, begin.0 as u64, end.0 as u64, data.0.len() as u64],
            Ok(Some(E::StartxLength { begin, length, data })) => vec![3, begin.0 as u64, length, data.0.len() as u64],
            Ok(Some(E::OffsetPair { begin, end, data })) => vec![4, begin, end, data.0.len() as u64],
            Ok(Some(E::DefaultLocation { data })) => vec![5, data.0.len() as u64],
            Ok(Some(E::BaseAddress { addr })) => {
                if kind == "locbare" {
                    vec![1, addr]
                } else {
                    vec![6, addr]
                }
            }
            Ok(Some(E::StartEnd { begin, end, data })) => vec![7, begin, end, data.0.len() as u64],
            Ok(Some(E::StartLength { begin, length, data })) => vec![8, begin, length, data.0.len() as u64],
            Ok(Some(E::AddressOrOffsetPair { begin, end, data })) => vec![2, begin, end, data.0.len() as u64],
        };
        out.extend(v.iter().map(|x| x.to_string()));
    }
    format!("ok {}", join(&out))
}

fn p_aranges<R: Reader<Offset = usize>>(r: R) -> String {
    let da = gimli::DebugAranges::from(r);
    let h = match da.headers().next() {
        Ok(Some(h)) => h,
        Ok(None) => return "none".into(),
        Err(e) => return err(&e),
    };
    let mut out: Vec<String> = vec![
        h.length().to_string(),
        h.encoding().format.word_size().to_string(),
        h.encoding().version.to_string(),
        h.debug_info_offset().0.to_string(),
        h.encoding().address_size.to_string(),
    ];
    let mut it = h.entries();
    loop {
        match it.next_raw() {
            Ok(None) => break,
            Err(e) => return err(&e),
            Ok(Some(a)) => {
                out.push(a.address().to_string());
                out.push(a.length().to_string());
            }
        }
    }
    format!("ok {}", join(&out))
}

fn p_pubnames<R: Reader<Offset = usize>>(r: R) -> String {
    let dp = gimli::DebugPubNames::from(r);
    let mut it = dp.items();
    let mut out: Vec<String> = Vec::new();
    loop {
        match it.next() {
            Ok(None) => break,
            Err(e) => return err(&e),
            Ok(Some(e)) => {
                out.push(e.unit_header_offset().0.to_string());
                out.push(e.die_offset().0.to_string());
                out.push(e.name().len().to_string());
            }
        }
    }
    format!("ok {}", join(&out))
}

fn parsers(t: &[&str]) -> String {
    let kind = t[3];
    let big = t[1] == "1";
    let np = match kind {
        "line" | "rle" | "locbare" => 1,
        "attr" => 7,
        "lle" => 2,
        _ => 0,
    };
    let bytes = hex(t[4 + np]);
    let mut ri = 5 + np;
    let rels = parse_rels(t, &mut ri);
    let pu = |k: usize| -> u64 { u(t[4 + k]) };
    match kind {
        "line" => both_ways(t, &bytes, &rels, &|r| match r {
            Ok(r) => p_line(r, pu(0) as u8, big),
            Err(r) => p_line(r, pu(0) as u8, big),
        }),
        "rle" => both_ways(t, &bytes, &rels, &|r| match r {
            Ok(r) => p_rle(r, pu(0) as u8),
            Err(r) => p_rle(r, pu(0) as u8),
        }),
        "locbare" => both_ways(t, &bytes, &rels, &|r| match r {
            Ok(r) => p_loc(r, kind, 4, pu(0) as u8),
            Err(r) => p_loc(r, kind, 4, pu(0) as u8),
        }),
        "lle" => both_ways(t, &bytes, &rels, &|r| match r {
            Ok(r) => p_loc(r, kind, pu(0) as u16, pu(1) as u8),
            Err(r) => p_loc(r, kind, pu(0) as u16, pu(1) as u8),
        }),
        "aranges" => both_ways(t, &bytes, &rels, &|r| match r {
            Ok(r) => p_aranges(r),
            Err(r) => p_aranges(r),
        }),
        "pubnames" => both_ways(t, &bytes, &rels, &|r| match r {
            Ok(r) => p_pubnames(r),
            Err(r) => p_pubnames(r),
        }),
        "attr" => {
            let name = pu(3);
            let form = pu(4);
            let implicit = i(t[4 + 5]);
            let foff = pu(6) as usize;
            // abbrev 1: DW_TAG_compile_unit, no children, one attribute (name, form [, implicit const])
            let mut abbrev: Vec<u8> = vec![1, 0x11, 0];
            let uleb = |mut v: u64, out: &mut Vec<u8>| loop {
                let b = (v & 0x7f) as u8;
                v >>= 7;
                if v == 0 {
                    out.push(b);
                    break;
                }
                out.push(b | 0x80);
            };
            uleb(name, &mut abbrev);
            uleb(form, &mut abbrev);
            if form == 0x21 {
                let mut v = implicit as i64;
                loop {
                    let b = (v & 0x7f) as u8;
                    v >>= 7;
                    if (v == 0 && b & 0x40 == 0) || (v == -1 && b & 0x40 != 0) {
                        abbrev.push(b);
                        break;
                    }
                    abbrev.push(b | 0x80);
                }
            }
            abbrev.extend_from_slice(&[0, 0, 0]);
            let e = endian(t[1]);
            let rel = MapRel::new(&rels);
            let norel = MapRel::new(&[]);
            let rr = p_attr(
                RelocateReader::new(EndianSlice::new(&bytes, e), rel.clone()),
                RelocateReader::new(EndianSlice::new(&abbrev, e), norel),
            );
            let applied = apply_read_relocs(&bytes, &rels, big);
            let pr = p_attr(EndianSlice::new(&applied, e), EndianSlice::new(&abbrev, e));
            // the model starts at the attribute's field: the header's debug_abbrev_offset (also relocatable) is
            // c18.hdr's business, and a relocation before the field may change what the header parses to
            let header_touched = rels.iter().any(|r| r.0 < foff);
            if t[2] == "1" && rr != pr && !header_touched {
                return format!("relocread-mismatch reloc=[{}] applied=[{}]", rr, pr);
            }
            rel.log.borrow_mut().retain(|x| x.0 >= foff);
            format!("r {} p {} s {}", rr, pr, rel.sites())
        }
        _ => "unknown-kind".into(),
    }
}

pub fn run(t: &[&str]) -> String {
    match t[0] {
        "c18.parsers" => parsers(t),
        "c18.wops" => wops(t),
        "c18.rprog" => rprog(t),
        "c18.hdr" => hdr(t),
        "c18.ranges" => ranges(t),
        "c18.write" => write_stream(t),
        "c18.corpus" => corpus(t),
        "c18.secoff" => secoff(t),
        _ => format!("unknown-stream {}", t[0]),
    }
}
