// c06.rs — unwind tables (src/read/cfi.rs: CallFrameInstruction::parse, UnwindContext, UnwindTable,
// RegisterRuleMap; src/read/util.rs ArrayVec through custom UnwindContextStorage impls).
// Public API only: DebugFrame::new / set_address_size / set_vendor / entries / partial.parse /
// fde.rows / next_row / unwind_info_for_address / instructions.
use crate::util::*;
use gimli::{
    BaseAddresses, CallFrameInstruction, CfaRule, CieOrFde, DebugFrame, EndianSlice,
    FrameDescriptionEntry, ReaderOffset, Register, RegisterRule, RunTimeEndian, StoreOnHeap,
    UnwindContext, UnwindContextStorage, UnwindExpression, UnwindSection, UnwindTableRow, Vendor,
};

pub type R<'a> = EndianSlice<'a, RunTimeEndian>;

// ---- custom storages: limits (rows, rules) ----
macro_rules! storage {
    ($name:ident, $rows:expr, $rules:expr) => {
        #[derive(Clone, Copy, Debug, PartialEq, Eq)]
        pub struct $name;
        impl<T: ReaderOffset> UnwindContextStorage<T> for $name {
            type Rules = [(Register, RegisterRule<T>); $rules];
            type Stack = [UnwindTableRow<T, Self>; $rows];
        }
    };
}
storage!(S1x1, 1, 1);
storage!(S2x3, 2, 3);
storage!(S4x192, 4, 192);
storage!(S8x256, 8, 256);
#[derive(Clone, Copy, Debug, PartialEq, Eq)]
pub struct SVec;
impl<T: ReaderOffset> UnwindContextStorage<T> for SVec {
    type Rules = Vec<(Register, RegisterRule<T>)>;
    type Stack = Vec<UnwindTableRow<T, Self>>;
}

fn fmt_expr(e: &UnwindExpression<usize>) -> String {
    format!("{}:{}", e.offset, e.length)
}

pub fn fmt_rule(r: &RegisterRule<usize>) -> String {
    match r {
        RegisterRule::Undefined => "u".into(),
        RegisterRule::SameValue => "s".into(),
        RegisterRule::Offset(o) => format!("o{}", o),
        RegisterRule::ValOffset(o) => format!("v{}", o),
        RegisterRule::Register(r) => format!("r{}", r.0),
        RegisterRule::Expression(e) => format!("e{}", fmt_expr(e)),
        RegisterRule::ValExpression(e) => format!("x{}", fmt_expr(e)),
        RegisterRule::Architectural => "a".into(),
        RegisterRule::Constant(c) => format!("c{}", c),
        _ => "?".into(),
    }
}

/// Canonical text of a row; `Err` carries an oracle failure (`…-mismatch`).
pub fn fmt_row<S: UnwindContextStorage<usize>>(
    row: &UnwindTableRow<usize, S>,
    probes: &[u16],
) -> Result<String, String> {
    let mut s = format!("{}-{}", row.start_address(), row.end_address());
    match row.cfa() {
        CfaRule::RegisterAndOffset { register, offset } => {
            s.push_str(&format!(" R{}+{}", register.0, offset))
        }
        CfaRule::Expression(e) => s.push_str(&format!(" E{}", fmt_expr(e))),
    }
    s.push_str(&format!(" a{}", row.saved_args_size()));
    let mut regs: Vec<(u16, RegisterRule<usize>)> =
        row.registers().map(|(r, rule)| (r.0, rule.clone())).collect();
    regs.sort_by_key(|x| x.0);
    // oracle: the rule set is a function of the register, and register(r) agrees with registers()
    for w in regs.windows(2) {
        if w[0].0 == w[1].0 {
            return Err(format!("duplicate-register-mismatch r{}", w[0].0));
        }
    }
    for (r, rule) in &regs {
        if row.register(Register(*r)).as_ref() != Some(rule) {
            return Err(format!("register-get-mismatch r{}", r));
        }
        s.push_str(&format!(" r{}={}", r, fmt_rule(rule)));
    }
    for p in probes {
        if !regs.iter().any(|x| x.0 == *p) && row.register(Register(*p)).is_some() {
            return Err(format!("register-get-mismatch unlisted r{}", p));
        }
    }
    // contains() is [start, end)
    let (a, b) = (row.start_address(), row.end_address());
    if (a < b) != row.contains(a) || row.contains(b) {
        return Err(format!("row-contains-mismatch {}-{}", a, b));
    }
    Ok(s)
}

pub fn outcome(res: Result<(), gimli::Error>, rows: &[String]) -> String {
    match res {
        Ok(()) => format!("ok {}", rows.join(" | ")),
        Err(e) => {
            if rows.is_empty() {
                err(&e)
            } else {
                format!("{} {}", err(&e), rows.join(" | "))
            }
        }
    }
}

/// fde.rows(..) then next_row until None / error / `limit` rows.
pub fn rows_on<'a, S: UnwindContextStorage<usize> + PartialEq>(
    df: &DebugFrame<R<'a>>,
    bases: &BaseAddresses,
    fde: &FrameDescriptionEntry<R<'a>>,
    ctx: &mut UnwindContext<usize, S>,
    limit: Option<usize>,
    probes: &[u16],
) -> String {
    let mut out: Vec<String> = Vec::new();
    // clones of the rows, for the PartialEq oracle (order-insensitive comparison of the rule sets)
    let mut kept: Vec<UnwindTableRow<usize, S>> = Vec::new();
    let mut table = match fde.rows(df, bases, ctx) {
        Ok(t) => t,
        Err(e) => return err(&e),
    };
    let mut prev_end: Option<u64> = None;
    loop {
        if let Some(l) = limit {
            if out.len() >= l {
                return outcome(Ok(()), &out);
            }
        }
        match table.next_row() {
            Ok(None) => {
                // shape oracle: the last row ends at the FDE's end address
                if limit.is_none() && prev_end != Some(fde.end_address()) {
                    return format!("shape-mismatch last-end {:?} fde-end {}", prev_end, fde.end_address());
                }
                return outcome(Ok(()), &out);
            }
            Ok(Some(row)) => {
                // shape oracle: contiguous, first row starts at the FDE's initial address
                let want = prev_end.unwrap_or(fde.initial_address());
                if row.start_address() != want {
                    return format!("shape-mismatch start {} expected {}", row.start_address(), want);
                }
                prev_end = Some(row.end_address());
                match fmt_row(row, probes) {
                    Ok(s) => {
                        // oracle: `==` on rows (documented as independent of the rule order) agrees with
                        // equality of the canonical text, against every earlier row of this table
                        let c = row.clone();
                        if c != *row {
                            return "row-eq-mismatch clone".into();
                        }
                        if kept.len() < 24 {
                            for (k, old) in kept.iter().enumerate() {
                                if (*old == c) != (out[k] == s) {
                                    return format!("row-eq-mismatch {} vs {}", k, out.len());
                                }
                            }
                            kept.push(c);
                        }
                        out.push(s)
                    }
                    Err(m) => return m,
                }
            }
            Err(e) => return outcome(Err(e), &out),
        }
    }
}

pub fn at_on<'a, S: UnwindContextStorage<usize>>(
    df: &DebugFrame<R<'a>>,
    bases: &BaseAddresses,
    fde: &FrameDescriptionEntry<R<'a>>,
    ctx: &mut UnwindContext<usize, S>,
    addr: u64,
) -> String {
    match fde.unwind_info_for_address(df, bases, ctx, addr) {
        Ok(row) => {
            if !row.contains(addr) {
                return format!("lookup-mismatch row does not contain {}", addr);
            }
            match fmt_row(row, &[]) {
                Ok(s) => format!("ok {}", s),
                Err(m) => m,
            }
        }
        Err(e) => err(&e),
    }
}

/// All FDEs of the section, in order. `Err` = the result line of the parse failure.
pub fn parse_fdes<'a>(
    df: &DebugFrame<R<'a>>,
    bases: &'a BaseAddresses,
) -> Result<Vec<FrameDescriptionEntry<R<'a>>>, String> {
    let mut v = Vec::new();
    let mut entries = df.entries(bases);
    loop {
        match entries.next() {
            Ok(None) => return Ok(v),
            Ok(Some(CieOrFde::Cie(_))) => {}
            Ok(Some(CieOrFde::Fde(partial))) => match partial.parse(DebugFrame::cie_from_offset) {
                Ok(fde) => v.push(fde),
                Err(e) => return Err(err(&e)),
            },
            Err(e) => return Err(err(&e)),
        }
    }
}

pub fn section<'a>(bytes: &'a [u8], vendor: &str, be: &str, asize: &str) -> DebugFrame<R<'a>> {
    let mut df = DebugFrame::new(bytes, endian(be));
    df.set_address_size(asize.parse::<u8>().unwrap());
    df.set_vendor(if vendor == "1" { Vendor::AArch64 } else { Vendor::Default });
    df
}

/// Dispatch on the storage token with a fresh context.
macro_rules! with_fresh_ctx {
    ($st:expr, $ctx:ident, $body:expr) => {
        match $st {
            "0" => { let mut c0 = UnwindContext::<usize, StoreOnHeap>::new(); let $ctx = &mut c0; $body }
            "1" => { let mut c0 = Box::new(UnwindContext::<usize, S1x1>::new_in()); let $ctx = &mut *c0; $body }
            "2" => { let mut c0 = Box::new(UnwindContext::<usize, S2x3>::new_in()); let $ctx = &mut *c0; $body }
            "3" => { let mut c0 = Box::new(UnwindContext::<usize, S4x192>::new_in()); let $ctx = &mut *c0; $body }
            "4" => { let mut c0 = Box::new(UnwindContext::<usize, S8x256>::new_in()); let $ctx = &mut *c0; $body }
            _ => { let mut c0 = UnwindContext::<usize, SVec>::new_in(); let $ctx = &mut c0; $body }
        }
    };
}
pub(crate) use with_fresh_ctx;

// Reuse inside one case (replayable): the context first evaluates a fixed "polluter" FDE, then the case's FDE;
// the rows must equal those of a fresh context.  Three polluters: (0) a CIE with no initial register rule whose
// FDE sets DW_CFA_GNU_args_size, three register rules and leaves an unmatched remember_state; (1) the same with
// three initial rules in the CIE; (2) an FDE that fails mid-way (restore_state on an empty stack) after
// changing the row.
fn polluter_section(variant: u8) -> Vec<u8> {
    fn entry(body: &[u8]) -> Vec<u8> {
        let mut b = body.to_vec();
        while (b.len() + 4) % 8 != 0 {
            b.push(0); // DW_CFA_nop
        }
        let mut v = (b.len() as u32).to_le_bytes().to_vec();
        v.extend_from_slice(&b);
        v
    }
    let mut cie = vec![0xff, 0xff, 0xff, 0xff, 1, 0, 1, 0x78, 16, 0x0c, 7, 8];
    if variant == 1 {
        cie.extend_from_slice(&[0x90, 1, 0x83, 2, 0x86, 3]);
    }
    let mut out = entry(&cie);
    let mut fde = vec![0, 0, 0, 0];
    fde.extend_from_slice(&0x1000u64.to_le_bytes());
    fde.extend_from_slice(&0x100u64.to_le_bytes());
    fde.extend_from_slice(&[0x2e, 0x20, 0x8c, 4, 0x8d, 5, 0x8e, 6, 0x44, 0x0a, 0x0e, 0x10, 0x2e, 0x30, 0x44]);
    if variant == 2 {
        fde.extend_from_slice(&[0x0b, 0x0b, 0x0b]); // restore_state x3: the third finds an empty stack
    }
    out.extend_from_slice(&entry(&fde));
    out
}

pub fn pollute<S: UnwindContextStorage<usize> + PartialEq>(ctx: &mut UnwindContext<usize, S>, variant: u8) {
    let bytes = polluter_section(variant);
    let mut df = DebugFrame::new(&bytes, gimli::RunTimeEndian::Little);
    df.set_address_size(8);
    let bases = BaseAddresses::default();
    if let Ok(fdes) = parse_fdes(&df, &bases) {
        for fde in &fdes {
            if let Ok(mut table) = fde.rows(&df, &bases, ctx) {
                let mut n = 0;
                while let Ok(Some(_)) = table.next_row() {
                    n += 1;
                    if n > 16 {
                        break;
                    }
                }
            }
        }
    }
}

fn fmt_insn(i: &CallFrameInstruction<usize>) -> String {
    use CallFrameInstruction::*;
    match i {
        SetLoc { address } => format!("SetLoc({})", address),
        AdvanceLoc { delta } => format!("AdvanceLoc({})", delta),
        DefCfa { register, offset } => format!("DefCfa({},{})", register.0, offset),
        DefCfaSf { register, factored_offset } => format!("DefCfaSf({},{})", register.0, factored_offset),
        DefCfaRegister { register } => format!("DefCfaRegister({})", register.0),
        DefCfaOffset { offset } => format!("DefCfaOffset({})", offset),
        DefCfaOffsetSf { factored_offset } => format!("DefCfaOffsetSf({})", factored_offset),
        DefCfaExpression { expression } => format!("DefCfaExpression({})", fmt_expr(expression)),
        Undefined { register } => format!("Undefined({})", register.0),
        SameValue { register } => format!("SameValue({})", register.0),
        Offset { register, factored_offset } => format!("Offset({},{})", register.0, factored_offset),
        OffsetExtendedSf { register, factored_offset } => {
            format!("OffsetExtendedSf({},{})", register.0, factored_offset)
        }
        ValOffset { register, factored_offset } => format!("ValOffset({},{})", register.0, factored_offset),
        ValOffsetSf { register, factored_offset } => format!("ValOffsetSf({},{})", register.0, factored_offset),
        Register { dest_register, src_register } => format!("Register({},{})", dest_register.0, src_register.0),
        Expression { register, expression } => format!("Expression({},{})", register.0, fmt_expr(expression)),
        ValExpression { register, expression } => {
            format!("ValExpression({},{})", register.0, fmt_expr(expression))
        }
        Restore { register } => format!("Restore({})", register.0),
        RememberState => "RememberState".into(),
        RestoreState => "RestoreState".into(),
        ArgsSize { size } => format!("ArgsSize({})", size),
        NegateRaState => "NegateRaState".into(),
        Nop => "Nop".into(),
        _ => "?".into(),
    }
}

fn fmt_insns<'a>(mut it: gimli::CallFrameInstructionIter<'a, R<'a>>, df: &DebugFrame<R<'a>>) -> String {
    let mut v: Vec<String> = Vec::new();
    let head;
    loop {
        match it.next() {
            Ok(Some(i)) => {
                // oracle: an expression operand designates bytes inside the section
                let e = match &i {
                    CallFrameInstruction::DefCfaExpression { expression }
                    | CallFrameInstruction::Expression { expression, .. }
                    | CallFrameInstruction::ValExpression { expression, .. } => Some(*expression),
                    _ => None,
                };
                if let Some(e) = e {
                    match e.get(df) {
                        Ok(x) => {
                            if x.0.len() != e.length {
                                return "expression-range-mismatch".into();
                            }
                        }
                        Err(_) => return "expression-range-mismatch".into(),
                    }
                }
                v.push(fmt_insn(&i))
            }
            Ok(None) => {
                head = "ok".to_string();
                break;
            }
            Err(e) => {
                // the iterator stops after an error
                if !matches!(it.next(), Ok(None)) {
                    return "iterator-continues-after-error-mismatch".into();
                }
                head = err(&e);
                break;
            }
        }
    }
    let mut s = head;
    for x in v {
        s.push(' ');
        s.push_str(&x);
    }
    s
}

pub fn run(t: &[&str]) -> String {
    match t[0] {
        "c06.seq" | "c06.rand" | "c06.lim" | "c06.raw" => {
            let bytes = hex(t[5]);
            let df = section(&bytes, t[2], t[3], t[4]);
            let bases = BaseAddresses::default();
            let fdes = match parse_fdes(&df, &bases) {
                Ok(v) => v,
                Err(s) => return s,
            };
            if fdes.len() != 1 {
                return format!("bad-case {} fdes", fdes.len());
            }
            let probes: Vec<u16> = t[6..].iter().map(|x| x.parse::<u16>().unwrap()).collect();
            let fresh = with_fresh_ctx!(t[1], ctx, rows_on(&df, &bases, &fdes[0], &mut *ctx, None, &probes));
            for variant in 0..3u8 {
                let reused = with_fresh_ctx!(t[1], ctx, {
                    pollute(&mut *ctx, variant);
                    rows_on(&df, &bases, &fdes[0], &mut *ctx, None, &probes)
                });
                if fresh != reused {
                    return format!("reuse-mismatch after-polluter-{} fresh=[{}] reused=[{}]", variant, fresh, reused)
                        .replace(' ', "_")
                        .replacen("reuse-mismatch_", "reuse-mismatch ", 1);
                }
            }
            fresh
        }
        "c06.at" => {
            let bytes = hex(t[5]);
            let df = section(&bytes, t[2], t[3], t[4]);
            let bases = BaseAddresses::default();
            let fdes = match parse_fdes(&df, &bases) {
                Ok(v) => v,
                Err(s) => return s,
            };
            if fdes.len() != 1 {
                return format!("bad-case {} fdes", fdes.len());
            }
            let addr = u(t[6]);
            let a = with_fresh_ctx!(t[1], ctx, at_on(&df, &bases, &fdes[0], &mut *ctx, addr));
            // section-level lookup agrees when this FDE is the one found
            if fdes[0].contains(addr) {
                let b = with_fresh_ctx!(t[1], ctx, {
                    match df.unwind_info_for_address(&bases, &mut *ctx, addr, DebugFrame::cie_from_offset) {
                        Ok(row) => match fmt_row(row, &[]) {
                            Ok(s) => format!("ok {}", s),
                            Err(m) => m,
                        },
                        Err(e) => err(&e),
                    }
                });
                if a != b {
                    return format!("lookup-mismatch fde: {} section: {}", a, b);
                }
            }
            a
        }
        "c06.insn" => {
            let bytes = hex(t[4]);
            let df = section(&bytes, t[1], t[2], t[3]);
            let bases = BaseAddresses::default();
            let fdes = match parse_fdes(&df, &bases) {
                Ok(v) => v,
                Err(s) => return s,
            };
            if fdes.len() != 1 {
                return format!("bad-case {} fdes", fdes.len());
            }
            let a = fmt_insns(fdes[0].cie().instructions(&df, &bases), &df);
            let b = fmt_insns(fdes[0].instructions(&df, &bases), &df);
            format!("{} ; {}", a, b)
        }
        _ => format!("unknown-stream {}", t[0]),
    }
}
