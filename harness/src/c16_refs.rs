// c16_refs.rs — stream c16.refs: location lists whose expressions carry ENTRY REFERENCES (DW_OP_call_ref,
// DW_OP_implicit_pointer / DW_OP_GNU_implicit_pointer, DW_OP_GNU_variable_value naming DIEs of the same or of
// another unit), in 1-3 units of mixed versions written by one write::Dwarf::write. The property's quantifier
// names them ("x location expressions with entry references"); the byte-level streams of c16.rs only use
// Expression::raw.
//
// Spec-level oracle evaluated on gimli alone (the case is valid by construction, so the writer must succeed and
// gimli's own reader must give back what was added):
//   readback-mismatch writer-error <Variant>      write() refused a representable input
//   readback-mismatch ...                        a list does not read back as its ranges, or an operation of one of its
//                                                expressions is not the operation that was built, or its reference
//                                                does not resolve to the DIE (by DW_AT_name) that was named
// case: c16.refs <be> <nunits> { <version> <fmt> <asz> <nvars> <nlists> { <nentries> { <kind> <b> <e> <nops>
//                { <op> <tu> <tv> <boff> } } } }
//   kind 1 OffsetPair{b,e}  2 StartEnd{base+b, base+e} (v5)  3 StartLength{base+b, e-b} (v5)  4 DefaultLocation (v5)
//   op 0 call_ref  1 implicit_pointer(boff)  2 variable_value  3 plus_uconst(boff)   target = variable <tv> of unit <tu>
use crate::util::*;
use gimli::write::{
    self, Address, AttributeValue, DebugInfoRef, EndianVec, Expression, LineProgram, Location, LocationList,
    Sections, Unit,
};
use gimli::{constants, read, Encoding, EndianSlice, Format, RunTimeEndian};

type Rd<'a> = EndianSlice<'a, RunTimeEndian>;

#[derive(Clone, Debug, PartialEq)]
struct OpW {
    op: u64,
    tu: usize,
    tv: usize,
    boff: i64,
}
struct EntW {
    kind: u64,
    b: u64,
    e: u64,
    ops: Vec<OpW>,
}
struct UnitW {
    version: u16,
    nvars: usize,
    lists: Vec<Vec<EntW>>,
}

fn base_of(ui: usize) -> u64 {
    0x1000 * (ui as u64 + 1)
}

pub fn run(t: &[&str]) -> String {
    let mut i = 1usize;
    let mut next = || {
        let x = t.get(i).copied().unwrap_or("0");
        i += 1;
        x
    };
    let endian = endian(next());
    let nunits = u(next()) as usize;
    let mut spec: Vec<UnitW> = Vec::new();
    let mut encs = Vec::new();
    for _ in 0..nunits {
        let version = u(next()) as u16;
        let format = if u(next()) == 1 { Format::Dwarf64 } else { Format::Dwarf32 };
        let asz = u(next()) as u8;
        let nvars = u(next()) as usize;
        let nlists = u(next()) as usize;
        let mut lists = Vec::new();
        for _ in 0..nlists {
            let ne = u(next()) as usize;
            let mut ents = Vec::new();
            for _ in 0..ne {
                let kind = u(next());
                let b = u(next());
                let e = u(next());
                let nops = u(next()) as usize;
                let mut ops = Vec::new();
                for _ in 0..nops {
                    let op = u(next());
                    let tu = u(next()) as usize;
                    let tv = u(next()) as usize;
                    let boff = crate::util::i(next());
                    ops.push(OpW { op, tu, tv, boff });
                }
                ents.push(EntW { kind, b, e, ops });
            }
            lists.push(ents);
        }
        encs.push(Encoding { format, version, address_size: asz });
        spec.push(UnitW { version, nvars, lists });
    }

    // pass 1: units and their target variables (so that references to later units are possible)
    let mut dwarf = write::Dwarf::new();
    let mut uids = Vec::new();
    let mut vars: Vec<Vec<write::UnitEntryId>> = Vec::new();
    for (ui, uw) in spec.iter().enumerate() {
        let uid = dwarf.units.add(Unit::new(encs[ui], LineProgram::none()));
        let unit = dwarf.units.get_mut(uid);
        let root = unit.root();
        unit.get_mut(root).set(constants::DW_AT_low_pc, AttributeValue::Address(Address::Constant(base_of(ui))));
        let mut vs = Vec::new();
        for vi in 0..uw.nvars {
            let v = unit.add(root, constants::DW_TAG_variable);
            unit.get_mut(v).set(constants::DW_AT_name, AttributeValue::String(format!("u{}v{}", ui, vi).into_bytes()));
            vs.push(v);
        }
        uids.push(uid);
        vars.push(vs);
    }
    // pass 2: the lists and their holders
    for (ui, uw) in spec.iter().enumerate() {
        for (li, ents) in uw.lists.iter().enumerate() {
            let mut v = Vec::new();
            for en in ents {
                let mut x = Expression::new();
                for o in &en.ops {
                    let tu = o.tu % nunits;
                    let tv = o.tv % spec[tu].nvars.max(1);
                    let r = DebugInfoRef::Entry(uids[tu], vars[tu][tv]);
                    match o.op {
                        0 => x.op_call_ref(r),
                        1 => x.op_implicit_pointer(r, o.boff),
                        2 => x.op_variable_value(r),
                        _ => x.op_plus_uconst(o.boff as u64),
                    }
                }
                let base = base_of(ui);
                v.push(match en.kind {
                    1 => Location::OffsetPair { begin: en.b, end: en.e, data: x },
                    2 => Location::StartEnd {
                        begin: Address::Constant(base + en.b),
                        end: Address::Constant(base + en.e),
                        data: x,
                    },
                    3 => Location::StartLength { begin: Address::Constant(base + en.b), length: en.e - en.b, data: x },
                    _ => Location::DefaultLocation { data: x },
                });
            }
            let unit = dwarf.units.get_mut(uids[ui]);
            let id = unit.locations.add(LocationList(v));
            let root = unit.root();
            let h = unit.add(root, constants::DW_TAG_formal_parameter);
            unit.get_mut(h).set(constants::DW_AT_name, AttributeValue::String(format!("u{}h{}", ui, li).into_bytes()));
            unit.get_mut(h).set(constants::DW_AT_location, AttributeValue::LocationListRef(id));
        }
    }
    let mut sections = Sections::new(EndianVec::new(endian));
    if let Err(e) = dwarf.write(&mut sections) {
        return format!("readback-mismatch writer-error {:?}", e).replace(' ', "_").replacen("readback-mismatch_", "readback-mismatch ", 1);
    }
    match readback(&sections, endian, &spec) {
        Ok(_) => "ok".to_string(),
        Err(m) => m,
    }
}

fn readback(sections: &Sections<EndianVec<RunTimeEndian>>, endian: RunTimeEndian, spec: &[UnitW]) -> Result<usize, String> {
    let rerr = |what: &str, e: gimli::Error| format!("readback-mismatch reader-error {} {}", what, errname(&e));
    let dwarf: read::Dwarf<Rd> = read::Dwarf::load(|id| -> Result<Rd, gimli::Error> {
        Ok(EndianSlice::new(sections.get(id).map(|w| w.slice()).unwrap_or(&[]), endian))
    })
    .map_err(|e| rerr("load", e))?;
    // every DIE's .debug_info offset -> its name
    let mut names: Vec<(u64, String)> = Vec::new();
    let mut units = Vec::new();
    let mut iter = dwarf.units();
    while let Some(h) = iter.next().map_err(|e| rerr("units", e))? {
        let unit = dwarf.unit(h).map_err(|e| rerr("unit", e))?;
        units.push(unit);
    }
    if units.len() != spec.len() {
        return Err(format!("readback-mismatch unit-count {} {}", units.len(), spec.len()));
    }
    for unit in &units {
        let mut c = unit.entries();
        while let Some(()) = c.next_dfs().map_err(|e| rerr("dfs", e))?.map(|_| ()) {
            let die = c.current().unwrap();
            if let Some(a) = die.attr(constants::DW_AT_name) {
                let s = dwarf.attr_string(unit, a.value()).map_err(|e| rerr("name", e))?;
                let off = die.offset().to_debug_info_offset(&unit.header).map(|o| o.0 as u64).unwrap_or(u64::MAX);
                names.push((off, String::from_utf8_lossy(s.slice()).into_owned()));
            }
        }
    }
    let name_at = |o: u64| names.iter().find(|(p, _)| *p == o).map(|(_, n)| n.clone()).unwrap_or_else(|| format!("no-die-at-{:#x}", o));
    let mut checked = 0usize;
    for (ui, (unit, uw)) in units.iter().zip(spec).enumerate() {
        for (li, ents) in uw.lists.iter().enumerate() {
            // find the holder
            let want_name = format!("u{}h{}", ui, li);
            let mut c = unit.entries();
            let mut off = None;
            while let Some(()) = c.next_dfs().map_err(|e| rerr("dfs", e))?.map(|_| ()) {
                let die = c.current().unwrap();
                let is = match die.attr(constants::DW_AT_name) {
                    Some(a) => dwarf.attr_string(unit, a.value()).map(|s| s.slice() == want_name.as_bytes()).unwrap_or(false),
                    None => false,
                };
                if is {
                    let a = die.attr(constants::DW_AT_location).ok_or_else(|| format!("readback-mismatch {} has no DW_AT_location", want_name))?;
                    off = dwarf.attr_locations_offset(unit, a.value()).map_err(|e| rerr("attr_locations_offset", e))?;
                }
            }
            let off = off.ok_or_else(|| format!("readback-mismatch holder {} not found", want_name))?;
            let mut it = dwarf.locations(unit, off).map_err(|e| rerr("locations", e))?;
            let base = base_of(ui);
            for (ei, en) in ents.iter().enumerate() {
                let got = it
                    .next()
                    .map_err(|e| rerr("locations.next", e))?
                    .ok_or_else(|| format!("readback-mismatch unit={} list={} ends before entry {}", ui, li, ei))?;
                let want_range = if en.kind == 4 { (0, u64::MAX) } else { (base + en.b, base + en.e) };
                if (got.range.begin, got.range.end) != want_range {
                    return Err(format!("readback-mismatch unit={} list={} entry={} range got={:x?} want={:x?}", ui, li, ei, (got.range.begin, got.range.end), want_range));
                }
                let mut ops = got.data.operations(unit.encoding());
                for (oi, o) in en.ops.iter().enumerate() {
                    let g = ops
                        .next()
                        .map_err(|e| rerr("operations", e))?
                        .ok_or_else(|| format!("readback-mismatch unit={} list={} entry={} expression ends before op {}", ui, li, ei, oi))?;
                    let tu = o.tu % spec.len();
                    let tv = o.tv % spec[tu].nvars.max(1);
                    let tname = format!("u{}v{}", tu, tv);
                    let (gk, gname, goff): (u64, String, i64) = match g {
                        read::Operation::Call { offset: read::DieReference::DebugInfoRef(d) } => (0, name_at(d.0 as u64), 0),
                        read::Operation::ImplicitPointer { value, byte_offset } => (1, name_at(value.0 as u64), byte_offset),
                        read::Operation::VariableValue { offset } => (2, name_at(offset.0 as u64), 0),
                        read::Operation::PlusConstant { value } => (3, String::new(), value as i64),
                        other => return Err(format!("readback-mismatch unit={} list={} entry={} op={} unexpected {:?}", ui, li, ei, oi, other).replace(' ', "_").replacen("readback-mismatch_", "readback-mismatch ", 1)),
                    };
                    let (wk, wname, woff) = match o.op {
                        0 => (0, tname, 0),
                        1 => (1, tname, o.boff),
                        2 => (2, tname, 0),
                        _ => (3, String::new(), o.boff),
                    };
                    if (gk, &gname, goff) != (wk, &wname, woff) {
                        return Err(format!(
                            "readback-mismatch reference unit={} v{} list={} entry={} op={} got=({},{},{}) want=({},{},{})",
                            ui, uw.version, li, ei, oi, gk, gname, goff, wk, wname, woff
                        ));
                    }
                    checked += 1;
                }
                if let Some(extra) = ops.next().map_err(|e| rerr("operations", e))? {
                    return Err(format!("readback-mismatch unit={} list={} entry={} trailing op {:?}", ui, li, ei, extra).replace(' ', "_").replacen("readback-mismatch_", "readback-mismatch ", 1));
                }
            }
            if let Some(extra) = it.next().map_err(|e| rerr("locations.next", e))? {
                return Err(format!("readback-mismatch unit={} list={} extra entry {:x?}", ui, li, (extra.range.begin, extra.range.end)));
            }
        }
    }
    let _ = checked;
    Ok(spec.iter().map(|u| u.lists.len()).sum())
}
