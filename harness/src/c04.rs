// c04.rs — line-number programs (src/read/line.rs): header decode, instruction decode, rows,
// sequences()/resume_from(). Only the public gimli API is used.
//
// case formats (all: `<be> <address_size> <section-bytes-hex>`; the header is at offset 0):
//   c04.hdr   -> ok <header dump>                       | err X
//   c04.insn  -> ok <insn>* end|err:X                   | err X   (header error)
//   c04.rows  -> ok <row>* end|err:X                    | err X   + impl-side oracles (…-mismatch)
//   c04.op1   -> same as c04.rows preceded by the instruction dump (one-instruction programs)
//   c04.cont  -> ok (<row>|err:X)* end                  (keeps calling next_row after an error)
//   c04.seq   -> ok nfiles (seq:<start>:<end> <row>*)*  | err X
use crate::util::*;
use gimli::{
    AttributeValue, DebugLine, DebugLineOffset, EndianSlice, FileEntry, LineInstruction, LineProgramHeader, LineRow,
    Reader, RunTimeEndian,
};

type R<'a> = EndianSlice<'a, RunTimeEndian>;

fn val(v: &AttributeValue<R>) -> String {
    match v {
        AttributeValue::Block(b) => format!("B{}", tohex(b.slice())),
        AttributeValue::Data1(x) => format!("d1:{}", x),
        AttributeValue::Data2(x) => format!("d2:{}", x),
        AttributeValue::Data4(x) => format!("d4:{}", x),
        AttributeValue::Data8(x) => format!("d8:{}", x),
        AttributeValue::Udata(x) => format!("u:{}", x),
        AttributeValue::Sdata(x) => format!("s:{}", x),
        AttributeValue::Flag(x) => format!("f:{}", *x as u8),
        AttributeValue::SecOffset(x) => format!("so:{}", x),
        AttributeValue::String(s) => format!("S{}", tohex(s.slice())),
        AttributeValue::DebugStrRef(o) => format!("sr:{}", o.0),
        AttributeValue::DebugStrRefSup(o) => format!("ss:{}", o.0),
        AttributeValue::DebugLineStrRef(o) => format!("ls:{}", o.0),
        AttributeValue::DebugStrOffsetsIndex(o) => format!("sx:{}", o.0),
        other => format!("other:{:?}", other).replace(' ', "_"),
    }
}

fn file(f: &FileEntry<R>) -> String {
    format!(
        "{}/{}/{}/{}/{}/{}",
        val(&f.path_name()),
        f.directory_index(),
        f.timestamp(),
        f.size(),
        tohex(f.md5()),
        match f.source() {
            Some(s) => val(&s),
            None => "none".to_string(),
        }
    )
}

fn list<T, F: Fn(&T) -> String>(xs: &[T], f: F) -> String {
    if xs.is_empty() {
        "-".to_string()
    } else {
        xs.iter().map(|x| f(x)).collect::<Vec<_>>().join(";")
    }
}

fn header(h: &LineProgramHeader<R>) -> String {
    format!(
        "{} {} {} {} {} {} {} {} {} {} {} std={} dfmt={} dirs={} ffmt={} files={} prog={}",
        h.version(),
        (h.format() == gimli::Format::Dwarf64) as u8,
        h.address_size(),
        h.unit_length(),
        h.header_length(),
        h.minimum_instruction_length(),
        h.maximum_operations_per_instruction(),
        h.default_is_stmt() as u8,
        h.line_base(),
        h.line_range(),
        h.opcode_base(),
        tohex(h.standard_opcode_lengths().slice()),
        list(h.directory_entry_format(), |e| format!("{}:{}", e.content_type.0, e.form.0)),
        list(h.include_directories(), |d| val(d)),
        list(h.file_name_entry_format(), |e| format!("{}:{}", e.content_type.0, e.form.0)),
        list(h.file_names(), |f| file(f)),
        h.raw_program_buf().len()
    )
}

fn insn(i: &LineInstruction<R>) -> String {
    match i {
        LineInstruction::Special(op) => format!("sp:{}", op),
        LineInstruction::Copy => "cp".into(),
        LineInstruction::AdvancePc(n) => format!("apc:{}", n),
        LineInstruction::AdvanceLine(n) => format!("al:{}", n),
        LineInstruction::SetFile(n) => format!("sf:{}", n),
        LineInstruction::SetColumn(n) => format!("sc:{}", n),
        LineInstruction::NegateStatement => "ns".into(),
        LineInstruction::SetBasicBlock => "bb".into(),
        LineInstruction::ConstAddPc => "cap".into(),
        LineInstruction::FixedAddPc(n) => format!("fap:{}", n),
        LineInstruction::SetPrologueEnd => "pe".into(),
        LineInstruction::SetEpilogueBegin => "eb".into(),
        LineInstruction::SetIsa(n) => format!("isa:{}", n),
        LineInstruction::UnknownStandard0(op) => format!("us0:{}", op.0),
        LineInstruction::UnknownStandard1(op, a) => format!("us1:{}:{}", op.0, a),
        LineInstruction::UnknownStandardN(op, a) => format!("usn:{}:{}", op.0, tohex(a.slice())),
        LineInstruction::EndSequence => "es".into(),
        LineInstruction::SetAddress(a) => format!("sa:{}", a),
        LineInstruction::DefineFile(f) => format!("df:{}", file(f)),
        LineInstruction::SetDiscriminator(n) => format!("sd:{}", n),
        LineInstruction::UnknownExtended(op, a) => format!("ue:{}:{}", op.0, tohex(a.slice())),
        _ => "other".into(),
    }
}

fn row(r: &LineRow) -> String {
    format!(
        "{},{},{},{},{},{}{}{}{}{},{},{}",
        r.address(),
        r.op_index(),
        r.file_index(),
        r.line().map(|l| l.get()).unwrap_or(0),
        match r.column() {
            gimli::ColumnType::LeftEdge => 0,
            gimli::ColumnType::Column(c) => c.get(),
        },
        r.is_stmt() as u8,
        r.basic_block() as u8,
        r.end_sequence() as u8,
        r.prologue_end() as u8,
        r.epilogue_begin() as u8,
        r.isa(),
        r.discriminator()
    )
}

fn insns_dump(h: &LineProgramHeader<R>) -> String {
    let mut out = String::new();
    let mut it = h.instructions();
    loop {
        match it.next_instruction(h) {
            Ok(Some(i)) => {
                out.push_str(&insn(&i));
                out.push(' ');
            }
            Ok(None) => {
                out.push_str("end");
                break;
            }
            Err(e) => {
                out.push_str(&format!("err:{}", errname(&e)));
                // the iterator must be fused after an error
                match it.next_instruction(h) {
                    Ok(None) => {}
                    _ => return "fuse-mismatch".into(),
                }
                break;
            }
        }
    }
    out
}

/// mask of an address size as the property understands it (sizes 1..8)
fn mask(asz: u8) -> u64 {
    if asz >= 8 {
        !0
    } else {
        (1u64 << (8 * asz as u32)) - 1
    }
}

pub fn run(t: &[&str]) -> String {
    let en = endian(t[1]);
    let asz = u(t[2]) as u8;
    let bytes = hex(t[3]);
    let dl = DebugLine::new(&bytes, en);
    let prog = match dl.program(DebugLineOffset(0), asz, None, None) {
        Ok(p) => p,
        Err(e) => return err(&e),
    };
    match t[0] {
        "c04.hdr" => format!("ok {}", header(prog.header())),
        "c04.insn" => format!("ok {}", insns_dump(prog.header())),
        "c04.cont" => {
            let mut out = String::from("ok ");
            let mut rows = prog.clone().rows();
            let mut calls = 0usize;
            loop {
                calls += 1;
                if calls > bytes.len() + 2 {
                    return "termination-mismatch".into();
                }
                match rows.next_row() {
                    Ok(Some((_, r))) => {
                        out.push_str(&row(r));
                        out.push(' ');
                    }
                    Ok(None) => {
                        out.push_str("end");
                        break;
                    }
                    Err(e) => {
                        out.push_str(&format!("err:{} ", errname(&e)));
                    }
                }
            }
            out
        }
        "c04.rows" | "c04.op1" | "c04.prog" | "c04.any" => {
            let asz_h = prog.header().address_size();
            let mut out = String::from("ok ");
            if t[0] == "c04.op1" {
                out.push_str(&insns_dump(prog.header()));
                out.push_str(" | ");
            }
            let mut all: Vec<LineRow> = Vec::new();
            let mut rows = prog.clone().rows();
            let status;
            loop {
                match rows.next_row() {
                    Ok(Some((_, r))) => all.push(*r),
                    Ok(None) => {
                        status = None;
                        break;
                    }
                    Err(e) => {
                        status = Some(errname(&e));
                        break;
                    }
                }
            }
            for r in &all {
                out.push_str(&row(r));
                out.push(' ');
            }
            match &status {
                None => out.push_str("end"),
                Some(e) => out.push_str(&format!("err:{}", e)),
            }
            // ---- spec-level oracles evaluated on the implementation alone ----
            // (a) addresses never decrease within a sequence and never exceed the address size
            if (1..=8).contains(&asz_h) {
                let mut prev: Option<u64> = None;
                for r in &all {
                    if r.address() > mask(asz_h) {
                        return format!("addrsize-mismatch {}", out);
                    }
                    if let Some(p) = prev {
                        if r.address() < p {
                            return format!("monotone-mismatch {}", out);
                        }
                    }
                    prev = if r.end_sequence() { None } else { Some(r.address()) };
                }
            }
            // (b) sequences() + resume_from() = straight run, bounds = first / end address
            match prog.clone().sequences() {
                Err(e) => {
                    if status.as_deref() != Some(errname(&e).as_str()) {
                        return format!("seqerr-mismatch {} vs {}", errname(&e), out);
                    }
                }
                Ok((complete, seqs)) => {
                    if status.is_some() {
                        return format!("seqerr-mismatch ok vs {}", out);
                    }
                    let mut k = 0usize;
                    for s in &seqs {
                        let mut rr = complete.resume_from(s);
                        let mut first: Option<u64> = None;
                        let mut last_end: Option<u64> = None;
                        loop {
                            match rr.next_row() {
                                Ok(Some((_, r))) => {
                                    if k >= all.len() || all[k] != *r {
                                        return format!("resume-mismatch row {} {}", k, out);
                                    }
                                    k += 1;
                                    if r.end_sequence() {
                                        last_end = Some(r.address());
                                    } else if first.is_none() {
                                        first = Some(r.address());
                                    }
                                }
                                Ok(None) => break,
                                Err(_) => return format!("resume-mismatch err {}", out),
                            }
                        }
                        if k == 0 || !all[k - 1].end_sequence() {
                            return format!("resume-mismatch noend {}", out);
                        }
                        if s.start != first.unwrap_or(0) || Some(s.end) != last_end {
                            return format!("bounds-mismatch {}:{} {}", s.start, s.end, out);
                        }
                    }
                    // everything up to the last end_sequence row must have been covered
                    let upto = all.iter().rposition(|r| r.end_sequence()).map(|p| p + 1).unwrap_or(0);
                    if k != upto {
                        return format!("resume-mismatch count {} {} {}", k, upto, out);
                    }
                }
            }
            out
        }
        "c04.seq" => match prog.clone().sequences() {
            Err(e) => err(&e),
            Ok((complete, seqs)) => {
                let mut out = format!("ok {}", complete.header().file_names().len());
                for s in &seqs {
                    out.push_str(&format!(" seq:{}:{}", s.start, s.end));
                    let mut rr = complete.resume_from(s);
                    loop {
                        match rr.next_row() {
                            Ok(Some((_, r))) => {
                                out.push(' ');
                                out.push_str(&row(r));
                            }
                            Ok(None) => break,
                            Err(e) => {
                                out.push_str(&format!(" err:{}", errname(&e)));
                                break;
                            }
                        }
                    }
                }
                out
            }
        },
        _ => format!("unknown-stream {}", t[0]),
    }
}
