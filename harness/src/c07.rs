// c07.rs — DWARF expressions: Operation::parse / OperationIter (read/op.rs), Value arithmetic
// (read/value.rs) and Evaluation with its suspension protocol.
use crate::util::*;
use gimli::{
    DieReference, EndianSlice, Encoding, Evaluation, EvaluationResult, EvaluationStorage, Expression, Format,
    Location, Operation, Piece, Reader, RunTimeEndian, Value, ValueType,
};

type R<'a> = EndianSlice<'a, RunTimeEndian>;

fn encoding(t: &[&str]) -> (Encoding, RunTimeEndian) {
    let enc = Encoding {
        address_size: t[0].parse::<u8>().unwrap(),
        format: if t[1] == "1" { Format::Dwarf64 } else { Format::Dwarf32 },
        version: t[2].parse::<u16>().unwrap(),
    };
    (enc, endian(t[3]))
}

fn b(x: bool) -> &'static str {
    if x {
        "1"
    } else {
        "0"
    }
}

fn opt(x: Option<u64>) -> String {
    match x {
        Some(v) => v.to_string(),
        None => "-".to_string(),
    }
}

fn show_op(o: &Operation<R>) -> String {
    match *o {
        Operation::Deref { base_type, size, space } => format!("Deref:{}:{}:{}", base_type.0, size, b(space)),
        Operation::Drop => "Drop".into(),
        Operation::Pick { index } => format!("Pick:{}", index),
        Operation::Swap => "Swap".into(),
        Operation::Rot => "Rot".into(),
        Operation::Abs => "Abs".into(),
        Operation::And => "And".into(),
        Operation::Div => "Div".into(),
        Operation::Minus => "Minus".into(),
        Operation::Mod => "Mod".into(),
        Operation::Mul => "Mul".into(),
        Operation::Neg => "Neg".into(),
        Operation::Not => "Not".into(),
        Operation::Or => "Or".into(),
        Operation::Plus => "Plus".into(),
        Operation::PlusConstant { value } => format!("PlusConstant:{}", value),
        Operation::Shl => "Shl".into(),
        Operation::Shr => "Shr".into(),
        Operation::Shra => "Shra".into(),
        Operation::Xor => "Xor".into(),
        Operation::Bra { target } => format!("Bra:{}", target),
        Operation::Eq => "Eq".into(),
        Operation::Ge => "Ge".into(),
        Operation::Gt => "Gt".into(),
        Operation::Le => "Le".into(),
        Operation::Lt => "Lt".into(),
        Operation::Ne => "Ne".into(),
        Operation::Skip { target } => format!("Skip:{}", target),
        Operation::UnsignedConstant { value } => format!("UnsignedConstant:{}", value),
        Operation::SignedConstant { value } => format!("SignedConstant:{}", value),
        Operation::Register { register } => format!("Register:{}", register.0),
        Operation::RegisterOffset { register, offset, base_type } => {
            format!("RegisterOffset:{}:{}:{}", register.0, offset, base_type.0)
        }
        Operation::FrameOffset { offset } => format!("FrameOffset:{}", offset),
        Operation::Nop => "Nop".into(),
        Operation::PushObjectAddress => "PushObjectAddress".into(),
        Operation::Call { offset: DieReference::UnitRef(o) } => format!("Call:u:{}", o.0),
        Operation::Call { offset: DieReference::DebugInfoRef(o) } => format!("Call:d:{}", o.0),
        Operation::VariableValue { offset } => format!("VariableValue:{}", offset.0),
        Operation::TLS => "TLS".into(),
        Operation::CallFrameCFA => "CallFrameCFA".into(),
        Operation::Piece { size_in_bits, bit_offset } => format!("Piece:{}:{}", size_in_bits, opt(bit_offset)),
        Operation::ImplicitValue { data } => format!("ImplicitValue:{}", tohex(data.slice())),
        Operation::StackValue => "StackValue".into(),
        Operation::ImplicitPointer { value, byte_offset } => format!("ImplicitPointer:{}:{}", value.0, byte_offset),
        Operation::EntryValue { expression } => format!("EntryValue:{}", tohex(expression.slice())),
        Operation::ParameterRef { offset } => format!("ParameterRef:{}", offset.0),
        Operation::Address { address } => format!("Address:{}", address),
        Operation::AddressIndex { index } => format!("AddressIndex:{}", index.0),
        Operation::ConstantIndex { index } => format!("ConstantIndex:{}", index.0),
        Operation::TypedLiteral { base_type, value } => format!("TypedLiteral:{}:{}", base_type.0, tohex(value.slice())),
        Operation::Convert { base_type } => format!("Convert:{}", base_type.0),
        Operation::Reinterpret { base_type } => format!("Reinterpret:{}", base_type.0),
        Operation::Uninitialized => "Uninitialized".into(),
        Operation::WasmLocal { index } => format!("WasmLocal:{}", index),
        Operation::WasmGlobal { index } => format!("WasmGlobal:{}", index),
        Operation::WasmStack { index } => format!("WasmStack:{}", index),
    }
}

fn tname(t: ValueType) -> &'static str {
    match t {
        ValueType::Generic => "g",
        ValueType::I8 => "i8",
        ValueType::U8 => "u8",
        ValueType::I16 => "i16",
        ValueType::U16 => "u16",
        ValueType::I32 => "i32",
        ValueType::U32 => "u32",
        ValueType::I64 => "i64",
        ValueType::U64 => "u64",
        ValueType::F32 => "f32",
        ValueType::F64 => "f64",
    }
}

fn ptype(s: &str) -> ValueType {
    match s {
        "g" => ValueType::Generic,
        "i8" => ValueType::I8,
        "u8" => ValueType::U8,
        "i16" => ValueType::I16,
        "u16" => ValueType::U16,
        "i32" => ValueType::I32,
        "u32" => ValueType::U32,
        "i64" => ValueType::I64,
        "u64" => ValueType::U64,
        "f32" => ValueType::F32,
        "f64" => ValueType::F64,
        _ => panic!("bad type token {}", s),
    }
}

/// type + bit pattern of the payload; `nanc`: every NaN prints as `nan`
fn show_value(v: Value, nanc: bool) -> String {
    show_value_m(v, nanc, !0u64)
}

/// as show_value, with generic payloads reduced by `gmask` (the canonical representative)
fn show_value_m(v: Value, nanc: bool, gmask: u64) -> String {
    match v {
        Value::Generic(x) => format!("g:{}", x & gmask),
        Value::I8(x) => format!("i8:{}", x as u8),
        Value::U8(x) => format!("u8:{}", x),
        Value::I16(x) => format!("i16:{}", x as u16),
        Value::U16(x) => format!("u16:{}", x),
        Value::I32(x) => format!("i32:{}", x as u32),
        Value::U32(x) => format!("u32:{}", x),
        Value::I64(x) => format!("i64:{}", x as u64),
        Value::U64(x) => format!("u64:{}", x),
        Value::F32(x) => {
            if nanc && x.is_nan() {
                "f32:nan".into()
            } else {
                format!("f32:{}", x.to_bits())
            }
        }
        Value::F64(x) => {
            if nanc && x.is_nan() {
                "f64:nan".into()
            } else {
                format!("f64:{}", x.to_bits())
            }
        }
    }
}

fn pvalue(s: &str) -> Value {
    let (t, p) = s.split_once(':').unwrap();
    let x = u(p);
    match t {
        "g" => Value::Generic(x),
        "i8" => Value::I8(x as u8 as i8),
        "u8" => Value::U8(x as u8),
        "i16" => Value::I16(x as u16 as i16),
        "u16" => Value::U16(x as u16),
        "i32" => Value::I32(x as u32 as i32),
        "u32" => Value::U32(x as u32),
        "i64" => Value::I64(x as i64),
        "u64" => Value::U64(x),
        "f32" => Value::F32(f32::from_bits(x as u32)),
        "f64" => Value::F64(f64::from_bits(x)),
        _ => panic!("bad value token {}", s),
    }
}

fn show_loc(l: &Location<R>, gmask: u64) -> String {
    match *l {
        Location::Empty => "E".into(),
        Location::Register { register } => format!("R:{}", register.0),
        Location::Address { address } => format!("A:{}", address),
        Location::Value { value } => format!("V:{}", show_value_m(value, true, gmask)),
        Location::Bytes { value } => format!("B:{}", tohex(value.slice())),
        Location::ImplicitPointer { value, byte_offset } => format!("IP:{}:{}", value.0, byte_offset),
    }
}

fn show_piece(p: &Piece<R>, gmask: u64) -> String {
    format!("[{},{},{}]", opt(p.size_in_bits), opt(p.bit_offset), show_loc(&p.location, gmask))
}

fn show_req(r: &EvaluationResult<R>) -> String {
    match *r {
        EvaluationResult::Complete => "Complete".into(),
        EvaluationResult::RequiresMemory { address, size, space, base_type } => {
            format!("Memory:{}:{}:{}:{}", address, size, opt(space), base_type.0)
        }
        EvaluationResult::RequiresRegister { register, base_type } => format!("Register:{}:{}", register.0, base_type.0),
        EvaluationResult::RequiresWasmLocal { index } => format!("WasmLocal:{}", index),
        EvaluationResult::RequiresWasmGlobal { index } => format!("WasmGlobal:{}", index),
        EvaluationResult::RequiresWasmStack { index } => format!("WasmStack:{}", index),
        EvaluationResult::RequiresFrameBase => "FrameBase".into(),
        EvaluationResult::RequiresTls(i) => format!("Tls:{}", i),
        EvaluationResult::RequiresCallFrameCfa => "CallFrameCfa".into(),
        EvaluationResult::RequiresAtLocation(DieReference::UnitRef(o)) => format!("AtLocation:u:{}", o.0),
        EvaluationResult::RequiresAtLocation(DieReference::DebugInfoRef(o)) => format!("AtLocation:d:{}", o.0),
        EvaluationResult::RequiresEntryValue(ref e) => format!("EntryValue:{}", tohex(e.0.slice())),
        EvaluationResult::RequiresParameterRef(o) => format!("ParameterRef:{}", o.0),
        EvaluationResult::RequiresRelocatedAddress(a) => format!("RelocatedAddress:{}", a),
        EvaluationResult::RequiresIndexedAddress { index, relocate } => format!("IndexedAddress:{}:{}", index.0, b(relocate)),
        EvaluationResult::RequiresBaseType(o) => format!("BaseType:{}", o.0),
    }
}

struct Answer {
    val: Value,
    num: u64,
    bytes: Vec<u8>,
    ty: ValueType,
}

fn panswer(s: &str) -> Answer {
    let f: Vec<&str> = s.split('/').collect();
    Answer { val: pvalue(f[0]), num: u(f[1]), bytes: hex(f[2]), ty: ptype(f[3]) }
}

/// fixed-capacity storage: 3 stack entries, 1 saved caller expression, 2 result pieces
struct Small;
impl<Rd: Reader> EvaluationStorage<Rd> for Small {
    type Stack = [Value; 3];
    type ExpressionStack = [(Rd, Rd); 1];
    type Result = [Piece<Rd>; 2];
}

fn reqs(l: &[String]) -> String {
    if l.is_empty() {
        "-".into()
    } else {
        l.join(",")
    }
}

fn drive<'a, S: EvaluationStorage<R<'a>>>(
    mut ev: Evaluation<R<'a>, S>,
    maxit: Option<u32>,
    init: Option<u64>,
    obj: Option<u64>,
    answers: &'a [Answer],
    e: RunTimeEndian,
    gmask: u64,
) -> String {
    if let Some(m) = maxit {
        ev.set_max_iterations(m);
    }
    if let Some(v) = init {
        ev.set_initial_value(v);
    }
    if let Some(v) = obj {
        ev.set_object_address(v);
    }
    let mut seen: Vec<String> = Vec::new();
    let mut res = ev.evaluate();
    let mut k = 0usize;
    loop {
        let r = match res {
            Err(x) => return format!("err {} {}", errname(&x), reqs(&seen)),
            Ok(r) => r,
        };
        if r == EvaluationResult::Complete {
            let ps: Vec<String> = ev.as_result().iter().map(|p| show_piece(p, gmask)).collect();
            let vr = match ev.value_result() {
                Some(v) => show_value_m(v, true, gmask),
                None => "-".into(),
            };
            return format!(
                "ok complete {} {} {}",
                if ps.is_empty() { "-".to_string() } else { ps.concat() },
                vr,
                reqs(&seen)
            );
        }
        seen.push(show_req(&r));
        if k >= answers.len() {
            return format!("ok waiting {}", reqs(&seen));
        }
        let a = &answers[k];
        k += 1;
        res = match r {
            EvaluationResult::Complete => unreachable!(),
            EvaluationResult::RequiresMemory { .. } => ev.resume_with_memory(a.val),
            EvaluationResult::RequiresRegister { .. } => ev.resume_with_register(a.val),
            EvaluationResult::RequiresWasmLocal { .. }
            | EvaluationResult::RequiresWasmGlobal { .. }
            | EvaluationResult::RequiresWasmStack { .. } => ev.resume_with_wasm_value(a.val),
            EvaluationResult::RequiresFrameBase => ev.resume_with_frame_base(a.num),
            EvaluationResult::RequiresTls(_) => ev.resume_with_tls(a.num),
            EvaluationResult::RequiresCallFrameCfa => ev.resume_with_call_frame_cfa(a.num),
            EvaluationResult::RequiresAtLocation(_) => ev.resume_with_at_location(EndianSlice::new(&a.bytes, e)),
            EvaluationResult::RequiresEntryValue(_) => ev.resume_with_entry_value(a.val),
            EvaluationResult::RequiresParameterRef(_) => ev.resume_with_parameter_ref(a.num),
            EvaluationResult::RequiresRelocatedAddress(_) => ev.resume_with_relocated_address(a.num),
            EvaluationResult::RequiresIndexedAddress { .. } => ev.resume_with_indexed_address(a.num),
            EvaluationResult::RequiresBaseType(_) => ev.resume_with_base_type(a.ty),
        };
    }
}

fn value_result(r: gimli::Result<Value>, nanc: bool) -> String {
    value_result_m(r, nanc, !0u64)
}

fn value_result_m(r: gimli::Result<Value>, nanc: bool, gmask: u64) -> String {
    match r {
        Ok(v) => format!("ok {}", show_value_m(v, nanc, gmask)),
        Err(e) => err(&e),
    }
}

fn eval_case(t: &[&str], gmask_from_size: bool) -> String {
    let (enc, e) = encoding(&t[0..4]);
    let maxit: Option<u32> = if t[4] == "-" { None } else { Some(t[4].parse().unwrap()) };
    let init = if t[5] == "-" { None } else { Some(u(t[5])) };
    let obj = if t[6] == "-" { None } else { Some(u(t[6])) };
    let small = t[7] == "s";
    let prog = hex(t[8]);
    let answers: Vec<Answer> = t[9..].iter().map(|s| panswer(s)).collect();
    let bytecode = EndianSlice::new(&prog[..], e);
    let gmask = if gmask_from_size && enc.address_size < 8 { (1u64 << (8 * enc.address_size as u32)) - 1 } else { !0u64 };
    if small {
        let ev: Evaluation<R, Small> = Evaluation::new_in(bytecode, enc);
        drive(ev, maxit, init, obj, &answers, e, gmask)
    } else {
        let ev = Evaluation::new(bytecode, enc);
        drive(ev, maxit, init, obj, &answers, e, gmask)
    }
}

/// one Value operation, result printed with generic payloads reduced by gmask
fn value_op(name: &str, mask: u64, a: Value, b: &str, gmask: u64) -> String {
    match name {
        "abs" => return value_result_m(a.abs(mask), false, gmask),
        "neg" => return value_result_m(a.neg(mask), false, gmask),
        "not" => return value_result_m(a.not(mask), false, gmask),
        "convert" => return value_result_m(a.convert(ptype(b), mask), true, gmask),
        "reinterpret" => return value_result_m(a.reinterpret(ptype(b), mask), false, gmask),
        _ => {}
    }
    let c = pvalue(b);
    match name {
        "add" => value_result_m(a.add(c, mask), true, gmask),
        "sub" => value_result_m(a.sub(c, mask), true, gmask),
        "mul" => value_result_m(a.mul(c, mask), true, gmask),
        "div" => value_result_m(a.div(c, mask), true, gmask),
        "rem" => value_result_m(a.rem(c, mask), false, gmask),
        "and" => value_result_m(a.and(c, mask), false, gmask),
        "or" => value_result_m(a.or(c, mask), false, gmask),
        "xor" => value_result_m(a.xor(c, mask), false, gmask),
        "shl" => value_result_m(a.shl(c, mask), false, gmask),
        "shr" => value_result_m(a.shr(c, mask), false, gmask),
        "shra" => value_result_m(a.shra(c, mask), false, gmask),
        "eq" => value_result_m(a.eq(c, mask), false, gmask),
        "ge" => value_result_m(a.ge(c, mask), false, gmask),
        "gt" => value_result_m(a.gt(c, mask), false, gmask),
        "le" => value_result_m(a.le(c, mask), false, gmask),
        "lt" => value_result_m(a.lt(c, mask), false, gmask),
        "ne" => value_result_m(a.ne(c, mask), false, gmask),
        _ => "bad-case".into(),
    }
}

pub fn run(t: &[&str]) -> String {
    match t[0] {
        "c07.decode" => {
            let (enc, e) = encoding(&t[1..5]);
            let bytes = hex(t[5]);
            let mut r = EndianSlice::new(&bytes[..], e);
            match Operation::parse(&mut r, enc) {
                Ok(o) => format!("ok {} {}", show_op(&o), r.len()),
                Err(x) => err(&x),
            }
        }
        "c07.ops" => {
            let (enc, e) = encoding(&t[1..5]);
            let bytes = hex(t[5]);
            let expr = Expression(EndianSlice::new(&bytes[..], e));
            let mut it = expr.operations(enc);
            let mut ops: Vec<String> = Vec::new();
            let mut guard = 0usize;
            loop {
                guard += 1;
                if guard > bytes.len() + 2 {
                    return "iterator-does-not-terminate-mismatch".into();
                }
                match it.next() {
                    Ok(Some(o)) => ops.push(show_op(&o)),
                    Ok(None) => {
                        return format!("ok {}", if ops.is_empty() { "-".to_string() } else { ops.join(",") });
                    }
                    Err(x) => {
                        // after an error the iterator must be exhausted
                        match it.next() {
                            Ok(None) => {}
                            _ => return "iterator-continues-after-error-mismatch".into(),
                        }
                        return format!(
                            "err {} {}",
                            errname(&x),
                            if ops.is_empty() { "-".to_string() } else { ops.join(",") }
                        );
                    }
                }
            }
        }
        "c07.value" => {
            let name = t[1];
            if name == "parse" {
                let bytes = hex(t[4]);
                let r = EndianSlice::new(&bytes[..], endian(t[2]));
                return value_result(Value::parse(ptype(t[3]), r), false);
            }
            let mask = u(t[2]);
            let a = pvalue(t[3]);
            match name {
                "abs" => return value_result(a.abs(mask), false),
                "neg" => return value_result(a.neg(mask), false),
                "not" => return value_result(a.not(mask), false),
                "convert" => return value_result(a.convert(ptype(t[4]), mask), true),
                "reinterpret" => return value_result(a.reinterpret(ptype(t[4]), mask), false),
                "tou64" => {
                    return match a.to_u64(mask) {
                        Ok(v) => format!("ok {}", v),
                        Err(e) => err(&e),
                    }
                }
                "bitsize" => return format!("ok {}", ptype(t[4]).bit_size(mask)),
                "fromu64" => {
                    let x = match a {
                        Value::Generic(x) => x,
                        _ => return "bad-case".into(),
                    };
                    return value_result(Value::from_u64(ptype(t[4]), x), true);
                }
                _ => {}
            }
            value_op(name, mask, a, t[4], !0u64)
        }
        "c07.eval" => eval_case(&t[1..], false),
        // gimli's trace read canonically (generic values modulo the address size) vs the extracted spec machine
        "c07.specrun" => eval_case(&t[1..], true),
        "c07.spec" => {
            // t[1] = v|e, t[2] = class tag (k = known finding class), rest as c07.value / c07.eval
            if t[1] == "e" {
                return eval_case(&t[3..], true);
            }
            let sz: u32 = t[4].parse().unwrap();
            let mask = if sz >= 8 { !0u64 } else { (1u64 << (8 * sz)) - 1 };
            value_op(t[3], mask, pvalue(t[5]), t[6], mask)
        }
        _ => format!("unknown-stream {}", t[0]),
    }
}
