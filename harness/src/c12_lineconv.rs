// c12_lineconv.rs — stream c12.lineconv: write::ConvertLineProgram driven through its public API
// (write::Dwarf::read_line_program, read_row, read_sequence, convert, program) against Model/ConvertLine.v.
//
// case:  c12.lineconv <mode> <pattern> <be> <address_size> <.debug_line hex> <.debug_str hex> <.debug_line_str hex>
//   mode 0: read_row until None / Err            -> events  sa:<addr> | row:<fields> | es:<offset>
//   mode 1: read_sequence until None / Err       -> seq:<start|none>:<L<len>|A<addr>>:<rows joined by '+'>
//   mode 2: convert(&|a| ..)                     (pattern = address mode: 0 constant, 1 None for 0xdead)
//   mode 3: call k is read_row if bit (k mod 16) of <pattern> is 0, else read_sequence
// result: err <new error> | ok f=<file map> (<event>)* <end|err:X> | <LineProgram Debug, no spaces> | ls=<strings>
use crate::util::*;
use gimli::write::{self, Address, ConvertLineRow, ConvertLineSequenceEnd};
use gimli::{DebugLineOffset, Dwarf, EndianSlice, RunTimeEndian, SectionId};

fn cerr(e: &write::ConvertError) -> String {
    let s = format!("{:?}", e);
    if let Some(rest) = s.strip_prefix("Read(").or_else(|| s.strip_prefix("Write(")) {
        let end = rest.find(|ch: char| ch == '(' || ch == '{' || ch == ' ' || ch == ')').unwrap_or(rest.len());
        rest[..end].to_string()
    } else {
        errname(e)
    }
}

fn fid(f: &write::FileId) -> String {
    // FileId has no public accessor: Debug is `FileId(<index>)`
    let s = format!("{:?}", f);
    s.trim_start_matches("FileId(").trim_end_matches(')').to_string()
}

fn wrow(r: &write::LineRow) -> String {
    format!(
        "{},{},{},{},{},{},{}{}{}{},{}",
        r.address_offset,
        r.op_index,
        fid(&r.file),
        r.line,
        r.column,
        r.discriminator,
        r.is_statement as u8,
        r.basic_block as u8,
        r.prologue_end as u8,
        r.epilogue_begin as u8,
        r.isa
    )
}

fn ev(r: &ConvertLineRow) -> String {
    match r {
        ConvertLineRow::SetAddress(a) => format!("sa:{}", a),
        ConvertLineRow::Row(r) => format!("row:{}", wrow(r)),
        ConvertLineRow::EndSequence(n) => format!("es:{}", n),
    }
}

/// `LineStringId{base_id:BaseId(7),index:3}` (debug builds; `base_id:()` in release) -> `LineStringId(3)`
fn strip_base_id(s: &str) -> String {
    let mut out = String::with_capacity(s.len());
    let mut rest = s;
    while let Some(p) = rest.find("Id{base_id:") {
        out.push_str(&rest[..p + 2]);
        let after = &rest[p..];
        let i = after.find(",index:").map(|i| i + ",index:".len()).unwrap_or(after.len());
        let tail = &after[i..];
        let j = tail.find('}').unwrap_or(tail.len());
        out.push('(');
        out.push_str(&tail[..j]);
        out.push(')');
        rest = &tail[(j + 1).min(tail.len())..];
    }
    out.push_str(rest);
    out
}

fn tail(program: &write::LineProgram, files: &[write::FileId], dwarf: &write::Dwarf) -> String {
    let dbg: String = format!("{:?}", program).chars().filter(|c| !c.is_whitespace()).collect();
    let dbg = strip_base_id(&dbg);
    // the strings behind the ids: every file's name, directory and source resolved through the tables
    let mut ls = vec![format!("{}", dwarf.line_strings.count())];
    for (id, name, dir) in program.files() {
        let g = |s: &write::LineString| tohex(s.get(&dwarf.strings, &dwarf.line_strings));
        let info = program.get_file_info(id);
        ls.push(format!(
            "{}/{}/{}",
            g(name),
            g(program.get_directory(dir)),
            match &info.source {
                Some(s) => g(s),
                None => "none".into(),
            }
        ));
    }
    format!(
        "f={} | {} | ls={}",
        if files.is_empty() { "-".to_string() } else { files.iter().map(fid).collect::<Vec<_>>().join(",") },
        dbg,
        ls.join(";")
    )
}

pub fn run(t: &[&str]) -> String {
    let mode = u(t[1]);
    let pattern = u(t[2]);
    let endian: RunTimeEndian = endian(t[3]);
    let asz: u8 = t[4].parse().unwrap();
    let line = hex(t[5]);
    let strs = hex(t[6]);
    let line_strs = hex(t[7]);
    static EMPTY: [u8; 0] = [];
    let from: Dwarf<EndianSlice<'_, RunTimeEndian>> = Dwarf::load(|id| -> Result<_, ()> {
        Ok(EndianSlice::new(
            match id {
                SectionId::DebugLine => &line[..],
                SectionId::DebugStr => &strs[..],
                SectionId::DebugLineStr => &line_strs[..],
                _ => &EMPTY[..],
            },
            endian,
        ))
    })
    .unwrap();
    let program = match from.debug_line.program(DebugLineOffset(0), asz, None, None) {
        Ok(p) => p,
        Err(e) => return format!("hdr-err {}", errname(&e)),
    };
    let mut dwarf = write::Dwarf::new();
    let mut conv = match dwarf.read_line_program(&from, program, None, None) {
        Ok(c) => c,
        Err(e) => return format!("err {}", cerr(&e)),
    };
    let mut out: Vec<String> = vec!["ok".into()];
    if mode == 2 {
        let r = conv.convert(&|a| {
            if pattern == 1 && a == 0xdead {
                None
            } else {
                Some(Address::Constant(a))
            }
        });
        return match r {
            Ok((p, files)) => format!("ok converted {}", tail(&p, &files, &dwarf)),
            Err(e) => format!("ok err:{}", cerr(&e)),
        };
    }
    let mut k = 0u32;
    loop {
        let use_seq = mode == 1 || (mode == 3 && (pattern >> (k % 16)) & 1 == 1);
        k += 1;
        if use_seq {
            match conv.read_sequence() {
                Ok(None) => {
                    out.push("end".into());
                    break;
                }
                Ok(Some(s)) => out.push(format!(
                    "seq:{}:{}:{}",
                    match s.start {
                        Some(a) => a.to_string(),
                        None => "none".into(),
                    },
                    match s.end {
                        ConvertLineSequenceEnd::Length(n) => format!("L{}", n),
                        ConvertLineSequenceEnd::Address(a) => format!("A{}", a),
                    },
                    if s.rows.is_empty() { "-".to_string() } else { s.rows.iter().map(wrow).collect::<Vec<_>>().join("+") }
                )),
                Err(e) => {
                    out.push(format!("err:{}", cerr(&e)));
                    break;
                }
            }
        } else {
            match conv.read_row() {
                Ok(None) => {
                    out.push("end".into());
                    break;
                }
                Ok(Some(r)) => out.push(ev(&r)),
                Err(e) => {
                    out.push(format!("err:{}", cerr(&e)));
                    break;
                }
            }
        }
    }
    let (p, files) = conv.program();
    format!("{} | {}", out.join(" "), tail(&p, &files, &dwarf))
}
