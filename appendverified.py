#!/usr/bin/env python3
"""appendverified.py log... — append the `=== recheck Cxx seedN` blocks of mutcheck queue logs to
seeded/<id>-seedN/verified.txt as a further '--- run' block (earlier blocks, incl. the demo confirmation, are kept)."""
import re, sys, os
for path in sys.argv[1:]:
    cur, buf = None, {}
    for line in open(path, errors='replace'):
        m = re.match(r'=== (?:recheck )?(C\d\d) seed(\d)', line)
        if m:
            cur = (m.group(1), m.group(2)); buf[cur] = []
            continue
        if line.startswith('=== '):
            cur = None; continue
        if cur: buf[cur].append(line)
    for (pid, s), lines in buf.items():
        if not any(l.startswith('mutcheck: exit') for l in lines):
            continue  # unfinished block
        d = 'seeded/%s-seed%s' % (pid, s)
        if os.path.isdir(d):
            with open(d + '/verified.txt', 'a') as f:
                f.write('--- run recheck (%s)\n' % os.path.basename(path) + ''.join(lines))
            print(pid, 'seed' + s, 'DETECTED' if any(l.startswith('VIOLATION property=' + pid) for l in lines) else 'not detected')
