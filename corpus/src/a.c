#include <stddef.h>
#define SQUARE(x) ((x) * (x))
#define LIMIT 37
struct point { int x, y; struct point *next; };
union num { int i; float f; double d; };
typedef int (*binop)(int, int);
enum color { RED, GREEN = 5, BLUE };
static inline int add(int a, int b) { return a + b; }
static int mul(int a, int b) { int r = 0; for (int i = 0; i < b; i++) { r = add(r, a); } return r; }
volatile int sink;
int walk(struct point *p, binop f) {
  int acc = 0;
  while (p) {
    int t = f(p->x, p->y);
    { int u = SQUARE(t) % LIMIT; acc += u; }
    p = p->next;
  }
  return acc;
}
double mix(union num n, enum color c, int k) {
  double out = 0;
  switch (c) {
  case RED: out = n.i * 2; break;
  case GREEN: out = n.f + k; break;
  default: { long long big = (long long)k << 33; out = (double)big + n.d; }
  }
  return out;
}
int vla(int n) { int buf[n]; for (int i = 0; i < n; i++) buf[i] = mul(i, 3); sink = buf[n / 2]; return buf[0]; }
int main(int argc, char **argv) {
  struct point a = {1, 2, NULL}, b = {3, 4, &a};
  union num n; n.d = argc;
  sink = walk(&b, mul) + (int)mix(n, (enum color)(argc % 3), argc) + vla(argc + 3);
  return sink & 1;
}
