#include <string.h>
struct node { struct node *l, *r; int key; char name[12]; };
static int depth(const struct node *n) { if (!n) return 0; int a = depth(n->l), b = depth(n->r); return 1 + (a > b ? a : b); }
__attribute__((noinline)) int lookup(const struct node *n, int key) {
  while (n) { if (key == n->key) return (int)strlen(n->name); n = key < n->key ? n->l : n->r; }
  return -1;
}
__thread int tls_counter;
int bump(int by) { tls_counter += by; return tls_counter; }
int entry(struct node *root, int k) { return depth(root) + lookup(root, k) + bump(k); }
