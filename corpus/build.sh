#!/bin/sh
# corpus/build.sh — (re)build the compiler-made section corpus. Run by hand, results are committed
# under corpus/sections/<variant>/<section>. Needs gcc/clang/objcopy (present in the sandbox).
set -e
cd "$(dirname "$0")"
rm -rf sections build; mkdir -p sections build
SECS="debug_abbrev debug_addr debug_aranges debug_info debug_line debug_line_str debug_loc debug_loclists debug_macinfo debug_macro debug_names debug_pubnames debug_pubtypes debug_ranges debug_rnglists debug_str debug_str_offsets debug_types debug_frame eh_frame eh_frame_hdr debug_cu_index debug_tu_index"
extract() { # file variant [dwo-suffix]
  mkdir -p sections/$2
  for s in $SECS; do
    for name in .$s .$s.dwo; do
      out=sections/$2/$(echo $name | sed 's/^\.//')
      objcopy --dump-section $name="$out" "$1" /dev/null 2>/dev/null || true
      [ -s "$out" ] || rm -f "$out"
    done
  done
  # addresses of eh_frame / eh_frame_hdr / text for base addresses
  readelf -S -W "$1" 2>/dev/null | awk '/\.eh_frame_hdr|\.eh_frame|\.text|\.got / {print $2, $4}' | sed 's/^\[ *[0-9]*\] *//' > sections/$2/ADDRS 2>/dev/null || true
  readelf -S -W "$1" | grep -E ' \.(eh_frame_hdr|eh_frame|text|got) ' | awk '{for(i=1;i<=NF;i++) if ($i ~ /^\.(eh_frame_hdr|eh_frame|text|got)$/) print $i, $(i+2)}' > sections/$2/ADDRS
}
i=0
for cc in gcc clang; do
  for v in 2 3 4 5; do
    for opt in -O0 -O2; do
      tag=${cc}_v${v}_$(echo $opt | tr -d -)
      $cc -g -gdwarf-$v $opt -fno-omit-frame-pointer src/a.c src/b.c -o build/$tag 2>/dev/null && extract build/$tag $tag
    done
  done
done
gcc -g3 -gdwarf-4 -O1 src/a.c src/b.c -o build/gcc_macro4 && extract build/gcc_macro4 gcc_macro4
gcc -g3 -gdwarf-5 -O1 src/a.c src/b.c -o build/gcc_macro5 && extract build/gcc_macro5 gcc_macro5
gcc -g -gdwarf-4 -O2 -fdebug-types-section src/a.c src/b.c -o build/gcc_types4 && extract build/gcc_types4 gcc_types4
gcc -g -gdwarf-4 -O2 -gpubnames src/a.c src/b.c -o build/gcc_pub4 && extract build/gcc_pub4 gcc_pub4
clang -g -gdwarf-5 -O2 -gpubnames src/a.c src/b.c -o build/clang_names5 && extract build/clang_names5 clang_names5
clang -g -gdwarf-5 -O1 -gdwarf64 src/a.c src/b.c -o build/clang_64 2>/dev/null && extract build/clang_64 clang_64 || true
gcc -g -gdwarf-5 -O1 -gdwarf64 src/a.c src/b.c -o build/gcc_64 2>/dev/null && extract build/gcc_64 gcc_64 || true
# split DWARF + packages
for cc in gcc clang; do for v in 4 5; do
  tag=${cc}_split${v}
  mkdir -p build/$tag
  ( cd build/$tag && $cc -g -gdwarf-$v -O2 -gsplit-dwarf -c ../../src/a.c ../../src/b.c && $cc a.o b.o -o exe ) 2>/dev/null || continue
  extract build/$tag/exe ${tag}_skel
  for d in build/$tag/*.dwo; do extract $d ${tag}_$(basename $d .dwo)_dwo; done
  ( cd build/$tag && dwp -e exe -o exe.dwp 2>/dev/null ) && extract build/$tag/exe.dwp ${tag}_dwp || true
  ( cd build/$tag && llvm-dwp -e exe -o exe.ldwp 2>/dev/null ) && extract build/$tag/exe.ldwp ${tag}_ldwp || true
done; done
rm -rf build
find sections -type f | wc -l; du -sh sections
