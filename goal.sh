#!/bin/sh
# goal.sh <file.v> <line> — show the proof state after line <line> (development aid)
f="$1"; n="$2"; d=$(dirname "$f"); b=$(basename "$f" .v)
tmp="$d/GoalTmp_$$.v"
head -n "$n" "$f" > "$tmp"; echo "Show." >> "$tmp"
cd "$(dirname "$0")/coq" && timeout 300 coqc -Q . GV "$(realpath --relative-to=. "$tmp")" 2>&1 | grep -v "^Error: There are pending proofs\|^File.*GoalTmp" | tail -${3:-40}
rm -f "$tmp" "$d"/GoalTmp_$$.* "$d"/.GoalTmp_$$.*
