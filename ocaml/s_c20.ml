(* s_c20.ml — streams for C20 (reused contexts, buffers, iterators, caches behave like fresh ones).
   Section 1 (this file, today): the unwind-context clause. Other clauses (entry buffers, EntriesTree
   re-rooting, iterator clones, abbreviation caches) append their own `register` calls below.

   c20.hist  (kind oracle): the harness evaluates one history of uses on ONE reused UnwindContext and
             the same uses on fresh contexts and prints `ok <n>` when all n results agree, else
             `history-mismatch ...`. The expected column is the fixed token.
   c20.histm (kind model) : same cases; the result line lists the results on the reused context,
             which the model predicts (CfiRun.run_history).
   case: <stream> <storage> <vendor> <be> <asize> <section-hex> (<fde-index> <how> <arg>)*
         how 0 = iterate all rows, 1 = abandon the table after <arg> rows, 2 = unwind_info_for_address(<arg>) *)
open Conv
open Streams
open CfaSpec
open CfiRun
open S_c06

type pool_entry = { pc : cfg; pcie : wire list; pfde : wire list }

(* all entries share the section-level settings (byte order, address size for v1/v3, vendor) *)
let build_pool (es : pool_entry list) : int list * fde_in array =
  let sect = ref [] and fdes = ref [] in
  List.iter (fun e ->
    let c = e.pc in
    let cie = enc_wires c e.pcie and fde = enc_wires c e.pfde in
    let base = List.length !sect in
    let (cb, co) = build_cie c cie in
    let fbase = base + List.length cb in
    let (fb, fo) = build_fde c ~cie_off:base ~init:c.init ~range:c.range fde in
    sect := !sect @ cb @ fb;
    fdes := fde_in_of c ~cie_off:(base + co) ~cie ~fde_off:(fbase + fo) ~fde ~init:c.init ~range:c.range :: !fdes) es;
  (!sect, Array.of_list (List.rev !fdes))

let ni = n_of_int
let zi = Z.of_int
let remember k = List.init k (fun _ -> WRememberState)

(* the pool of the property text: FDEs failing in the CIE's initial instructions, mid-FDE, by
   StackFull / TooManyRegisterRules, with 0, 1 and many initial rules; all leave the context dirty *)
let pool (be : bool) (asize : int) (aarch64 : bool) : pool_entry list =
  let mk i ver caf daf = { base_cfg with be; asize; aarch64; ver; caf = zi caf; daf = zi daf;
                           init = zi (0x100 * (i + 1)); range = zi 0x80 } in
  [ (* 0: nothing at all: one default row — shows any stale state *)
    { pc = mk 0 1 1 (-8); pcie = []; pfde = [] };
    (* 1: ok, no initial rules, rows and a balanced remember/restore *)
    { pc = mk 1 4 1 (-8); pcie = [WDefCfa (ni 7, ni 8)];
      pfde = [WAdvanceLoc0 (ni 4); WOffset0 (ni 6, ni 2); WRememberState; WDefCfaOffset (ni 16); WAdvanceLoc0 (ni 4); WRestoreState; WRestore0 (ni 6); WArgsSize (ni 24)] };
    (* 2: ok, exactly one initial rule (the [ref rule] shortcut), restored in the FDE *)
    { pc = mk 2 3 2 (-4); pcie = [WDefCfa (ni 7, ni 4); WOffset0 (ni 16, ni 1)];
      pfde = [WAdvanceLoc0 (ni 2); WUndefined (ni 16); WOffset0 (ni 3, ni 2); WAdvanceLoc0 (ni 2); WRestore0 (ni 16); WRestore0 (ni 3)] };
    (* 3: ok, many initial rules (saved row under the stack), restore + restore_state *)
    { pc = mk 3 4 1 (-8); pcie = [WDefCfa (ni 7, ni 8); WOffset0 (ni 16, ni 1); WSameValue (ni 3); WUndefined (ni 4)];
      pfde = [WRememberState; WSameValue (ni 16); WRestore0 (ni 3); WAdvanceLoc0 (ni 8); WRestoreState; WRestore0 (ni 4); WRestore0 (ni 16); WAdvanceLoc0 (ni 1); WDefCfaExpression []] };
    (* 4: fails in the CIE's initial instructions (restore is invalid there) after dirtying rules, stack, cfa *)
    { pc = mk 4 1 1 (-8); pcie = [WDefCfaExpression []; WOffset0 (ni 1, ni 1); WSameValue (ni 2); WRememberState; WArgsSize (ni 9); WRestore0 (ni 1)];
      pfde = [WAdvanceLoc0 (ni 1)] };
    (* 5: fails mid-FDE (restore_state on an empty stack) after rows, with many initial rules *)
    { pc = mk 5 4 4 8; pcie = [WOffset0 (ni 1, ni 1); WOffset0 (ni 2, ni 2)];
      pfde = [WAdvanceLoc0 (ni 1); WUndefined (ni 9); WAdvanceLoc0 (ni 1); WRestoreState; WAdvanceLoc0 (ni 1)] };
    (* 6: StackFull in the FDE on every bounded storage (9 pushes), rows pushed stay behind *)
    { pc = mk 6 4 1 (-8); pcie = [WOffset0 (ni 5, ni 1)]; pfde = WValOffset (ni 8, ni 3) :: WAdvanceLoc0 (ni 1) :: remember 9 @ [WAdvanceLoc0 (ni 1)] };
    (* 7: TooManyRegisterRules on every bounded storage (260 registers) *)
    { pc = mk 7 3 1 (-8); pcie = []; pfde = WAdvanceLoc0 (ni 1) :: fill_regs 100 260 @ [WAdvanceLoc0 (ni 1)] };
    (* 8: StackFull inside save_initial_rules on the heap storage: 2 rules + 3 pushed rows in the CIE *)
    { pc = mk 8 4 1 (-8); pcie = [WOffset0 (ni 1, ni 1); WOffset0 (ni 2, ni 2)] @ remember 3; pfde = [WAdvanceLoc0 (ni 1); WRestoreState] };
    (* 9: decode error in the CIE after a cfa expression and a pushed row *)
    { pc = mk 9 1 1 (-8); pcie = [WRememberState; WDefCfaExpression []; WNegateRaState; WNegateRaState; WRegister (ni 34, ni 1); WNegateRaState];
      pfde = [WAdvanceLoc0 (ni 3)] };
    (* 10: CIE leaves a pushed row and 3 rules; the FDE pops it *)
    { pc = mk 10 4 1 (-8); pcie = [WOffset0 (ni 1, ni 1); WRememberState; WSameValue (ni 2); WUndefined (ni 3)];
      pfde = [WAdvanceLoc0 (ni 1); WRestoreState; WAdvanceLoc0 (ni 1); WRestore0 (ni 2)] };
    (* 11: set_loc backwards mid-FDE; one initial rule *)
    { pc = mk 11 3 1 (-8); pcie = [WValOffset (ni 40, ni 1)];
      pfde = [WAdvanceLoc1 (ni 0x20); WRestoreExtended (ni 40); WSetLoc (ni 0xc10)] };
  ]

let pr_results rs = "ok " ^ String.concat " || " (List.map pr_result rs)

let () =
  let gen name ~full ~seed ~n emit =
    let r = mk_rng seed in
    let case storage (c : cfg) (secthex : string Lazy.t) (fdes : fde_in array Lazy.t) (uses : (int * how) list) =
      S_c06.sharded emit (fun () ->
      let fdes = Lazy.force fdes in
      let line = String.concat " "
          ([name; string_of_int storage; b01 c.aarch64; b01 c.be; string_of_int c.asize; Lazy.force secthex]
           @ List.concat_map (fun (i, h) ->
               match h with
               | Rows None -> [string_of_int i; "0"; "0"]
               | Rows (Some k) -> [string_of_int i; "1"; string_of_int (int_of_nat k)]
               | At a -> [string_of_int i; "2"; sn a]) uses) in
      (line, fun dbg ->
        if not full then "ok " ^ string_of_int (List.length uses) else
        let caps = caps_of_storage storage in
        match fresh_ctx caps with
        | None -> "panic"
        | Some cx -> pr_results (run_history dbg caps (List.map (fun (i, h) -> (fdes.(i), h)) uses) cx))) in
    (* exhaustive: all histories of length <= n over the pool, every use iterating all rows;
       plus the same histories with every use abandoned after one row *)
    let depth = if n <= 4 then n else 3 in
    List.iter (fun (be, asize, aarch64) ->
      let es = pool be asize aarch64 in
      let built = lazy (build_pool es) in
      let sect = lazy (hex_of_ints (fst (Lazy.force built))) and fdes = lazy (snd (Lazy.force built)) in
      let c = (List.hd es).pc in
      let p = List.length es in
      List.iter (fun storage ->
        let rec enum d acc =
          if acc <> [] then begin
            let h = List.rev acc in
            case storage c sect fdes (List.map (fun i -> (i, Rows None)) h);
            if d = depth then case storage c sect fdes (List.map (fun i -> (i, Rows (Some (nat_of_int 1)))) h)
          end;
          if d < depth then for i = 0 to p - 1 do enum (d + 1) (i :: acc) done in
        enum 0 []) [0; 2; 4; 5]) [(false, 8, true)];
    (* random longer histories, random way of using the context, every storage, both vendors *)
    let count = if n <= 4 then 1500 * n else n in
    for _ = 1 to count do
      let be = rand_bool r and asize = pick r [| 4; 8 |] and aarch64 = rand_bool r in
      let es = pool be asize aarch64 in
      let built = lazy (build_pool es) in
      let sect = lazy (hex_of_ints (fst (Lazy.force built))) and fdes = lazy (snd (Lazy.force built)) in
      let c = (List.hd es).pc in
      let p = List.length es in
      let len = 2 + rand_int r 10 in
      let uses = List.init len (fun _ ->
        let i = rand_int r p in
        let h = match rand_int r 4 with
          | 0 -> Rows (Some (nat_of_int (rand_int r 4)))
          | 1 -> At (n_of_z (Z.add (zi (0x100 * (i + 1))) (zi (rand_int r 0x90 - 4))))
          | _ -> Rows None in
        (i, h)) in
      case (rand_int r 6) c sect fdes uses
    done in
  register "c20.hist"
    ~doc:"EXHAUSTIVE: every history of length <= n (quick 3, thorough 4) over a pool of 12 FDEs (failing in the CIE, mid-FDE, by StackFull/TooManyRegisterRules, decode errors; 0/1/many initial rules) on ONE reused UnwindContext vs fresh contexts, storages heap,(2,3),(8,256),Vec; plus random histories of length 2..11 with partial iteration and address lookups on every storage"
    (gen "c20.hist" ~full:false);
  register "c20.histm"
    ~doc:"same histories; the results on the reused context are predicted by the model (CfiRun.run_history)"
    (gen "c20.histm" ~full:true)

let init () = ()
