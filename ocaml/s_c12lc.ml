(* s_c12lc.ml — stream c12.lineconv: Model/ConvertLine.v (ConvertLineProgram) against gimli.
   case: c12.lineconv <mode> <pattern> <be> <address_size> <.debug_line hex> <.debug_str hex> <.debug_line_str hex>
   (see harness/src/c12_lineconv.rs for the result format). Generators are those of C04 (S_c04: headers over the
   whole parameter grid v2-5, well-formed programs with state-aware boundary operands, wild instruction chunks,
   noise), adapted so that most tables convert: string offsets inside small .debug_str/.debug_line_str sections,
   directory indices inside the table, file registers inside the file table. *)
open Conv
open Streams
open LineSpec
open LineRd
open LineWr
open ConvertLine

let sn = string_of_n
let sz = string_of_cz
let b01 b = if b then "1" else "0"
let tf b = if b then "true" else "false"
let ni = n_of_int

(* ------------------------------------------------------------------ printing *)
let pr_wrow (r : wrow) =
  String.concat "," [sn r.w_address_offset; sn r.w_op_index; sn r.w_file; sn r.w_line; sn r.w_column;
                     sn r.w_discriminator;
                     b01 r.w_is_statement ^ b01 r.w_basic_block ^ b01 r.w_prologue_end ^ b01 r.w_epilogue_begin;
                     sn r.w_isa]
let pr_ev = function
  | CRSetAddress a -> "sa:" ^ sn a
  | CRRow r -> "row:" ^ pr_wrow r
  | CREndSequence n -> "es:" ^ sn n
let pr_seq (s : clseq) =
  Printf.sprintf "seq:%s:%s:%s"
    (match s.cs_start with Some a -> sn a | None -> "none")
    (match s.cs_end with SELength n -> "L" ^ sn n | SEAddress a -> "A" ^ sn a)
    (if s.cs_rows = [] then "-" else String.concat "+" (List.map pr_wrow s.cs_rows))
let pr_status = function
  | SEnd -> "end" | SErr e -> "err:" ^ Errnames.name e | SPanic -> "panic" | SFuel -> "outoffuel"

(* Rust `{:?}` of the write-side objects, whitespace removed *)
let dbg_bytes bs = "[" ^ String.concat "," (List.map (fun b -> string_of_int (int_of_byte b)) bs) ^ "]"
let dbg_lstr = function
  | LStr v -> "String(" ^ dbg_bytes v ^ ")"
  | LStrRef id -> "StringRef(StringId(" ^ sn id ^ "))"
  | LLineStrRef id -> "LineStringRef(LineStringId(" ^ sn id ^ "))"
let dbg_row (r : wrow) =
  Printf.sprintf "LineRow{address_offset:%s,op_index:%s,file:FileId(%s),line:%s,column:%s,discriminator:%s,is_statement:%s,basic_block:%s,prologue_end:%s,epilogue_begin:%s,isa:%s}"
    (sn r.w_address_offset) (sn r.w_op_index) (sn r.w_file) (sn r.w_line) (sn r.w_column) (sn r.w_discriminator)
    (tf r.w_is_statement) (tf r.w_basic_block) (tf r.w_prologue_end) (tf r.w_epilogue_begin) (sn r.w_isa)
let dbg_insn = function
  | LineWr.ISpecial v -> "Special(" ^ sn v ^ ")" | LineWr.ICopy -> "Copy"
  | LineWr.IAdvancePc v -> "AdvancePc(" ^ sn v ^ ")" | LineWr.IAdvanceLine v -> "AdvanceLine(" ^ sz v ^ ")"
  | LineWr.ISetFile f -> "SetFile(FileId(" ^ sn f ^ "))" | LineWr.ISetColumn v -> "SetColumn(" ^ sn v ^ ")"
  | INegateStatement -> "NegateStatement" | LineWr.ISetBasicBlock -> "SetBasicBlock" | LineWr.IConstAddPc -> "ConstAddPc"
  | LineWr.ISetPrologueEnd -> "SetPrologueEnd" | LineWr.ISetEpilogueBegin -> "SetEpilogueBegin"
  | LineWr.ISetIsa v -> "SetIsa(" ^ sn v ^ ")" | LineWr.IEndSequence -> "EndSequence"
  | LineWr.ISetAddress (AConst a) -> "SetAddress(Constant(" ^ sn a ^ "))"
  | LineWr.ISetAddress (ASym (s, a)) -> "SetAddress(Symbol{symbol:" ^ sn s ^ ",addend:" ^ sz a ^ "})"
  | LineWr.ISetDiscriminator v -> "SetDiscriminator(" ^ sn v ^ ")"
let dbg_set l = "{" ^ String.concat "," l ^ "}"
let dbg_prog (p : prog) =
  let e = p.p_enc and l = p.p_lenc in
  Printf.sprintf "LineProgram{none:false,encoding:Encoding{address_size:%s,format:%s,version:%s},line_encoding:LineEncoding{minimum_instruction_length:%s,maximum_operations_per_instruction:%s,default_is_stmt:%s,line_base:%s,line_range:%s},directories:%s,files:%s,file_has_timestamp:%s,file_has_size:%s,file_has_md5:%s,file_has_source:%s,prev_row:%s,row:%s,instructions:[%s],in_sequence:%s}"
    (sn e.e_addr_size) (if e.e_fmt64 then "Dwarf64" else "Dwarf32") (sn e.e_version)
    (sn l.le_min_len) (sn l.le_max_ops) (tf l.le_default_is_stmt) (sz l.le_line_base) (sn l.le_line_range)
    (dbg_set (List.map dbg_lstr p.p_dirs))
    (dbg_set (List.map (fun ((name, dir), (i : finfo)) ->
       Printf.sprintf "(%s,DirectoryId(%s)):FileInfo{timestamp:%s,size:%s,md5:%s,source:%s}" (dbg_lstr name) (sn dir)
         (sn i.fi_timestamp) (sn i.fi_size) (dbg_bytes i.fi_md5)
         (match i.fi_source with Some s -> "Some(" ^ dbg_lstr s ^ ")" | None -> "None")) p.p_files))
    (tf p.p_has_timestamp) (tf p.p_has_size) (tf p.p_has_md5) (tf p.p_has_source)
    (dbg_row p.p_prev) (dbg_row p.p_row) (String.concat "," (List.map dbg_insn p.p_insns)) (tf p.p_in_seq)

let hexs bs = hex_of_bytes bs
let resolve (ls : strtab) = function
  | LStr v -> hexs v
  | LLineStrRef id -> (try hexs (List.nth ls (int_of_n id)) with _ -> "?")
  | LStrRef _ -> "?"
let tail (c : cl) =
  let p = c.cl_prog and ls = c.cl_ls in
  let files = List.map (fun ((name, dir), (i : finfo)) ->
    Printf.sprintf "%s/%s/%s" (resolve ls name)
      (try resolve ls (List.nth p.p_dirs (int_of_n dir)) with _ -> "?")
      (match i.fi_source with Some s -> resolve ls s | None -> "none")) p.p_files in
  Printf.sprintf "f=%s | %s | ls=%s"
    (if c.cl_files = [] then "-" else String.concat "," (List.map sn c.cl_files))
    (dbg_prog p)
    (String.concat ";" (string_of_int (List.length ls) :: files))

(* ------------------------------------------------------------------ the model run of one case *)
let caddr pattern a : waddr option =
  if pattern = 1 && z_of_n a = Z.of_int 0xdead then None else Some (AConst a)

let expected dbg ~mode ~pattern be asz line strs line_strs : string =
  match parse_header dbg be (ni asz) line with
  | Res.Err e -> "hdr-err " ^ Errnames.name e
  | Res.Panic -> "panic" | Res.OutOfFuel -> "outoffuel"
  | Res.Ok h ->
    let sx = { sx_str = strs; sx_line_str = line_strs; sx_sup_str = None } in
    match cl_new dbg sx { sh_h = h; sh_comp_dir = None; sh_comp_name = None } [] with
    | Res.Err e -> "err " ^ Errnames.name e
    | Res.Panic -> "panic" | Res.OutOfFuel -> "outoffuel"
    | Res.Ok c ->
      if mode = 2 then
        match convert dbg be sx h (caddr pattern) c with
        | Res.Ok c' -> "ok converted " ^ tail c'
        | Res.Err e -> "ok err:" ^ Errnames.name e
        | Res.Panic -> "panic" | Res.OutOfFuel -> "outoffuel"
      else begin
        let out = ref [] and cur = ref c and fin = ref None and k = ref 0 in
        while !fin = None do
          let use_seq = mode = 1 || (mode = 3 && (pattern lsr (!k mod 16)) land 1 = 1) in
          incr k;
          if !k > 100000 then fin := Some "outoffuel"
          else if use_seq then begin
            match read_sequence dbg be sx h !cur with
            | (Res.Ok None, c') -> cur := c'; fin := Some "end"
            | (Res.Ok (Some s), c') -> cur := c'; out := pr_seq s :: !out
            | (Res.Err e, c') -> cur := c'; fin := Some ("err:" ^ Errnames.name e)
            | (Res.Panic, _) -> fin := Some "panic"
            | (Res.OutOfFuel, _) -> fin := Some "outoffuel"
          end else begin
            match read_row dbg be sx h !cur with
            | (Res.Ok None, c') -> cur := c'; fin := Some "end"
            | (Res.Ok (Some e), c') -> cur := c'; out := pr_ev e :: !out
            | (Res.Err e, c') -> cur := c'; fin := Some ("err:" ^ Errnames.name e)
            | (Res.Panic, _) -> fin := Some "panic"
            | (Res.OutOfFuel, _) -> fin := Some "outoffuel"
          end
        done;
        match !fin with
        | Some "panic" -> "panic" | Some "outoffuel" -> "outoffuel"
        | Some f -> String.concat " " ("ok" :: List.rev (f :: !out)) ^ " | " ^ tail !cur
        | None -> "?"
      end

(* ------------------------------------------------------------------ generators *)
let names = [| "a"; "src"; "/usr/include"; "x.c"; "lib/f.rs"; ""; "d"; "main.c" |]
let gen_strsec r =
  let parts = List.init (2 + rand_int r 4) (fun _ -> pick r names) in
  let s = String.concat "\000" parts ^ (if rand_int r 6 = 0 then "" else "\000") in
  List.init (String.length s) (fun i -> Char.code s.[i])

(* make the tables of a generated raw header convertible most of the time *)
let tame_raw r (c : S_c04.hcfg) ~nstr ~nlstr : S_c04.hcfg =
  let raw = c.S_c04.raw in
  let v = int_of_n raw.rh_version in
  let fmt64 = raw.rh_fmt64 in
  (* string components in a string form (inline, .debug_str, .debug_line_str) *)
  let fix_fmt (fm : entry_format list) = List.map (fun (e : entry_format) ->
    let ct = int_of_n e.ef_ct and form = int_of_n e.ef_form in
    if (ct = 1 || ct = 8193) && not (List.mem form [8; 14; 31]) && rand_int r 8 <> 0
    then { e with ef_form = ni (pick r [| 8; 8; 31; 14 |]) } else e) fm in
  let regen (fm0 : entry_format list) (fm : entry_format list) entry =
    List.map2 (fun ((e0 : entry_format), (e : entry_format)) x ->
      if e0.ef_form = e.ef_form then x else S_c04.gen_val r fmt64 (int_of_n e.ef_form)) (List.combine fm0 fm) entry in
  let dfmt = fix_fmt raw.rh_dir_fmt and ffmt = fix_fmt raw.rh_file_fmt in
  let dirs = if v <= 4 then raw.rh_dirs else List.map (regen raw.rh_dir_fmt dfmt) raw.rh_dirs in
  let files = if v <= 4 then raw.rh_files else List.map (regen raw.rh_file_fmt ffmt) raw.rh_files in
  let entry fm = List.map (fun (e : entry_format) -> S_c04.gen_val r fmt64 (int_of_n e.ef_form)) fm in
  (* DWARF 5 needs directory 0 and file 0 *)
  let dirs = if v >= 5 && dirs = [] && rand_int r 8 <> 0 then [entry dfmt] else dirs in
  let files = if v >= 5 && files = [] && rand_int r 8 <> 0 then [entry ffmt] else files in
  let ndirs = List.length dirs in
  let fix_val (v : form_val) = if rand_int r 10 = 0 then v else match v with
    | VStrRef _ -> VStrRef (ni (rand_int r (max 1 nstr)))
    | VLineStrRef _ -> VLineStrRef (ni (rand_int r (max 1 nlstr)))
    | v -> v in
  let dir_val (x : form_val) =
    let k = ni (rand_int r (ndirs + (if v <= 4 then 1 else 0) + (if rand_int r 8 = 0 then 1 else 0))) in
    if rand_int r 12 = 0 then x else match x with
    | VUdata _ -> VUdata k | VData1 _ -> VData1 k | VData2 _ -> VData2 k | VData4 _ -> VData4 k | VData8 _ -> VData8 k
    | x -> x in
  let dirs = List.map (List.map fix_val) dirs in
  let files =
    if v <= 4 then List.map (function [n; d; t; s] -> [n; dir_val d; t; s] | l -> l) files
    else List.map (fun entry ->
      List.map2 (fun (e : entry_format) x -> if int_of_n e.ef_ct = 2 then dir_val x else fix_val x) ffmt entry)
      files in
  { c with S_c04.raw = { raw with rh_dir_fmt = dfmt; rh_file_fmt = ffmt; rh_dirs = dirs; rh_files = files } }

(* keep the file register inside the table most of the time *)
let fix_insn r nfiles (i : insn) : insn = match i with
  | LineSpec.ISetFile _ when rand_int r 8 <> 0 -> LineSpec.ISetFile (ni (rand_int r (nfiles + 2)))
  | i -> i

let gen_case r i =
  let wild = i mod 5 = 0 in
  let version = if i mod 7 = 3 then 5 else S_c04.any_version r in
  let c0 = S_c04.gen_raw r ~version ~wild in
  (* the writer needs line_base <= 0 < line_base + line_range: keep most headers inside *)
  let c0 = if rand_int r 6 = 0 then c0 else
    let raw = c0.S_c04.raw in
    let lb = pick r [| -5; -3; -1; 0; -10; -128 |] in
    let lr = max (int_of_n raw.rh_line_range) (1 - lb) in
    { c0 with S_c04.raw = { raw with rh_line_base = cz_of_int lb; rh_line_range = ni (min 255 lr) } } in
  let strs = gen_strsec r and lstrs = gen_strsec r in
  let c = tame_raw r c0 ~nstr:(List.length strs) ~nlstr:(List.length lstrs) in
  let h0 = S_c04.hdr_of c [] in
  let nfiles = List.length c.S_c04.raw.rh_files in
  let mask = S_c04.mask_z (int_of_n h0.h_addr_size) in
  let one_seq () =
    let is = List.map (fix_insn r nfiles) (S_c04.gen_wf_prog r c (rand_int r 12)) in
    (* start in a file that exists (the default register 1 is outside a one-file DWARF 5 table) *)
    let is = if nfiles > 0 && rand_int r 4 <> 0
      then LineSpec.ISetFile (ni ((if version <= 4 then 1 else 0) + rand_int r nfiles)) :: is else is in
    let is = match rand_int r 10 with
      | 0 -> LineSpec.ISetAddress (S_c04.nz mask) :: is                        (* tombstoned sequence *)
      | 1 -> LineSpec.ISetAddress (S_c04.nz (Z.pred mask)) :: is
      | 2 -> List.filter (function LineSpec.ISetAddress _ -> false | _ -> true) is   (* no address at all *)
      | _ -> is in
    enc_prog c.S_c04.be h0 is in
  let prog = match rand_int r 10 with
    | 0 -> S_c04.gen_any_prog r c
    | 1 -> one_seq () @ S_c04.gen_wild_prog r c (1 + rand_int r 3)
    | _ -> List.concat (List.init (1 + rand_int r 3) (fun _ -> one_seq ())) in
  let bytes = S_c04.unit_of c prog in
  let bytes = if i mod 31 = 0 then S_c04.mutate_unit r c bytes else bytes in
  let mode, pattern = match rand_int r 8 with
    | 0 | 1 | 2 -> 0, 0
    | 3 | 4 -> 1, 0
    | 5 | 6 -> 2, rand_int r 2
    | _ -> 3, rand_int r 65536 in
  let sb = bytes_of_ints strs and lb = bytes_of_ints lstrs in
  let case = Printf.sprintf "c12.lineconv %d %d %s %d %s %s %s" mode pattern (b01 c.S_c04.be) c.S_c04.asz
               (hex_of_bytes bytes) (hex_of_bytes sb) (hex_of_bytes lb) in
  (case, fun dbg -> try expected dbg ~mode ~pattern c.S_c04.be c.S_c04.asz bytes sb lb with Stack_overflow -> "model-stack-overflow")

let () =
  register "c12.lineconv" ~doc:"ConvertLineProgram::{new, read_row, read_sequence, convert, program} vs Model/ConvertLine.v: C04's header grid (v2-5, both formats, entry formats, string forms) and programs (well-formed with boundary operands, several sequences, tombstoned sequences, mid-sequence set_address, define_file, unknown opcodes, wild chunks, noise); events, sequences, the converted LineProgram (Debug rendering) and the file map"
    (fun ~seed ~n emit -> S_c04.per_case emit ~seed ~salt:1201 ~n gen_case)

let init () = ()
