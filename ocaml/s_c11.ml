(* s_c11.ml — streams for C11 (written units read back as the same forest).
   A case is an API script; the model side folds it through the extracted Coq model (Model/UnitWr.v):
   Unit::{new,reserve,add_reserved,add}, entry set/delete/set_sibling/delete_child, StringTable::add,
   UnitTable::write (+ fix-ups), string table writers.  Opaque collaborators (range/location list
   offsets, line program offset) are computed here from the restricted shapes the generator emits. *)
open Conv
open Streams

(* ---------------------------------------------------------------- script AST *)
type enc = int * bool * int                       (* version, 64-bit format, address size *)

type v =
  | Addr of Z.t | Asym of int * Z.t | Blk of int list
  | D1 of int | D2 of int | D4 of Z.t | D8 of Z.t | D16 of Z.t
  | Sd of Z.t | Ud of Z.t | Ic of Z.t | Ex of int list | Fl of bool | Fp
  | Ur of int * int | Ir of int * int * int | Isym of int | Irs of Z.t
  | Lp | Ll of int | Mi of Z.t | Ma of Z.t | Rl of int | Ty of Z.t
  | St of int | Ss of Z.t | Ls of int | Str of int list
  | K of int * Z.t | Fi of int option
  | Xr of int * int * int                  (* expression with one reference op: kind, unit, entry (oracle streams only) *)

type op =
  | U of enc * (enc * int) option
  | S of int list | L of int list
  | R of int * Z.t * (Z.t * Z.t) list
  | O of int * Z.t * (Z.t * Z.t * int list) list
  | P of int * Z.t * (Z.t * Z.t * (int * int * int)) list   (* location list of reference expressions (oracle streams only) *)
  | E of int * int * int                   (* unit, parent, tag *)
  | Rsv of int
  | A of int * int * int * int             (* unit, child, parent, tag *)
  | Set of int * int * int * v             (* unit, entry, name, value *)
  | Del of int * int * int
  | Sib of int * int * bool
  | Xc of int * int * int                  (* unit, parent, child *)
  | W
  | Note of string                      (* ignored by the interpreter: names the family of a case *)

let si = string_of_int
let sz = Z.to_string
let sb b = if b then "1" else "0"
let s_enc (v, f, a) = Printf.sprintf "%d %s %d" v (sb f) a

let s_val = function
  | Addr a -> "addr " ^ sz a | Asym (s, a) -> Printf.sprintf "asym %d %s" s (sz a)
  | Blk b -> "blk " ^ hex_of_ints b
  | D1 x -> "d1 " ^ si x | D2 x -> "d2 " ^ si x | D4 x -> "d4 " ^ sz x | D8 x -> "d8 " ^ sz x
  | D16 x -> "d16 " ^ sz x
  | Sd x -> "sd " ^ sz x | Ud x -> "ud " ^ sz x | Ic x -> "ic " ^ sz x
  | Ex b -> "ex " ^ hex_of_ints b | Fl b -> "fl " ^ sb b | Fp -> "fp"
  | Ur (u, i) -> Printf.sprintf "ur %d %d" u i
  | Ir (t, u, i) -> Printf.sprintf "ir %d %d %d" t u i
  | Isym s -> "isym " ^ si s | Irs x -> "irs " ^ sz x
  | Lp -> "lp" | Ll k -> "ll " ^ si k | Mi x -> "mi " ^ sz x | Ma x -> "ma " ^ sz x
  | Rl k -> "rl " ^ si k | Ty x -> "ty " ^ sz x
  | St k -> "st " ^ si k | Ss x -> "ss " ^ sz x | Ls k -> "ls " ^ si k
  | Str b -> "str " ^ hex_of_ints b
  | K (k, x) -> Printf.sprintf "k %d %s" k (sz x)
  | Fi None -> "fi -1" | Fi (Some k) -> "fi " ^ si k
  | Xr (k, u, i) -> Printf.sprintf "xr %d %d %d" k u i

let s_op = function
  | U (e, None) -> Printf.sprintf "U %s 0" (s_enc e)
  | U (e, Some (le, nf)) -> Printf.sprintf "U %s 1 %s %d" (s_enc e) (s_enc le) nf
  | S b -> "S " ^ hex_of_ints b
  | L b -> "L " ^ hex_of_ints b
  | R (u, a, ps) ->
      Printf.sprintf "R %d %s %d%s" u (sz a) (List.length ps)
        (String.concat "" (List.map (fun (b, e) -> " " ^ sz b ^ " " ^ sz e) ps))
  | O (u, a, ps) ->
      Printf.sprintf "O %d %s %d%s" u (sz a) (List.length ps)
        (String.concat "" (List.map (fun (b, e, x) -> " " ^ sz b ^ " " ^ sz e ^ " " ^ hex_of_ints x) ps))
  | P (u, a, ps) ->
      Printf.sprintf "P %d %s %d%s" u (sz a) (List.length ps)
        (String.concat "" (List.map (fun (b, e, (k, tu, i)) -> Printf.sprintf " %s %s %d %d %d" (sz b) (sz e) k tu i) ps))
  | E (u, p, t) -> Printf.sprintf "e %d %d %d" u p t
  | Rsv u -> "r " ^ si u
  | A (u, c, p, t) -> Printf.sprintf "a %d %d %d %d" u c p t
  | Set (u, e, n, v) -> Printf.sprintf "s %d %d %d %s" u e n (s_val v)
  | Del (u, e, n) -> Printf.sprintf "d %d %d %d" u e n
  | Sib (u, e, b) -> Printf.sprintf "b %d %d %s" u e (sb b)
  | Xc (u, p, c) -> Printf.sprintf "x %d %d %d" u p c
  | W -> "W"
  | Note t -> "N " ^ t

let s_script ops = String.concat " " (List.map s_op ops)

(* ---------------------------------------------------------------- model evaluation *)
exception Stop of string

let get_ok : 'a Res.res -> 'a = function
  | Res.Ok a -> a
  | Res.Err e -> raise (Stop ("err " ^ Errnames.name e))
  | Res.Panic -> raise (Stop "panic")
  | Res.OutOfFuel -> raise (Stop "outoffuel")

let mk_enc (v, f, a) : UnitWrSpec.encoding =
  { UnitWrSpec.e_ver = n_of_int v; e_fmt64 = f; e_asz = n_of_int a }

type ust = {
  enc : enc;
  lp : (enc * int) option;
  mutable wu : UnitWr.wunit;
  mutable rngs : (Z.t * (Z.t * Z.t) list) list;             (* unique lists, table order *)
  mutable rng_calls : int list;                               (* call number -> id *)
  mutable locs : (Z.t * (Z.t * Z.t * int list) list) list;
  mutable loc_calls : int list;
  mutable written : bool;
  mutable unit_off : BinNums.coq_N;
  mutable ent_off : BinNums.coq_N list;
}

let index_of x l =
  let rec go i = function [] -> None | y :: r -> if y = x then Some i else go (i + 1) r in go 0 l

let usize n = int_of_n (Leb.uleb128_size (n_of_z n))

(* offsets the range list writer assigns (write/range.rs) for lists [BaseAddress a; OffsetPair b e ...];
   returns (result, new section length) *)
let range_offsets (v, fmt64, asz) (lists : (Z.t * (Z.t * Z.t) list) list) (len_old, len_new) =
  let ok_size = (asz = 1 || asz = 2 || asz = 4 || asz = 8) in
  let fits x = Z.numbits x <= 8 * asz in
  if lists = [] then (Res.Ok [], (len_old, len_new))
  else if v >= 2 && v <= 4 then begin
    let cur = ref len_old in
    let offs = ref [] in
    let err = ref None in
    List.iter (fun (a, ps) ->
      if !err = None then begin
        offs := !cur :: !offs;
        if not ok_size then err := Some Res.WUnsupportedWordSize
        else if not (fits a) then err := Some Res.WValueTooLarge
        else begin
          cur := !cur + 2 * asz;
          List.iter (fun (b, e) ->
            if !err = None then
              if Z.equal b e then err := Some Res.WInvalidRange
              else if not (fits b && fits e) then err := Some Res.WValueTooLarge
              else cur := !cur + 2 * asz) ps;
          cur := !cur + 2 * asz
        end
      end) lists;
    match !err with
    | Some e -> (Res.Err e, (len_old, len_new))
    | None -> (Res.Ok (List.rev_map n_of_int !offs), (!cur, len_new))
  end else if v = 5 then begin
    let cur = ref (len_new + (if fmt64 then 12 else 4) + 8) in
    let offs = ref [] in
    let err = ref None in
    List.iter (fun (a, ps) ->
      if !err = None then begin
        offs := !cur :: !offs;
        if not ok_size then err := Some Res.WUnsupportedWordSize
        else if not (fits a) then err := Some Res.WValueTooLarge
        else begin
          cur := !cur + 1 + asz;
          List.iter (fun (b, e) -> cur := !cur + 1 + usize b + usize e) ps;
          cur := !cur + 1
        end
      end) lists;
    match !err with
    | Some e -> (Res.Err e, (len_old, len_new))
    | None -> (Res.Ok (List.rev_map n_of_int !offs), (len_old, !cur))
  end else (Res.Err Res.WUnsupportedVersion, (len_old, len_new))

(* same for write/loc.rs with [BaseAddress a; OffsetPair b e (raw expression) ...] *)
let loc_offsets (v, fmt64, asz) (lists : (Z.t * (Z.t * Z.t * int list) list) list) (len_old, len_new) =
  let ok_size = (asz = 1 || asz = 2 || asz = 4 || asz = 8) in
  let fits x = Z.numbits x <= 8 * asz in
  if lists = [] then (Res.Ok [], (len_old, len_new))
  else if v >= 2 && v <= 4 then begin
    let cur = ref len_old in
    let offs = ref [] in
    let err = ref None in
    List.iter (fun (a, ps) ->
      if !err = None then begin
        offs := !cur :: !offs;
        if not ok_size then err := Some Res.WUnsupportedWordSize
        else if not (fits a) then err := Some Res.WValueTooLarge
        else begin
          cur := !cur + 2 * asz;
          List.iter (fun (b, e, x) ->
            if !err = None then
              if Z.equal b e then err := Some Res.WInvalidRange
              else if not (fits b && fits e) then err := Some Res.WValueTooLarge
              else cur := !cur + 2 * asz + 2 + List.length x) ps;
          cur := !cur + 2 * asz
        end
      end) lists;
    match !err with
    | Some e -> (Res.Err e, (len_old, len_new))
    | None -> (Res.Ok (List.rev_map n_of_int !offs), (!cur, len_new))
  end else if v = 5 then begin
    let cur = ref (len_new + (if fmt64 then 12 else 4) + 8) in
    let offs = ref [] in
    let err = ref None in
    List.iter (fun (a, ps) ->
      if !err = None then begin
        offs := !cur :: !offs;
        if not ok_size then err := Some Res.WUnsupportedWordSize
        else if not (fits a) then err := Some Res.WValueTooLarge
        else begin
          cur := !cur + 1 + asz;
          List.iter (fun (b, e, x) ->
            let l = List.length x in
            cur := !cur + 1 + usize b + usize e + usize (Z.of_int l) + l) ps;
          cur := !cur + 1
        end
      end) lists;
    match !err with
    | Some e -> (Res.Err e, (len_old, len_new))
    | None -> (Res.Ok (List.rev_map n_of_int !offs), (len_old, !cur))
  end else (Res.Err Res.WUnsupportedVersion, (len_old, len_new))

let eval (dbg : bool) (be : bool) (ops : op list) : string =
  let units : ust list ref = ref [] in          (* in index order *)
  let strs = ref UnitWr.strtab_empty and str_calls = ref [] in
  let lstrs = ref UnitWr.strtab_empty and lstr_calls = ref [] in
  let sec = ref { UnitWr.s_info = []; s_abbrev = []; s_fixups = [] } in
  let rng_len = ref (0, 0) and loc_len = ref (0, 0) in
  let unit u = try List.nth !units u with _ -> raise (Stop "bad-script_unit") in
  let nth_call l k = try List.nth l k with _ -> raise (Stop "bad-script_id") in
  let aval u (x : v) : UnitWr.aval =
    let nz = n_of_z and ni = n_of_int in
    match x with
    | Addr a -> UnitWr.AvAddress (UnitWr.AConst (nz a))
    | Asym (s, a) -> UnitWr.AvAddress (UnitWr.ASym (ni s, cz_of_z a))
    | Blk b -> UnitWr.AvBlock (bytes_of_ints b)
    | D1 x -> UnitWr.AvData1 (ni x) | D2 x -> UnitWr.AvData2 (ni x)
    | D4 x -> UnitWr.AvData4 (nz x) | D8 x -> UnitWr.AvData8 (nz x) | D16 x -> UnitWr.AvData16 (nz x)
    | Sd x -> UnitWr.AvSdata (cz_of_z x) | Ud x -> UnitWr.AvUdata (nz x) | Ic x -> UnitWr.AvImplicitConst (cz_of_z x)
    | Ex b -> UnitWr.AvExprloc { UnitWr.x_size = Res.Ok (ni (List.length b)); x_out = Res.Ok (bytes_of_ints b) }
    | Fl b -> UnitWr.AvFlag b | Fp -> UnitWr.AvFlagPresent
    | Ur (iu, i) -> UnitWr.AvUnitRef { UnitWr.id_unit = nat_of_int iu; id_idx = nat_of_int i }
    | Ir (t, eu, i) ->
        UnitWr.AvDebugInfoRef (UnitWr.DEntry (nat_of_int t, { UnitWr.id_unit = nat_of_int eu; id_idx = nat_of_int i }))
    | Isym s -> UnitWr.AvDebugInfoRef (UnitWr.DSym (ni s))
    | Irs x -> UnitWr.AvDebugInfoRefSup (nz x)
    | Lp -> UnitWr.AvLineProgramRef
    | Ll k -> UnitWr.AvLocationListRef (nat_of_int (nth_call (unit u).loc_calls k))
    | Mi x -> UnitWr.AvDebugMacinfoRef (nz x) | Ma x -> UnitWr.AvDebugMacroRef (nz x)
    | Rl k -> UnitWr.AvRangeListRef (nat_of_int (nth_call (unit u).rng_calls k))
    | Ty x -> UnitWr.AvDebugTypesRef (nz x)
    | St k -> UnitWr.AvStringRef (nat_of_int (nth_call !str_calls k))
    | Ss x -> UnitWr.AvDebugStrRefSup (nz x)
    | Ls k -> UnitWr.AvLineStringRef (nat_of_int (nth_call !lstr_calls k))
    | Str b -> UnitWr.AvString (bytes_of_ints b)
    | K (k, x) ->
        let x = nz x in
        (match k with
         | 0 -> UnitWr.AvEncoding x | 1 -> UnitWr.AvDecimalSign x | 2 -> UnitWr.AvEndianity x
         | 3 -> UnitWr.AvAccessibility x | 4 -> UnitWr.AvVisibility x | 5 -> UnitWr.AvVirtuality x
         | 6 -> UnitWr.AvLanguage x | 7 -> UnitWr.AvAddressClass x | 8 -> UnitWr.AvIdentifierCase x
         | 9 -> UnitWr.AvCallingConvention x | 10 -> UnitWr.AvInline x | _ -> UnitWr.AvOrdering x)
    | Fi None -> UnitWr.AvFileIndex None
    | Fi (Some k) -> UnitWr.AvFileIndex (Some (ni k))
    | Xr _ -> raise (Stop "bad-script_oracle-only-value")   (* expressions holding references are opaque to the model *)
  in
  let do_write () =
    (* opaque collaborators of the units written by this call, in write order *)
    let rl = ref !rng_len and ll = ref !loc_len in
    let tunits = List.map (fun (u : ust) ->
      let params =
        if u.written then
          { UnitWr.up_lp_none = true; up_lp_nonempty = false; up_lp_version = n_of_int 2; up_lp_write = Res.Ok BinNums.N0;
            up_rng = Res.Ok []; up_loc = Res.Ok [] }
        else begin
          let (rr, rl') = range_offsets u.enc u.rngs !rl in
          let (lr, ll') = loc_offsets u.enc u.locs !ll in
          rl := rl'; ll := ll';
          let (uv, _, ua) = u.enc in
          let lpw = match u.lp with
            | None -> Res.Ok BinNums.N0
            | Some ((lv, _, la), _) ->
                if (uv < 5 && lv >= 5) || ua <> la then Res.Err Res.WIncompatibleLineProgramEncoding
                else Res.Ok BinNums.N0 in
          { UnitWr.up_lp_none = (u.lp = None); up_lp_nonempty = false;
            up_lp_version = n_of_int (match u.lp with None -> 2 | Some ((lv, _, _), _) -> lv);   (* LineProgram::none() is version 2 *)
            up_lp_write = lpw;
            up_rng = rr; up_loc = lr }
        end in
      { UnitWr.tu_unit = u.wu; tu_params = params; tu_written = u.written;
        tu_unit_off = u.unit_off; tu_entries = u.ent_off }) !units in
    let (tus, s') = get_ok (UnitWr.table_write dbg be (!lstrs).UnitWr.st_offsets (!strs).UnitWr.st_offsets tunits !sec) in
    List.iter2 (fun (u : ust) (t : UnitWr.tunit) ->
      u.written <- t.UnitWr.tu_written; u.unit_off <- t.UnitWr.tu_unit_off; u.ent_off <- t.UnitWr.tu_entries)
      !units tus;
    sec := s'; rng_len := !rl; loc_len := !ll
  in
  try
    List.iter (fun o ->
      match o with
      | U (e, lp) ->
          units := !units @ [ { enc = e; lp; wu = UnitWr.unit_new (mk_enc e); rngs = []; rng_calls = [];
                                locs = []; loc_calls = []; written = false; unit_off = BinNums.N0; ent_off = [] } ]
      | S b ->
          let (id, t) = get_ok (UnitWr.strtab_add dbg !strs (bytes_of_ints b)) in
          strs := t; str_calls := !str_calls @ [int_of_nat id]
      | L b ->
          let (id, t) = get_ok (UnitWr.strtab_add dbg !lstrs (bytes_of_ints b)) in
          lstrs := t; lstr_calls := !lstr_calls @ [int_of_nat id]
      | R (u, a, ps) ->
          let us = unit u in
          let id = match index_of (a, ps) us.rngs with
            | Some i -> i
            | None -> us.rngs <- us.rngs @ [(a, ps)]; List.length us.rngs - 1 in
          us.rng_calls <- us.rng_calls @ [id]
      | O (u, a, ps) ->
          let us = unit u in
          let id = match index_of (a, ps) us.locs with
            | Some i -> i
            | None -> us.locs <- us.locs @ [(a, ps)]; List.length us.locs - 1 in
          us.loc_calls <- us.loc_calls @ [id]
      | P _ -> raise (Stop "bad-script_oracle-only-op")
      | E (u, p, t) ->
          let us = unit u in
          let (_, w) = get_ok (UnitWr.unit_add dbg us.wu (nat_of_int p) (n_of_int t)) in us.wu <- w
      | Rsv u ->
          let us = unit u in
          let (_, w) = UnitWr.unit_reserve us.wu in us.wu <- w
      | A (u, c, p, t) ->
          let us = unit u in
          us.wu <- get_ok (UnitWr.unit_add_reserved dbg us.wu (nat_of_int c) (nat_of_int p) (n_of_int t))
      | Set (u, e, n, x) ->
          let us = unit u in
          let a = aval u x in
          us.wu <- get_ok (UnitWr.unit_upd us.wu (nat_of_int e) (UnitWr.entry_set dbg (n_of_int n) a))
      | Del (u, e, n) ->
          let us = unit u in
          us.wu <- get_ok (UnitWr.unit_upd us.wu (nat_of_int e) (fun x -> Res.Ok (UnitWr.entry_delete (n_of_int n) x)))
      | Sib (u, e, b) ->
          let us = unit u in
          us.wu <- get_ok (UnitWr.unit_upd us.wu (nat_of_int e) (fun x -> Res.Ok (UnitWr.entry_set_sibling b x)))
      | Xc (u, p, c) ->
          let us = unit u in
          us.wu <- get_ok (UnitWr.unit_upd us.wu (nat_of_int p) (fun x -> Res.Ok (UnitWr.entry_delete_child (nat_of_int c) x)))
      | W -> do_write ()
      | Note _ -> ()) ops;
    do_write ();
    Printf.sprintf "ok %s %s %s %s"
      (hex_of_bytes (!sec).UnitWr.s_info) (hex_of_bytes (!sec).UnitWr.s_abbrev)
      (hex_of_bytes (UnitWr.strtab_write !strs)) (hex_of_bytes (UnitWr.strtab_write !lstrs))
  with Stop s -> s

(* Streams.both is lazy/shard-aware: the model is evaluated only for this process's share *)
let both_sharded = both
let counter = ref 0

(* ---------------------------------------------------------------- generators *)
let p2 k = Z.shift_left Z.one k
let exprs = [| [0x9c]; [0x91; 0x78]; [0x50]; [0x23; 0x08]; [0x10; 0x80; 0x01]; []; [0x9c; 0x9f];
               List.init 130 (fun _ -> 0x96) |]
let tags = [| 0x24; 0x24; 0x2e; 0x34; 0x13; 0x0b; 0x16; 0x0f; 0x05; 0x24; 0x39; 0x1d |]

(* every value kind with boundary payloads; `ctx` gives what can be referenced *)
type ctx = { nstr : int; nlstr : int; nrng : int; nloc : int; nfiles : int;
             targets : (int * int) list;   (* (unit, entry) that exist (maybe unreachable) *)
             here : int; asz : int; fmt64 : bool; has_lp : bool }

let kinds = 41
let names_for r k =
  let pk a = pick r a in
  match k with
  | 0 | 1 -> pk [| 0x11; 0x52; 0x3a01 |]
  | 2 -> pk [| 0x1c; 0x3a02 |]
  | 3 | 4 | 5 | 6 | 7 -> pk [| 0x1c; 0x3a03; 0x3a04 |]
  | 8 | 10 -> pk [| 0x1c; 0x3a05; 0x3a06 |]
  | 9 -> pk [| 0x1c; 0x0b; 0x3a05 |]
  | 11 -> pk [| 0x02; 0x40 |]
  | 12 | 13 -> pk [| 0x3f; 0x3c; 0x3a07 |]
  | 14 -> pk [| 0x49; 0x31; 0x47 |]
  | 15 -> pk [| 0x49; 0x31; 0x18 |]
  | 16 -> 0x49
  | 17 -> pk [| 0x49; 0x3a08 |]
  | 18 -> 0x10
  | 19 -> pk [| 0x02; 0x40 |]
  | 20 -> 0x43
  | 21 -> 0x79
  | 22 -> 0x55
  | 23 -> pk [| 0x69; 0x49 |]
  | 24 | 26 | 27 -> pk [| 0x03; 0x25; 0x6e; 0x3a0a |]
  | 25 -> 0x3a0b
  | 28 -> 0x3e | 29 -> 0x5e | 30 -> 0x65 | 31 -> 0x32 | 32 -> 0x17 | 33 -> 0x4c
  | 34 -> 0x13 | 35 -> 0x33 | 36 -> 0x42 | 37 -> 0x36 | 38 -> 0x20 | 39 -> 0x09
  | _ -> pk [| 0x3a; 0x58 |]

let u8s = [| 0; 1; 5; 0x7f; 0x80; 0xff |]
let signed r =
  let z = boundary_z64 r in
  if Z.numbits z > 63 then Z.sub z (p2 64) else if rand_bool r then Z.neg z else z
let small_off r fmt64 =
  match rand_int r 8 with
  | 0 -> Z.zero
  | 1 -> Z.pred (p2 32)
  | 2 -> if fmt64 then p2 32 else Z.of_int 77      (* >= 2^32 is an error in the 32-bit format *)
  | 3 -> if rand_int r 4 = 0 then p2 32 else Z.of_int 0x1234
  | _ -> Z.of_int (rand_int r 70000)

let gen_value ?(safe=false) r (c : ctx) k : v option =
  let small_off r f = if safe then Z.of_int (rand_int r 70000) else small_off r f in
  match k with
  | 0 -> Some (Addr (match rand_int r 6 with
                     | 0 -> Z.zero | 1 -> Z.pred (p2 (8 * c.asz))
                     | 2 when not safe -> if c.asz >= 8 then Z.pred (p2 64) else p2 (8 * c.asz)
                     | 3 when not safe -> Z.pred (p2 64)
                     | _ -> Z.of_int (rand_int r (if c.asz = 1 then 200 else 30000))))
  | 1 -> if safe then None else Some (Asym (rand_int r 3, Z.of_int (rand_int r 9 - 4)))
  | 2 -> Some (Blk (match rand_int r 6 with
                    | 0 -> [] | 1 -> rand_bytes r 127 | 2 -> rand_bytes r 128 | _ -> rand_bytes r (rand_int r 6)))
  | 3 -> Some (D1 (if rand_bool r then pick r u8s else rand_int r 256))
  | 4 -> Some (D2 (pick r [| 0; 1; 0xff; 0x100; 0x7fff; 0x8000; 0xffff; 0x1234 |]))
  | 5 -> Some (D4 (pick r [| Z.zero; Z.one; Z.pred (p2 32); p2 31; Z.of_int 0x12345678 |]))
  | 6 -> Some (D8 (boundary_z64 r))
  | 7 -> Some (D16 (match rand_int r 4 with
                    | 0 -> Z.zero | 1 -> Z.pred (p2 128) | 2 -> p2 64
                    | _ -> Z.add (Z.shift_left (rand_z64 r) 64) (rand_z64 r)))
  | 8 -> Some (Sd (signed r))
  | 9 -> Some (Ud (boundary_z64 r))
  | 10 -> Some (Ic (signed r))
  | 11 -> Some (Ex (pick r exprs))
  | 12 -> Some (Fl (rand_bool r))
  | 13 -> Some Fp
  | 14 -> (match List.filter (fun (u, _) -> u = c.here) c.targets with
           | [] -> None
           | l -> let (u, i) = List.nth l (rand_int r (List.length l)) in Some (Ur (u, i)))
  | 15 -> (match c.targets with
           | [] -> None
           | l -> let (u, i) = List.nth l (rand_int r (List.length l)) in Some (Ir (u, u, i)))
  | 16 -> if safe then None else Some (Isym (rand_int r 3))
  | 17 -> Some (Irs (small_off r c.fmt64))
  | 18 -> if safe && not c.has_lp then None else Some Lp
  | 19 -> if c.nloc = 0 then None else Some (Ll (rand_int r c.nloc))
  | 20 -> Some (Mi (small_off r c.fmt64))
  | 21 -> Some (Ma (small_off r c.fmt64))
  | 22 -> if c.nrng = 0 then None else Some (Rl (rand_int r c.nrng))
  | 23 -> Some (Ty (boundary_z64 r))
  | 24 -> if c.nstr = 0 then None else Some (St (rand_int r c.nstr))
  | 25 -> Some (Ss (small_off r c.fmt64))
  | 26 -> if c.nlstr = 0 then None else Some (Ls (rand_int r c.nlstr))
  | 27 -> Some (Str (List.init (rand_int r 5) (fun _ -> 1 + rand_int r 255)))
  | 34 -> Some (K (6, Z.of_int (pick r [| 0; 1; 0x1c; 0x7f; 0x80; 0x3fff; 0x4000; 0x8000; 0xffff |])))
  | 35 -> Some (K (7, boundary_z64 r))
  | k when k >= 28 && k <= 39 -> Some (K (k - 28, Z.of_int (pick r u8s)))
  | _ ->
      if c.has_lp && c.nfiles > 0 && rand_int r 4 <> 0 then Some (Fi (Some (rand_int r c.nfiles)))
      else Some (Fi None)

let versions r = match rand_int r 24 with
  | 0 -> pick r [| 0; 1; 6; 65535 |]
  | _ -> pick r [| 2; 3; 4; 5 |]
let asizes r = match rand_int r 20 with
  | 0 -> pick r [| 1; 2 |] | 1 -> if rand_int r 3 = 0 then 3 else 8 | _ -> pick r [| 4; 8 |]

(* one random script. multi_lp: several units may own a line program (semantic stream only). *)
let gen_script r ~multi_lp ~(mode : int) : op list =
  let nunits = if mode = 2 then 1 else (match rand_int r 10 with 0 | 1 | 2 | 3 -> 1 | 4 | 5 | 6 -> 2 | 7 | 8 -> 3 | _ -> 4) in
  let ops = ref [] in
  let push o = ops := o :: !ops in
  let encs = Array.make nunits (4, false, 8) in
  let lps = Array.make nunits None in
  let nent = Array.make nunits 1 in                     (* ids issued (reserved counter) *)
  let added = Array.make nunits [0] in                  (* ids that are in the arena as added entries *)
  let pending = Array.make nunits [] in                 (* reserved, not yet added *)
  let nrng = Array.make nunits 0 and nloc = Array.make nunits 0 in
  let nstr = ref 0 and nlstr = ref 0 in
  let lp_used = ref false in
  let pool = [| [0x61]; [0x62; 0x63]; []; [0x61]; [0x7a; 0x7a; 0x7a]; [0x62; 0x63] |] in
  (* unit groups: one group unless incremental *)
  let groups =
    if mode = 1 && nunits > 1 then begin
      let cut = 1 + rand_int r (nunits - 1) in
      [ List.init cut (fun i -> i); List.init (nunits - cut) (fun i -> cut + i) ]
    end else [ List.init nunits (fun i -> i) ] in
  let first_group = ref true in
  List.iter (fun group ->
    if not !first_group then push W;
    first_group := false;
    (* 1. units *)
    List.iter (fun u ->
      let e = (versions r, rand_bool r, asizes r) in
      encs.(u) <- e;
      let (uv, _, ua) = e in
      let lp =
        if (multi_lp || not !lp_used) && rand_int r 3 = 0 then begin
          lp_used := true;
          let lv = if rand_int r 12 = 0 then pick r [| 2; 3; 4; 5 |] else (if uv >= 2 && uv <= 5 then uv else 4) in
          let la = if rand_int r 12 = 0 then (if ua = 4 then 8 else 4) else ua in
          (* same version unless the stream explores the documented mixed case (v5 unit, older program) *)
          Some ((lv, rand_bool r, la), rand_int r 3)
        end else None in
      lps.(u) <- lp;
      push (U (e, lp))) group;
    (* 2. strings and lists *)
    for _ = 1 to rand_int r 5 do push (S (pick r pool)); incr nstr done;
    for _ = 1 to rand_int r 3 do push (L (pick r pool)); incr nlstr done;
    if (not multi_lp) && rand_int r 400 = 0 then (push (S [0x61; 0; 0x62]); incr nstr);   (* documented panic *)
    List.iter (fun u ->
      let (_, _, asz) = encs.(u) in
      let lim = if asz = 1 then 40 else 5000 in
      let mk_pairs k = List.init k (fun _ ->
        let b = rand_int r lim in
        let e = if rand_int r 60 = 0 then b else b + 1 + rand_int r lim in (Z.of_int b, Z.of_int e)) in
      let rl = ref [] in
      for _ = 1 to rand_int r 4 do
        let l = if !rl <> [] && rand_int r 3 = 0 then List.nth !rl (rand_int r (List.length !rl))
          else (Z.of_int (rand_int r lim), mk_pairs (rand_int r 3)) in
        rl := l :: !rl;
        push (R (u, fst l, snd l)); nrng.(u) <- nrng.(u) + 1
      done;
      let ll = ref [] in
      for _ = 1 to rand_int r 3 do
        let l = if !ll <> [] && rand_int r 3 = 0 then List.nth !ll (rand_int r (List.length !ll))
          else (Z.of_int (rand_int r lim),
                List.map (fun (b, e) -> (b, e, pick r exprs)) (mk_pairs (rand_int r 3))) in
        ll := l :: !ll;
        push (O (u, (let (a, _) = l in a), snd l)); nloc.(u) <- nloc.(u) + 1
      done) group;
    (* 3. structure *)
    let structure u k =
      for _ = 1 to k do
        match rand_int r 10 with
        | 0 | 1 ->
            push (Rsv u); pending.(u) <- nent.(u) :: pending.(u); nent.(u) <- nent.(u) + 1
        | 2 | 3 when pending.(u) <> [] ->
            let c = List.nth pending.(u) (rand_int r (List.length pending.(u))) in
            let p = List.nth added.(u) (rand_int r (List.length added.(u))) in
            push (A (u, c, p, pick r tags));
            pending.(u) <- List.filter (fun x -> x <> c) pending.(u);
            added.(u) <- c :: added.(u)
        | _ ->
            let p = if rand_int r 3 = 0 then 0 else List.nth added.(u) (rand_int r (List.length added.(u))) in
            push (E (u, p, pick r tags));
            added.(u) <- nent.(u) :: added.(u); nent.(u) <- nent.(u) + 1
      done in
    List.iter (fun u -> structure u (rand_int r 10)) group;
    (* 4. attributes *)
    let all_targets () =
      let gmax = List.fold_left max 0 group in
      List.concat (List.init nunits (fun u -> if u > gmax then [] else List.init nent.(u) (fun i -> (u, i)))) in
    List.iter (fun u ->
      let (_, fmt64, asz) = encs.(u) in
      let nfiles = match lps.(u) with
        | None -> 0 | Some ((lv, _, _), nf) -> nf + (if lv >= 5 then 1 else 0) in
      (* units of later groups do not exist yet: only ids of units created so far are known *)
      let known = List.filter (fun (tu, _) -> tu <= List.fold_left max 0 group) (all_targets ()) in
      let known = if mode = 2 then List.filter (fun (tu, _) -> tu = u) known else known in
      let c = { nstr = !nstr; nlstr = !nlstr; nrng = nrng.(u); nloc = nloc.(u); nfiles;
                targets = known; here = u; asz; fmt64; has_lp = lps.(u) <> None } in
      List.iter (fun e ->
        for _ = 1 to rand_int r 4 do
          let k = rand_int r kinds in
          let k = if k = 15 && mode = 2 then 14 else k in
          let safe = rand_int r 8 <> 0 in
          match gen_value ~safe r c k with
          | Some x -> push (Set (u, e, names_for r k, x))
          | None -> ()
        done;
        if rand_int r 4 = 0 then push (Sib (u, e, rand_int r 4 <> 0));
        if rand_int r 12 = 0 then push (Del (u, e, names_for r (rand_int r kinds)))) (List.rev added.(u));
      (* make the unit's line program used (it has no rows: a file index must reference it) *)
      if nfiles > 0 && rand_int r 4 <> 0 then
        push (Set (u, List.nth added.(u) (rand_int r (List.length added.(u))), 0x3a, Fi (Some (rand_int r nfiles))))) group;
    (* 5. late structure: reserved-then-added entries, extra children, deletions *)
    List.iter (fun u ->
      structure u (rand_int r 4);
      (* reserved-then-added: usually every reserved id is added in the end *)
      if rand_int r 8 <> 0 then begin
        List.iter (fun c ->
          let p = List.nth added.(u) (rand_int r (List.length added.(u))) in
          push (A (u, c, p, pick r tags));
          added.(u) <- c :: added.(u)) (List.rev pending.(u));
        pending.(u) <- []
      end;
      if rand_int r 10 = 0 && List.length added.(u) > 1 then begin
        let c = List.nth added.(u) (rand_int r (List.length added.(u))) in
        if c <> 0 then begin
          (* parent unknown here: try the root and a random entry; deleting a non-child is a no-op *)
          push (Xc (u, 0, c));
          push (Xc (u, List.nth added.(u) (rand_int r (List.length added.(u))), c))
        end
      end;
      (* an id that was reserved and never added may lie beyond the entries vector: Err(InvalidReference) when referenced *)
      if pending.(u) <> [] && rand_bool r then (push (E (u, 0, pick r tags)); added.(u) <- nent.(u) :: added.(u); nent.(u) <- nent.(u) + 1)) group) groups;
  List.rev !ops

(* directed family: one attribute of kind k on entry 1, followed by a referenced entry 2 *)
let directed r k (e : enc) : op list option =
  let (_, fmt64, asz) = e in
  let lp = if k = 40 || k = 18 then Some (e, 2) else None in
  let pre = [ U (e, lp); S [0x68; 0x69]; S [0x61]; L [0x6c]; R (0, Z.of_int 16, [(Z.of_int 1, Z.of_int 5)]);
              R (0, Z.of_int 32, []); O (0, Z.of_int 8, [(Z.zero, Z.of_int 4, [0x9c])]);
              E (0, 0, 0x2e); E (0, 0, 0x24); E (0, 1, 0x34) ] in
  let c = { nstr = 2; nlstr = 1; nrng = 2; nloc = 1; nfiles = 2 + (let (v, _, _) = e in if v >= 5 then 1 else 0);
            targets = [(0, 2); (0, 3); (0, 1)]; here = 0; asz; fmt64; has_lp = lp <> None } in
  match gen_value r c k with
  | None -> None
  | Some x ->
      Some (pre @ [ Set (0, 1, names_for r k, x); Set (0, 1, 0x49, Ur (0, 3)); Set (0, 0, 0x3a0c, Ur (0, 1));
                    Set (0, 3, 0x31, Ir (0, 0, 2)); Sib (0, 1, true); Sib (0, 0, true) ]
            @ (if k = 40 || (k = 18 && rand_bool r) then [ Set (0, 3, 0x3a, Fi (Some 1)) ] else []))

(* wide sibling lists: a root with 21..80 children, base types interleaved at arbitrary positions (also first /
   last), every child distinguishable by name, structs with 30+ members, references to and from the base types.
   reorder_base_types must be the STABLE partition whatever the width. *)
let gen_wide r ~(mode : int) : op list =
  let nunits = if mode = 2 then 1 else 1 + rand_int r 2 in
  let ops = ref [] in
  let push o = ops := o :: !ops in
  let encs = Array.init nunits (fun _ -> (pick r [| 2; 3; 4; 5 |], rand_bool r, pick r [| 4; 8 |])) in
  let next = Array.make nunits 1 in
  let bases = Array.make nunits [] and others = Array.make nunits [] in
  let name i = Str [0x41 + (i mod 26); 0x30 + ((i / 26) mod 40); 0x61 + (i / 1040)] in
  let add u parent tag =
    let id = next.(u) in
    push (E (u, parent, tag)); next.(u) <- id + 1;
    push (Set (u, id, 0x03, name id)); id in
  let build u =
    let nroot = match rand_int r 4 with 0 -> 21 + rand_int r 4 | _ -> 21 + rand_int r 60 in
    let pat = rand_int r 6 in
    let one = 1 + rand_int r (nroot - 1) in
    let is_base i = match pat with
      | 0 | 5 -> rand_int r 3 = 0
      | 1 -> i = nroot - 1
      | 2 -> i = 0 || (i < nroot - 1 && rand_int r 4 = 0)
      | 3 -> i mod 2 = 1
      | _ -> i = one in
    for i = 0 to nroot - 1 do
      if is_base i then begin
        let id = add u 0 0x24 in
        bases.(u) <- id :: bases.(u);
        push (Set (u, id, 0x3e, K (0, Z.of_int (pick r [| 1; 2; 4; 5; 7; 8 |]))));
        push (Set (u, id, 0x0b, Ud (Z.of_int (pick r [| 1; 2; 4; 8; 16 |]))))
      end else begin
        let id = add u 0 (pick r [| 0x2e; 0x34; 0x13; 0x16; 0x0f; 0x39; 0x17; 0x04 |]) in
        others.(u) <- id :: others.(u)
      end
    done;
    let all_root = bases.(u) @ others.(u) in
    let anyof l = List.nth l (rand_int r (List.length l)) in
    (* references to and from the base types *)
    List.iter (fun id ->
      if bases.(u) <> [] && rand_bool r then push (Set (u, id, 0x49, Ur (u, anyof bases.(u))))) others.(u);
    List.iter (fun id ->
      if rand_int r 5 = 0 then push (Set (u, id, 0x3a0c, Ur (u, anyof all_root)))) bases.(u);
    if bases.(u) <> [] then push (Set (u, 0, 0x3a0c, Ur (u, anyof bases.(u))));
    (* wide lists one level down: structs with 30+ members, some nested, with sibling pointers *)
    if others.(u) <> [] then
      for _ = 1 to 1 + rand_int r 2 do
        let s = anyof others.(u) in
        let k = 30 + rand_int r 25 in
        for m = 1 to k do
          let id = add u s (if rand_int r 9 = 0 then 0x24 else 0x0d) in
          if bases.(u) <> [] && rand_int r 3 <> 0 then push (Set (u, id, 0x49, Ur (u, anyof bases.(u))));
          push (Set (u, id, 0x38, Ud (Z.of_int (m * 4))));
          if rand_int r 12 = 0 then begin
            let g = add u id 0x0d in
            push (Set (u, g, 0x49, Ur (u, s))); push (Sib (u, id, true))
          end
        done;
        push (Sib (u, s, rand_int r 4 <> 0))
      done;
    if rand_bool r then push (Sib (u, 0, true)) in
  push (U (encs.(0), None));
  build 0;
  if nunits = 2 then begin
    if mode = 1 && rand_bool r then push W;
    push (U (encs.(1), None));
    build 1;
    (* ref_addr references to base types of the other unit *)
    if bases.(0) <> [] then
      List.iter (fun id -> if rand_int r 4 = 0 then
        push (Set (1, id, 0x31, Ir (0, 0, List.nth bases.(0) (rand_int r (List.length bases.(0))))))) others.(1)
  end;
  List.rev !ops

(* abbreviation key: groups of DIEs whose abbreviation keys (tag, children flag, sibling, attribute names and
   forms IN ORDER, implicit_const payload) are equal or differ in exactly one component.  The abbreviation table
   must merge exactly the equal ones; in particular two DIEs that differ only in a DW_FORM_implicit_const value
   need two abbreviations (the value lives in the abbreviation), equal values must share one. *)
let ic_bounds = Array.map Z.of_string
  [| "0"; "1"; "-1"; "63"; "64"; "-64"; "-65"; "127"; "128"; "-128"; "-129"; "8191"; "8192"; "-8192"; "-8193";
     "2147483647"; "2147483648"; "-2147483648"; "-2147483649"; "4294967295"; "4294967296";
     "9223372036854775807"; "9223372036854775806"; "-9223372036854775808"; "-9223372036854775807";
     "4611686018427387904"; "-4611686018427387905" |]

let gen_abbrevkey r ~(mode : int) : op list =
  let ops = ref [] in
  let push o = ops := o :: !ops in
  let nunits = if mode = 2 then 1 else 1 + rand_int r 2 in
  for u = 0 to nunits - 1 do
    if u > 0 && mode = 1 && rand_bool r then push W;
    let v = if rand_int r 4 = 0 then pick r [| 2; 3; 4 |] else 5 in
    push (U ((v, rand_bool r, pick r [| 4; 8 |]), None));
    if u = 0 then (push (S [0x6b; 0x65; 0x79]); push (S [0x6b]));
    let next = ref 1 in
    let add parent tag = let id = !next in push (E (u, parent, tag)); incr next; id in
    let target = add 0 0x24 in
    let parent = if rand_int r 3 = 0 then add 0 0x13 else 0 in
    (* attribute slots: (name pool, class) with disjoint name pools *)
    let slots = [| ([| 0x1c; 0x3a05; 0x3a06 |], `C); ([| 0x3a05; 0x1c; 0x3a06 |], `C); ([| 0x3a06; 0x3a05; 0x1c |], `C);
                   ([| 0x3a03; 0x3a04 |], `D); ([| 0x0b |], `U); ([| 0x3f; 0x3c; 0x3a07 |], `F);
                   ([| 0x03; 0x6e |], `S); ([| 0x49; 0x31 |], `R) |] in
    let value cls alt = match cls with
      | `C -> if alt then Sd (pick r ic_bounds) else Ic (pick r ic_bounds)
      | `D -> if alt then D2 (rand_int r 65536) else D1 (rand_int r 256)
      | `U -> Ud (Z.of_int (rand_int r 300))
      | `F -> if alt then Fl true else Fp
      | `S -> if alt then St (rand_int r 2) else Str [0x61 + rand_int r 26]
      | `R -> if alt && mode <> 2 then Ir (u, u, target) else Ur (u, target) in
    for _ = 1 to 1 + rand_int r 2 do
      let tag = pick r [| 0x34; 0x0d; 0x28; 0x05; 0x2e; 0x24 |] in
      (* base shape: 1..5 slots in random order, names distinct, an implicit constant nearly always *)
      let nattr = 1 + rand_int r 5 in
      let chosen = ref [] in
      let force_ic = rand_int r 8 <> 0 in
      while List.length !chosen < nattr do
        let k = if force_ic && !chosen = [] then 0 else rand_int r (Array.length slots) in
        let (names, cls) = slots.(k) in
        let nm = names.(0) in
        if not (List.exists (fun (n, _, _) -> n = nm) !chosen) then
          chosen := (nm, cls, value cls (cls <> `C && rand_int r 4 = 0)) :: !chosen
      done;
      let base = !chosen in   (* (name, class, value) in set order *)
      let used n l = List.exists (fun (m, _, _) -> m = n) l in
      let emit ?(tag = tag) ?(child = false) ?(sib = false) attrs =
        let id = add parent tag in
        List.iter (fun (n, _, x) -> push (Set (u, id, n, x))) attrs;
        if child then ignore (add id 0x0d);
        if sib then push (Sib (u, id, true)) in
      let change_ic attrs =
        (* another payload for one implicit constant (or another value of the same form if there is none) *)
        let idx = List.filter (fun i -> match List.nth attrs i with (_, _, Ic _) -> true | _ -> false)
                    (List.init (List.length attrs) (fun i -> i)) in
        let i = match idx with [] -> rand_int r (List.length attrs) | l -> List.nth l (rand_int r (List.length l)) in
        List.mapi (fun j (n, c, x) ->
          if j <> i then (n, c, x) else
            match x with
            | Ic z -> let z' = pick r ic_bounds in (n, c, Ic (if Z.equal z z' then Z.succ (Z.rem z (Z.of_int 1000)) else z'))
            | Sd _ -> (n, c, Sd (pick r ic_bounds)) | D1 y -> (n, c, D1 ((y + 1) mod 256)) | D2 y -> (n, c, D2 ((y + 1) mod 65536))
            | Ud y -> (n, c, Ud (Z.succ y)) | Str b -> (n, c, Str (0x41 :: b)) | St k -> (n, c, St (1 - k))
            | y -> (n, c, y)) attrs in
      (* the three that must always be there: base, same shape with another constant, exact duplicate of base *)
      emit base; emit (change_ic base); emit base;
      for _ = 1 to 2 + rand_int r 6 do
        match rand_int r 12 with
        | 0 -> emit base
        | 1 | 2 -> emit (change_ic base)
        | 3 -> emit ~tag:(if tag = 0x34 then 0x0d else 0x34) base
        | 4 -> emit ~child:true base
        | 5 -> emit ~child:true ~sib:true base
        | 6 -> (* attribute order *)
            (match base with a :: rest when rest <> [] -> emit (rest @ [a]) | _ -> emit (List.rev base))
        | 7 -> (* one name changed (same class, unused name) *)
            let i = rand_int r (List.length base) in
            emit (List.mapi (fun j (n, c, x) ->
              if j <> i then (n, c, x) else
                let pool = Array.to_list (fst (List.find (fun (_, c') -> c' = c) (Array.to_list slots))) in
                match List.filter (fun m -> not (used m base)) pool with
                | m :: _ -> (m, c, x) | [] -> (n, c, x)) base)
        | 8 -> (* one form changed (data1/data2, implicit_const/sdata, flag_present/flag, string/strp, ref4/ref_addr) *)
            let i = rand_int r (List.length base) in
            emit (List.mapi (fun j (n, c, x) ->
              if j <> i then (n, c, x) else
                match x with
                | Ic z -> (n, c, Sd z) | Sd z -> (n, c, Ic z) | D1 y -> (n, c, D2 y) | D2 y -> (n, c, D1 (y land 255))
                | Fp -> (n, c, Fl true) | Fl _ -> (n, c, Fp) | Str _ -> (n, c, St 0) | St _ -> (n, c, Str [0x6b])
                | Ur (a, b) when mode <> 2 -> (n, c, Ir (a, a, b)) | Ir (a, _, b) -> (n, c, Ur (a, b)) | y -> (n, c, y)) base)
        | 9 -> (* one attribute fewer / more *)
            if List.length base > 1 && rand_bool r then emit (List.tl base)
            else begin
              let free = List.filter (fun (names, _) -> not (used names.(0) base)) (Array.to_list slots) in
              match free with
              | (names, cls) :: _ -> emit (base @ [ (names.(0), cls, value cls false) ])
              | [] -> emit base
            end
        | 10 -> (* every implicit constant replaced by the same boundary value: equal again among themselves *)
            let z = pick r ic_bounds in
            let l = List.map (fun (n, c, x) -> match x with Ic _ -> (n, c, Ic z) | y -> (n, c, y)) base in
            emit l; emit l
        | _ -> emit ~child:true (change_ic base)
      done
    done;
    if rand_bool r then push (Sib (u, 0, true))
  done;
  List.rev !ops

(* c11.conv: scripts restricted to what write::Dwarf::convert carries over unchanged, rich in references that
   are resolved by the deferred .debug_info fix-ups (DW_FORM_ref_addr attributes, DW_OP_call_ref /
   DW_OP_implicit_pointer / DW_OP_GNU_variable_value in exprlocs and in location lists), between units in both
   directions.  Returns (mask, ops): unit k is written at once by ConvertUnit::write iff bit k of mask is set. *)
let gen_conv r : int * op list =
  let nunits = match rand_int r 8 with 0 -> 1 | 1 | 2 | 3 -> 2 | 4 | 5 -> 3 | 6 -> 4 | _ -> 5 in
  let ops = ref [] in
  let push o = ops := o :: !ops in
  let encs = Array.init nunits (fun _ -> (pick r [| 2; 3; 4; 5 |], rand_bool r, pick r [| 4; 8 |])) in
  Array.iter (fun e -> push (U (e, None))) encs;
  let pool = [| [0x61]; [0x62; 0x63]; []; [0x7a; 0x7a; 0x7a]; [0x6d; 0x61; 0x69; 0x6e] |] in
  let nstr = 1 + rand_int r 4 in
  for _ = 1 to nstr do push (S (pick r pool)) done;
  let nlstr = rand_int r 2 in
  for _ = 1 to nlstr do push (L (pick r pool)) done;
  (* structure first: every id exists before anything refers to it *)
  let nent = Array.init nunits (fun _ -> 2 + rand_int r 6) in   (* ids 0..nent-1 *)
  for u = 0 to nunits - 1 do
    for i = 1 to nent.(u) - 1 do
      let p = if rand_int r 3 = 0 then rand_int r i else 0 in
      push (E (u, p, pick r tags))
    done
  done;
  let any_target () = let u = rand_int r nunits in (u, rand_int r nent.(u)) in
  let other_target u =
    if nunits = 1 then (u, rand_int r nent.(u)) else
      let t = (u + 1 + rand_int r (nunits - 1)) mod nunits in (t, rand_int r nent.(t)) in
  let nrng = Array.make nunits 0 and nloc = Array.make nunits 0 in
  for u = 0 to nunits - 1 do
    let mk_pairs k = List.init k (fun _ -> let b = rand_int r 5000 in (Z.of_int b, Z.of_int (b + 1 + rand_int r 5000))) in
    for _ = 1 to rand_int r 3 do
      push (R (u, Z.of_int (rand_int r 5000), mk_pairs (1 + rand_int r 3))); nrng.(u) <- nrng.(u) + 1
    done;
    for _ = 1 to rand_int r 3 do
      if rand_bool r then
        push (O (u, Z.of_int (rand_int r 5000), List.map (fun (b, e) -> (b, e, pick r exprs)) (mk_pairs (1 + rand_int r 3))))
      else
        push (P (u, Z.of_int (rand_int r 5000),
                 List.map (fun (b, e) ->
                   let (tu, i) = if rand_int r 3 = 0 then any_target () else other_target u in
                   (b, e, (rand_int r 3, tu, i))) (mk_pairs (1 + rand_int r 3))));
      nloc.(u) <- nloc.(u) + 1
    done
  done;
  let (_ : int) = nlstr in
  for u = 0 to nunits - 1 do
    let (_, fmt64, asz) = encs.(u) in
    let c = { nstr; nlstr; nrng = nrng.(u); nloc = nloc.(u); nfiles = 0;
              targets = List.concat (List.init nunits (fun t -> List.init nent.(t) (fun i -> (t, i))));
              here = u; asz; fmt64; has_lp = false } in
    for e = 0 to nent.(u) - 1 do
      for _ = 1 to rand_int r 4 do
        match rand_int r 16 with
        | 0 | 1 | 2 -> let (tu, i) = other_target u in push (Set (u, e, pick r [| 0x49; 0x31; 0x18 |], Ir (tu, tu, i)))
        | 3 | 4 -> let (tu, i) = other_target u in push (Set (u, e, pick r [| 0x02; 0x40 |], Xr (rand_int r 3, tu, i)))
        | 5 -> let (tu, i) = any_target () in push (Set (u, e, pick r [| 0x02; 0x40 |], Xr (rand_int r 3, tu, i)))
        | 6 | 7 -> if nloc.(u) > 0 then push (Set (u, e, pick r [| 0x02; 0x40 |], Ll (rand_int r nloc.(u))))
        | 8 -> if nrng.(u) > 0 then push (Set (u, e, 0x55, Rl (rand_int r nrng.(u))))
        | _ ->
            (* kinds the converter carries over unchanged *)
            let k = pick r [| 0; 2; 3; 4; 5; 6; 8; 9; 10; 11; 12; 13; 14; 15; 24; 27; 28; 29; 31; 34; 36 |] in
            (match gen_value ~safe:true r c k with
             | Some x -> push (Set (u, e, names_for r k, x))
             | None -> ())
      done;
      if e > 0 && rand_int r 4 = 0 then push (Sib (u, e, true))
    done
  done;
  let all = (1 lsl nunits) - 1 in
  let mask = match rand_int r 6 with 0 | 1 | 2 -> all | 3 -> 0 | _ -> rand_int r (all + 1) in
  (mask, List.rev !ops)

(* boundary sizes: a few big cases (ignore n except the huge one) *)
let sized_cases r ~(n : int) : (bool * int * op list) list =
  let e4 = (4, false, 8) and e5 = (5, true, 4) in
  let big len = List.init len (fun i -> 1 + ((i * 7 + 3) mod 255)) in
  [ (* > 255 distinct abbreviations (codes 1..300), references across them *)
    (false, 0,
     [ U (e4, None) ] @ List.init 300 (fun i -> E (0, 0, 0x100 + i))
     @ List.concat (List.init 300 (fun i -> if i mod 4 = 0 then [ Set (0, i + 1, 0x49, Ur (0, 300 - i)) ] else []))
     @ [ Set (0, 0, 0x49, Ur (0, 300)); Sib (0, 0, true) ]);
    (* .debug_str beyond 2^16 bytes: 70 strings of ~1000 bytes, references to the last ones; > 255 string ids *)
    (rand_bool r, 0,
     [ U (e5, None); E (0, 0, 0x2e); E (0, 0, 0x34) ]
     @ List.init 70 (fun i -> S (big (990 + i)))
     @ List.init 260 (fun i -> S [0x61 + (i mod 26); 0x41 + (i / 26)])
     @ [ Set (0, 1, 0x03, St 69); Set (0, 2, 0x03, St 66); Set (0, 0, 0x03, St 329); Set (0, 2, 0x6e, St 0);
         Set (0, 1, 0x6e, St 300) ]);
    (* a unit beyond 64 KiB: entry offsets, sibling pointers and unit references above 0xffff; block and
       expression lengths at the 2-/3-byte ULEB boundary (16383 / 16384); a second unit behind it *)
    (rand_bool r, 0,
     [ U (e4, None); U ((3, false, 4), None);
       E (0, 0, 0x2e); E (0, 1, 0x34); E (0, 0, 0x24); E (0, 0, 0x2e); E (0, 4, 0x05); E (1, 0, 0x2e);
       Set (0, 2, 0x1c, Blk (big 16383)); Set (0, 2, 0x3a02, Blk (big 16384)); Set (0, 2, 0x02, Ex (List.init 16384 (fun _ -> 0x96)));
       Set (0, 1, 0x1c, Blk (big 40000)); Set (0, 1, 0x03, Str (big 300));
       Sib (0, 1, true); Sib (0, 4, true); Sib (0, 0, true);
       Set (0, 1, 0x49, Ur (0, 5)); Set (0, 5, 0x49, Ur (0, 3)); Set (0, 0, 0x3a0c, Ur (0, 4));
       Set (0, 4, 0x31, Ir (1, 1, 1)); Set (1, 1, 0x31, Ir (0, 0, 5)); Set (1, 1, 0x49, Ur (1, 0)) ]);
    (* file indices beyond 127 (2-byte ULEB), DWARF 4 and 5 numbering *)
    (false, 0,
     [ U (e4, Some (e4, 140)); E (0, 0, 0x2e); E (0, 0, 0x34); Set (0, 1, 0x3a, Fi (Some 127)); Set (0, 2, 0x3a, Fi (Some 139));
       Set (0, 2, 0x58, Fi (Some 126)) ]);
    (true, 0,
     [ U ((5, false, 8), Some ((5, false, 8), 140)); E (0, 0, 0x2e); E (0, 0, 0x34); Set (0, 1, 0x3a, Fi (Some 128));
       Set (0, 2, 0x3a, Fi (Some 140)); Set (0, 2, 0x58, Fi (Some 127)) ]);
    (* twelve units with a ring of ref_addr references (long fix-up list, offsets in every unit) *)
    (false, 0,
     List.init 12 (fun u -> U ((2 + (u mod 4), u mod 3 = 0, if u mod 2 = 0 then 8 else 4), None))
     @ List.concat (List.init 12 (fun u -> [ E (u, 0, 0x24); E (u, 0, 0x2e) ]))
     @ List.concat (List.init 12 (fun u -> [ Set (u, 2, 0x31, Ir ((u + 1) mod 12, (u + 1) mod 12, 1));
                                              Set (u, 1, 0x3a08, Ir ((u + 5) mod 12, (u + 5) mod 12, 2)) ])))
  ]
  @ (if n >= 50000 then
       (* thorough only: more than 16383 distinct abbreviations (3-byte codes) *)
       [ (false, 0,
          [ U (e4, None) ] @ List.init 16500 (fun i -> E (0, 0, 0x100 + i))
          @ [ Set (0, 0, 0x49, Ur (0, 16500)); Set (0, 16500, 0x49, Ur (0, 16384)); Set (0, 16384, 0x49, Ur (0, 1)) ]) ]
     else [])

let () =
  register "c11.units" ~doc:"API scripts against gimli::write: section bytes = model bytes; the harness also reads the sections back and compares the semantic dump with the script's meaning"
    (fun ~seed ~n emit ->
      counter := 0;
      let r = mk_rng seed in
      let case be mode ops =
        both_sharded emit (Printf.sprintf "c11.units %s %d %s" (sb be) mode (s_script ops))
          (fun dbg -> eval dbg be ops) in
      (* directed: every value kind x version 2..5 x format x address size 4/8 x endianness, 3 payload draws *)
      for k = 0 to kinds - 1 do
        List.iter (fun v -> List.iter (fun f -> List.iter (fun a -> List.iter (fun be ->
          for _ = 1 to 3 do
            match directed r k (v, f, a) with
            | Some ops -> case be 0 ops
            | None -> ()
          done) [false; true]) [4; 8]) [false; true]) [2; 3; 4; 5]
      done;
      (* more than 127 distinct abbreviations: two-byte codes in front of referenced entries *)
      List.iter (fun v -> List.iter (fun f -> List.iter (fun be ->
        let nn = 135 + rand_int r 10 in
        let ops = [ U ((v, f, 8), None) ]
          @ List.init nn (fun i -> E (0, (if i mod 7 = 3 then 1 + rand_int r i else 0), 0x100 + i))
          @ List.concat (List.init nn (fun i ->
              (if i mod 3 = 0 then [ Set (0, i + 1, 0x3a05, Ud (Z.of_int i)) ] else [])
              @ (if i mod 5 = 0 then [ Set (0, i + 1, 0x49, Ur (0, 1 + rand_int r nn)) ] else [])
              @ (if i mod 11 = 0 then [ Sib (0, i + 1, true) ] else [])))
          @ [ Set (0, 0, 0x49, Ur (0, nn)); Sib (0, 0, true) ] in
        case be 0 ops) [false; true]) [false; true]) [2; 4; 5];
      (* boundary sizes *)
      List.iter (fun (be, mode, ops) -> case be mode ops) (sized_cases r ~n);
      (* wide roots, fixed share *)
      for _ = 1 to 64 do let mode = pick r [| 0; 0; 1; 2 |] in case (rand_bool r) mode (gen_wide r ~mode) done;
      (* abbreviation keys, fixed share *)
      for _ = 1 to 150 do let mode = pick r [| 0; 0; 1; 2 |] in case (rand_bool r) mode (gen_abbrevkey r ~mode) done;
      (* odd encodings *)
      for k = 0 to kinds - 1 do
        List.iter (fun e -> match directed r k e with Some ops -> case false 0 ops | None -> ())
          [ (1, false, 4); (6, false, 8); (0, true, 8); (65535, false, 4); (2, false, 3); (4, true, 1); (5, false, 2); (5, true, 3) ]
      done;
      for _ = 1 to n do
        let mode = match rand_int r 10 with 0 | 1 | 2 -> 1 | 3 -> 2 | _ -> 0 in
        let be = rand_bool r in
        let ops = match rand_int r 20 with
          | 0 | 1 -> gen_wide r ~mode
          | 2 | 3 -> gen_abbrevkey r ~mode
          | _ -> gen_script r ~multi_lp:false ~mode in
        case be mode ops
      done);
  register "c11.sem" ~doc:"API scripts with several line programs: semantic read-back oracle only (dump predicted from the script = dump of the written sections)"
    (fun ~seed ~n emit ->
      counter := 0;
      let r = mk_rng (seed + 7919) in
      for _ = 1 to n do
        let mode = match rand_int r 10 with 0 | 1 | 2 -> 1 | 3 -> 2 | _ -> 0 in
        let be = rand_bool r in
        let ops = match rand_int r 20 with
          | 0 | 1 -> gen_wide r ~mode
          | 2 | 3 -> gen_abbrevkey r ~mode
          | _ -> gen_script r ~multi_lp:true ~mode in
        emit (Printf.sprintf "c11.sem %s %d %s" (sb be) mode (s_script ops)) "ok" "ok"
      done);
  register "c11.conv" ~doc:"scripts written, read back and converted unit by unit; unit k is written at once through ConvertUnit::write iff bit k of the mask is set (all / none / mixed), the rest by the final Dwarf::write: every ref_addr attribute and every reference inside exprlocs and location lists must still hit its DIE (semantic oracle after both stages)"
    (fun ~seed ~n emit ->
      counter := 0;
      let r = mk_rng (seed + 15485863) in
      for _ = 1 to n do
        let be = rand_bool r in
        let (mask, ops) = gen_conv r in
        emit (Printf.sprintf "c11.conv %s %d %s" (sb be) mask (s_script ops)) "ok" "ok"
      done);
  register "c11.misuse" ~doc:"references that cannot be encoded (an id that was reserved but never added and lies beyond the entries vector — Err since c42c00d; an entry id issued by another unit — known finding): the property demands Err"
    (fun ~seed ~n emit ->
      counter := 0;
      let r = mk_rng (seed + 104729) in
      let spec = "err InvalidReference" in
      for _ = 1 to n do
        let e0 = (pick r [| 2; 3; 4; 5 |], rand_bool r, pick r [| 4; 8 |]) in
        let e1 = (pick r [| 2; 3; 4; 5 |], rand_bool r, pick r [| 4; 8 |]) in
        let be = rand_bool r in
        let k0 = 1 + rand_int r 3 and k1 = 1 + rand_int r 4 in
        let ops = match rand_int r 4 with
          | 0 ->
              (* dangling tail id in a UnitRef *)
              [ Note "dangling"; U (e0, None) ] @ List.init k0 (fun _ -> E (0, 0, pick r tags))
              @ [ Rsv 0; Set (0, 1, 0x49, Ur (0, k0 + 1)) ]
          | 1 ->
              [ Note "dangling"; U (e0, None) ] @ List.init k0 (fun _ -> E (0, 0, pick r tags))
              @ [ Rsv 0; Set (0, 1, 0x31, Ir (0, 0, k0 + 1)) ]
          | 2 ->
              (* an id issued by unit 1 used in a unit-relative reference of unit 0 *)
              [ Note "foreign"; U (e0, None); U (e1, None) ] @ List.init k0 (fun _ -> E (0, 0, pick r tags))
              @ List.init k1 (fun _ -> E (1, 0, pick r tags))
              @ [ Set (0, 1, 0x49, Ur (1, 1 + rand_int r k1)) ]
          | _ ->
              (* DebugInfoRef::Entry(unit 0, id issued by unit 1) *)
              [ Note "foreign"; U (e0, None); U (e1, None) ] @ List.init k0 (fun _ -> E (0, 0, pick r tags))
              @ List.init k1 (fun _ -> E (1, 0, pick r tags))
              @ [ Set (1, 1, 0x31, Ir (0, 1, 1 + rand_int r k1)) ] in
        let case = Printf.sprintf "c11.misuse %s 0 %s" (sb be) (s_script ops) in
        (match ops with
         | Note "dangling" :: _ -> both emit case (fun dbg -> eval dbg be ops)   (* the model answers err InvalidReference *)
         | _ -> emit case spec spec)
      done);
  register "c11.form" ~doc:"AttributeValue::form for every variant x version {0..6,65535} x format x address size"
    (fun ~seed ~n:_ emit ->
      counter := 0;
      let r = mk_rng seed in
      let c = { nstr = 1; nlstr = 1; nrng = 1; nloc = 1; nfiles = 1; targets = [(0, 0)]; here = 0; asz = 8; fmt64 = false; has_lp = true } in
      for k = 0 to kinds - 1 do
        List.iter (fun v -> List.iter (fun f -> List.iter (fun a ->
          for _ = 1 to 2 do
            match gen_value r { c with asz = a; fmt64 = f } k with
            | None -> ()
            | Some x ->
                let x = (match x with Fi (Some _) -> Fi (Some 0) | y -> y) in
                both_sharded emit (Printf.sprintf "c11.form %d %s %d %s" v (sb f) a (s_val x)) (fun _ ->
                  let (form, ic) = UnitWr.av_form (mk_enc (v, f, a))
                    (match x with
                     | Ur _ -> UnitWr.AvUnitRef { UnitWr.id_unit = nat_of_int 0; id_idx = nat_of_int 0 }
                     | Ir _ -> UnitWr.AvDebugInfoRef (UnitWr.DEntry (nat_of_int 0, { UnitWr.id_unit = nat_of_int 0; id_idx = nat_of_int 0 }))
                     | St _ -> UnitWr.AvStringRef (nat_of_int 0) | Ls _ -> UnitWr.AvLineStringRef (nat_of_int 0)
                     | Rl _ -> UnitWr.AvRangeListRef (nat_of_int 0) | Ll _ -> UnitWr.AvLocationListRef (nat_of_int 0)
                     | Addr a -> UnitWr.AvAddress (UnitWr.AConst (n_of_z a))
                     | Asym (s, a) -> UnitWr.AvAddress (UnitWr.ASym (n_of_int s, cz_of_z a))
                     | Blk b -> UnitWr.AvBlock (bytes_of_ints b)
                     | D1 x -> UnitWr.AvData1 (n_of_int x) | D2 x -> UnitWr.AvData2 (n_of_int x)
                     | D4 x -> UnitWr.AvData4 (n_of_z x) | D8 x -> UnitWr.AvData8 (n_of_z x) | D16 x -> UnitWr.AvData16 (n_of_z x)
                     | Sd x -> UnitWr.AvSdata (cz_of_z x) | Ud x -> UnitWr.AvUdata (n_of_z x)
                     | Ic x -> UnitWr.AvImplicitConst (cz_of_z x)
                     | Ex b -> UnitWr.AvExprloc { UnitWr.x_size = Res.Ok (n_of_int (List.length b)); x_out = Res.Ok (bytes_of_ints b) }
                     | Fl b -> UnitWr.AvFlag b | Fp -> UnitWr.AvFlagPresent
                     | Isym s -> UnitWr.AvDebugInfoRef (UnitWr.DSym (n_of_int s))
                     | Irs x -> UnitWr.AvDebugInfoRefSup (n_of_z x) | Lp -> UnitWr.AvLineProgramRef
                     | Mi x -> UnitWr.AvDebugMacinfoRef (n_of_z x) | Ma x -> UnitWr.AvDebugMacroRef (n_of_z x)
                     | Ty x -> UnitWr.AvDebugTypesRef (n_of_z x) | Ss x -> UnitWr.AvDebugStrRefSup (n_of_z x)
                     | Str b -> UnitWr.AvString (bytes_of_ints b)
                     | K (k, x) ->
                         let x = n_of_z x in
                         (match k with
                          | 0 -> UnitWr.AvEncoding x | 1 -> UnitWr.AvDecimalSign x | 2 -> UnitWr.AvEndianity x
                          | 3 -> UnitWr.AvAccessibility x | 4 -> UnitWr.AvVisibility x | 5 -> UnitWr.AvVirtuality x
                          | 6 -> UnitWr.AvLanguage x | 7 -> UnitWr.AvAddressClass x | 8 -> UnitWr.AvIdentifierCase x
                          | 9 -> UnitWr.AvCallingConvention x | 10 -> UnitWr.AvInline x | _ -> UnitWr.AvOrdering x)
                     | Fi None -> UnitWr.AvFileIndex None
                     | Fi (Some k) -> UnitWr.AvFileIndex (Some (n_of_int k))) in
                  Printf.sprintf "ok %s %s" (string_of_n form)
                    (match ic with Some z -> string_of_cz z | None -> "-"))
          done) [1; 4; 8]) [false; true]) [0; 1; 2; 3; 4; 5; 6; 65535]
      done)

let init () = ()
