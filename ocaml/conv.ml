(* conv.ml — glue between OCaml values and the extracted Coq datatypes.
   Trusted (DESIGN §3): printing/parsing only, no model logic. *)
open BinNums

let rec pos_of_z (z : Z.t) : positive =
  if Z.equal z Z.one then Coq_xH
  else if Z.testbit z 0 then Coq_xI (pos_of_z (Z.shift_right z 1))
  else Coq_xO (pos_of_z (Z.shift_right z 1))

let n_of_z (z : Z.t) : coq_N =
  if Z.sign z = 0 then N0 else if Z.sign z < 0 then failwith "n_of_z: negative" else Npos (pos_of_z z)

let rec z_of_pos (p : positive) : Z.t =
  match p with
  | Coq_xH -> Z.one
  | Coq_xO q -> Z.shift_left (z_of_pos q) 1
  | Coq_xI q -> Z.succ (Z.shift_left (z_of_pos q) 1)

let z_of_n = function N0 -> Z.zero | Npos p -> z_of_pos p

let cz_of_z (z : Z.t) : coq_Z =
  if Z.sign z = 0 then Z0 else if Z.sign z > 0 then Zpos (pos_of_z z) else Zneg (pos_of_z (Z.neg z))
let z_of_cz = function Z0 -> Z.zero | Zpos p -> z_of_pos p | Zneg p -> Z.neg (z_of_pos p)

let n_of_int i = n_of_z (Z.of_int i)
let int_of_n n = Z.to_int (z_of_n n)
let cz_of_int i = cz_of_z (Z.of_int i)
let n_of_string s = n_of_z (Z.of_string s)
let cz_of_string s = cz_of_z (Z.of_string s)
let string_of_n n = Z.to_string (z_of_n n)
let string_of_cz z = Z.to_string (z_of_cz z)

let rec nat_of_int i : Datatypes.nat = if i <= 0 then Datatypes.O else Datatypes.S (nat_of_int (i - 1))
let rec int_of_nat (n : Datatypes.nat) = match n with Datatypes.O -> 0 | Datatypes.S k -> 1 + int_of_nat k

(* `byte` has 256 constant constructors x00..xff: immediate ints 0..255 in
   declaration order. Checked at start-up against the extracted Byte.to_N. *)
let byte_of_int (i : int) : Byte0.byte = Obj.magic (i land 255)
let int_of_byte (b : Byte0.byte) : int = (Obj.magic b : int)

let self_check () =
  for i = 0 to 255 do
    let b = byte_of_int i in
    if int_of_n (Byt.b2n b) <> i then failwith "byte representation check failed";
    if int_of_byte (Byt.n2b (n_of_int i)) <> i then failwith "byte representation check failed (n2b)"
  done

let bytes_of_hex (s : string) : Byte0.byte list =
  if s = "-" then [] else begin
    let n = String.length s / 2 in
    let rec go i acc = if i < 0 then acc else
      go (i - 1) (byte_of_int (int_of_string ("0x" ^ String.sub s (2 * i) 2)) :: acc) in
    go (n - 1) []
  end

let hex_of_bytes (l : Byte0.byte list) : string =
  if l = [] then "-" else begin
    let b = Buffer.create 64 in
    List.iter (fun x -> Buffer.add_string b (Printf.sprintf "%02x" (int_of_byte x))) l;
    Buffer.contents b
  end

let hex_of_ints (l : int list) : string =
  if l = [] then "-" else String.concat "" (List.map (fun x -> Printf.sprintf "%02x" (x land 255)) l)
let bytes_of_ints l = List.map byte_of_int l

let rec coq_list_length l = List.length l

(* result printing: ok-printer supplied per stream *)
let show_res (pr : 'a -> string) (r : 'a Res.res) : string =
  match r with
  | Res.Ok a -> "ok " ^ pr a
  | Res.Err e -> "err " ^ Errnames.name e
  | Res.Panic -> "panic"
  | Res.OutOfFuel -> "outoffuel"

(* class-only printing, for streams that compare only Ok/Err/Panic *)
let show_class r = match r with
  | Res.Ok _ -> "ok" | Res.Err _ -> "err" | Res.Panic -> "panic" | Res.OutOfFuel -> "outoffuel"

(* ---- PRNG: SplitMix64 on Int64, same as harness/src/rng.rs ---- *)
type rng = { mutable s : int64 }
let mk_rng (seed : int) = { s = Int64.of_int seed }
let next64 r =
  r.s <- Int64.add r.s 0x9E3779B97F4A7C15L;
  let z = r.s in
  let z = Int64.mul (Int64.logxor z (Int64.shift_right_logical z 30)) 0xBF58476D1CE4E5B9L in
  let z = Int64.mul (Int64.logxor z (Int64.shift_right_logical z 27)) 0x94D049BB133111EBL in
  Int64.logxor z (Int64.shift_right_logical z 31)
let rand_int r (bound : int) : int =
  if bound <= 0 then 0 else
  Int64.to_int (Int64.unsigned_rem (next64 r) (Int64.of_int bound))
let rand_bool r = rand_int r 2 = 1
let pick r (a : 'a array) = a.(rand_int r (Array.length a))
let rand_z64 r : Z.t = (* uniform u64 *)
  let x = next64 r in
  Z.logand (Z.of_int64 x) (Z.pred (Z.shift_left Z.one 64))
let rand_bytes r n = List.init n (fun _ -> rand_int r 256)

(* boundary-biased u64 *)
let boundary_z64 r : Z.t =
  let p k = Z.shift_left Z.one k in
  match rand_int r 12 with
  | 0 -> Z.zero | 1 -> Z.one
  | 2 -> Z.pred (p 64) | 3 -> p 63 | 4 -> Z.pred (p 63)
  | 5 -> p 32 | 6 -> Z.pred (p 32) | 7 -> p 31
  | 8 -> let k = rand_int r 64 in Z.add (p k) (Z.of_int (rand_int r 3 - 1)) |> Z.max Z.zero
  | 9 -> Z.of_int (rand_int r 300)
  | _ -> rand_z64 r
