(* s_c01.ml — streams for C01 (no panic / abort / stack overflow / hang). These are impl-side
   exploration oracles (kind 'oracle'): the expected column is the fixed token `fin`. The generator only
   chooses *which* damaged input to build (corpus variant, target section, mutation seed/count,
   truncation point, reader-fault position) — the harness builds it deterministically from the case line. *)
open Conv
open Streams

let corpus_dir () =
  try Sys.getenv "GV_CORPUS" with Not_found ->
    Filename.concat (Filename.dirname Sys.executable_name) "../corpus/sections"

let variants () : string array =
  let d = corpus_dir () in
  let a = try Sys.readdir d with _ -> [||] in
  Array.sort compare a; a

let section_size variant sec =
  let p = Filename.concat (Filename.concat (corpus_dir ()) variant) sec in
  try (Unix.stat p).Unix.st_size with _ ->
    (try (Unix.stat (p ^ ".dwo")).Unix.st_size with _ -> 0)

let families = [| "dwarf+c"; "cfi+c"; "misc"; "all+c"; "dwarf"; "all" |]
let targets = [| "any"; "any"; "debug_info"; "debug_abbrev"; "debug_line"; "eh_frame"; "eh_frame_hdr";
                 "debug_loc"; "debug_loclists"; "debug_ranges"; "debug_rnglists"; "debug_aranges";
                 "debug_names"; "debug_addr"; "debug_str_offsets"; "debug_macro"; "debug_macinfo";
                 "debug_cu_index"; "debug_tu_index"; "debug_types"; "debug_pubnames"; "debug_frame" |]

let fin emit case = emit case "fin" "fin"

let () =
  register "c01.corpus" ~doc:"compiler-built corpus: unmodified, seeded mutations/splices, truncations, reader faults — every family of entry points incl. converters"
    (fun ~seed ~n emit ->
      let vs = variants () in
      if Array.length vs = 0 then fin emit "c01.corpus all missing-corpus any 0 0 -1 -1" else begin
      (* exhaustive part: every variant unmodified, every family *)
      Array.iter (fun v -> Array.iter (fun f ->
        fin emit (Printf.sprintf "c01.corpus %s %s any 0 0 -1 -1" f v)) families) vs;
      let r = mk_rng seed in
      for i = 1 to n do
        let v = pick r vs in
        let f = pick r families in
        let t = pick r targets in
        let nmut = pick r [| 1; 1; 2; 3; 5; 8; 16 |] in
        let kind = rand_int r 10 in
        let trunc, fail_at =
          if kind < 6 then (-1, -1)
          else if kind < 8 then
            let sz = if t = "any" then 4096 else max 1 (section_size v t) in
            ((if rand_bool r then rand_int r (min sz 64) else rand_int r (sz + 1)), -1)
          else (-1, (if rand_bool r then rand_int r 40 else rand_int r 4000)) in
        let nmut = if kind >= 6 && rand_bool r then 0 else nmut in
        fin emit (Printf.sprintf "c01.corpus %s %s %s %d %d %d %d" f v t (seed * 1000003 + i) nmut trunc fail_at)
      done end);
  register "c01.trunc" ~doc:"truncation of one section at every byte (thorough) / a stride (quick) for every corpus variant"
    (fun ~seed ~n emit ->
      let vs = variants () in
      let r = mk_rng seed in
      (* n = number of truncation points per (variant, section); n >= 100000 means every byte *)
      Array.iter (fun v ->
        List.iter (fun (fam, sec) ->
          let sz = section_size v sec in
          if sz > 0 then begin
            let pts = if n >= 100000 then List.init (sz + 1) (fun i -> i)
              else List.init (min (sz + 1) 48) (fun i -> i) @ List.init n (fun _ -> rand_int r (sz + 1)) in
            List.iter (fun k ->
              fin emit (Printf.sprintf "c01.corpus %s %s %s %d 0 %d -1" fam v sec (seed + k) k)) pts
          end)
          [ ("dwarf+c", "debug_info"); ("dwarf", "debug_abbrev"); ("dwarf+c", "debug_line"); ("cfi+c", "eh_frame");
            ("cfi", "eh_frame_hdr"); ("dwarf", "debug_loc"); ("dwarf", "debug_loclists"); ("dwarf", "debug_rnglists");
            ("dwarf", "debug_ranges"); ("dwarf", "debug_aranges"); ("dwarf", "debug_names"); ("misc", "debug_macro");
            ("misc", "debug_macinfo"); ("misc", "debug_cu_index"); ("dwarf", "debug_str_offsets"); ("dwarf", "debug_addr") ]) vs);
  register "c01.fault" ~doc:"reader failure injected at the k-th reader operation, k = 0..K, every corpus variant and family"
    (fun ~seed ~n emit ->
      let vs = variants () in
      let r = mk_rng seed in
      Array.iter (fun v ->
        Array.iter (fun fam ->
          for k = 0 to 24 do fin emit (Printf.sprintf "c01.corpus %s %s any %d 0 -1 %d" fam v seed k) done;
          (* the first operation(s) of every kind of iterator drive: each lazy iterator meets a failing reader *)
          for j = 0 to 47 do
            fin emit (Printf.sprintf "c01.corpus %s %s any %d 0 -1 s%d+%d" fam v seed j (j mod 3))
          done;
          for _ = 1 to n do
            fin emit (Printf.sprintf "c01.corpus %s %s any %d %d -1 s%d+%d" fam v (rand_int r 1000000) (rand_int r 2)
                        (rand_int r 100000) (rand_int r 6))
          done;
          for _ = 1 to n do
            fin emit (Printf.sprintf "c01.corpus %s %s any %d %d -1 %d" fam v (rand_int r 1000000) (rand_int r 3) (rand_int r 20000))
          done) [| "dwarf+c"; "cfi+c"; "misc" |]) vs);
  register "c01.bytes" ~doc:"single sections given inline: every string of length <= 1 for every section (length 2 for a subset), random and extreme-valued short strings"
    (fun ~seed ~n emit ->
      let secs = [ ("misc", "debug_abbrev"); ("misc", "debug_pubnames"); ("misc", "debug_pubtypes"); ("misc", "debug_macinfo");
                   ("misc", "debug_macro"); ("misc", "debug_line"); ("misc", "debug_ranges"); ("misc", "debug_rnglists");
                   ("misc", "debug_loc"); ("misc", "debug_loclists"); ("misc", "debug_addr"); ("misc", "debug_str_offsets");
                   ("misc", "debug_cu_index"); ("misc", "debug_tu_index"); ("misc", "debug_str");
                   ("cfi", "eh_frame"); ("cfi", "debug_frame"); ("cfi", "eh_frame_hdr");
                   ("dwarf", "debug_aranges"); ("dwarf", "debug_names"); ("dwarf", "debug_info"); ("dwarf", "debug_types") ] in
      let k fam sec l = fin emit (Printf.sprintf "c01.bytes %s %s %d %s" fam sec seed (hex_of_ints l)) in
      List.iter (fun (fam, sec) ->
        k fam sec [];
        for a = 0 to 255 do k fam sec [a] done) secs;
      List.iter (fun (fam, sec) ->
        for a = 0 to 255 do for b = 0 to 255 do
          if a < 16 || a > 240 || b < 8 || b > 250 || (a land 15 = 0) then k fam sec [a; b] done done)
        [ ("misc", "debug_macinfo"); ("misc", "debug_macro"); ("cfi", "eh_frame_hdr"); ("misc", "debug_rnglists"); ("misc", "debug_loclists") ];
      let r = mk_rng seed in
      let secs = Array.of_list secs in
      let ext = [| [0xff;0xff;0xff;0xff;0xff;0xff;0xff;0xff;0xff;0x01]; [0x80;0x80;0x80;0x80;0x80;0x80;0x80;0x80;0x80;0x7f];
                   [0xff;0xff;0xff;0xff]; [0xff;0xff;0xff;0xff;0xff;0xff;0xff;0xff]; [0;0;0;0]; [0;0;0;0;0;0;0;0];
                   [0x80;0x80;0x80;0x80;0x80;0x80;0x80;0x80;0x20]; [0xfe;0xff;0xff;0xff]; [1;0;0;0]; [4;0]; [5;0]; [2;0] |] in
      for _ = 1 to n do
        let (fam, sec) = pick r secs in
        let parts = List.init (1 + rand_int r 6) (fun _ ->
          if rand_int r 3 = 0 then pick r ext else rand_bytes r (1 + rand_int r 12)) in
        (* often start with a plausible initial length + version *)
        let body = List.concat parts in
        let l = if rand_bool r then
            let len = if rand_int r 4 = 0 then rand_int r 256 else List.length body in
            [len land 255; (len lsr 8) land 255; 0; 0; pick r [| 2; 3; 4; 5; 1; 6 |]; 0] @ body
          else body in
        k fam sec l
      done;
      (* several length-prefixed sets, one of them damaged INSIDE (not in its header): an iterator that is
         documented to stop after an error must not go on with the following, intact sets *)
      let le16 v = [v land 255; (v lsr 8) land 255] in
      let le32 v = [v land 255; (v lsr 8) land 255; (v lsr 16) land 255; (v lsr 24) land 255] in
      let le64 v = le32 v @ [0; 0; 0; 0] in
      let str x = List.init (String.length x) (fun i -> Char.code x.[i]) in
      let with_len fmt64 body = (if fmt64 then [0xff; 0xff; 0xff; 0xff] @ le64 (List.length body) else le32 (List.length body)) @ body in
      let pub_set fmt64 kind i =
        let w v = if fmt64 then le64 v else le32 v in
        let hdr ver = le16 ver @ w (100 * i) @ w 50 in
        let name = Printf.sprintf "n%d" i in
        match kind with
        | 0 -> with_len fmt64 (hdr 2 @ w 11 @ str name @ [0] @ w 23 @ str "second" @ [0] @ w 0)       (* intact *)
        | 1 -> with_len fmt64 (hdr 2 @ w 11 @ str name @ [0] @ w 23 @ str "no-nul-to-the-end")        (* unterminated name *)
        | 2 -> with_len fmt64 (hdr 2 @ w 11 @ str name @ [0] @ [5; 0])                                (* offset cut short *)
        | 3 -> with_len fmt64 (hdr 2 @ w 11 @ str name)                                               (* first name unterminated *)
        | _ -> with_len fmt64 (hdr 2 @ w 11 @ str name @ [0])                                         (* no terminator *) in
      let ar_set kind i =
        let hdr asz seg = le16 2 @ le32 (100 * i) @ [asz; seg] in
        let pad = [0; 0; 0; 0] in
        match kind with
        | 0 -> with_len false (hdr 4 0 @ pad @ le32 (0x1000 * (i + 1)) @ le32 0x10 @ le32 0 @ le32 0)                 (* intact *)
        | 1 -> with_len false (hdr 4 0 @ pad @ le32 (0x1000 * (i + 1)) @ le32 0x10 @ le32 0x2000 @ [1; 0])           (* tuple cut short *)
        | 2 -> with_len false (hdr 4 0 @ pad @ le32 0xfffffff0 @ le32 0x20 @ le32 0x3000 @ le32 4 @ le32 0 @ le32 0)    (* address overflow, then a good tuple *)
        | 3 -> with_len false (hdr 4 0 @ pad @ le32 (0x1000 * (i + 1)) @ le32 0x10)                                  (* no terminator *)
        | _ -> with_len false (hdr 4 0 @ pad @ le32 (0x1000 * (i + 1)) @ le32 0x10 @ le32 0 @ le32 0 @ le32 7 @ le32 7) (* data after the terminator *) in
      List.iter (fun nsets ->
        for bad = 0 to nsets - 1 do
          for kind = 1 to 4 do
            List.iter (fun fmt64 ->
              let l = List.concat (List.init nsets (fun i -> pub_set fmt64 (if i = bad then kind else 0) i)) in
              k "misc" "debug_pubnames" l; k "misc" "debug_pubtypes" l) [false; true];
            k "dwarf" "debug_aranges" (List.concat (List.init nsets (fun i -> ar_set (if i = bad then kind else 0) i)))
          done
        done) [2; 3]);
  (* deep / long inputs that exercise recursion and per-item loops: stack depth and linear-time checks *)
  register "c01.deep" ~doc:"large structured inputs: long runs of zero aranges tuples, deeply nested DIE children, long nop CFI programs"
    (fun ~seed:_ ~n emit ->
      let hx l = String.concat "" (List.map (fun x -> Printf.sprintf "%02x" (x land 255)) l) in
      let le32 v = [v land 255; (v lsr 8) land 255; (v lsr 16) land 255; (v lsr 24) land 255] in
      let rep k (x : string) = let b = Buffer.create (k * String.length x) in for _ = 1 to k do Buffer.add_string b x done; Buffer.contents b in
      let sizes = if n >= 1000 then [1000; 20000; 120000] else [1000; 20000] in
      List.iter (fun k ->
        (* .debug_aranges: one set, address size 8, k zero tuples then a real one *)
        let body_len = 2 + 4 + 2 + 4 + 16 * k + 16 in
        let body = hx ([2; 0] @ le32 0 @ [8; 0] @ [0;0;0;0]) ^ rep k (hx [0;0;0;0;0;0;0;0;0;0;0;0;0;0;0;0])
                   ^ hx [0;16;0;0;0;0;0;0; 4;0;0;0;0;0;0;0] in
        fin emit (Printf.sprintf "c01.bytes dwarf debug_aranges 1 %s%s" (hx (le32 body_len)) body);
        (* .debug_info + .debug_abbrev: chain of k nested children (abbrev 1 = has children, no attrs) *)
        let abbrev = hx [1; 0x11; 1; 0; 0; 0] in
        let hdr = [4; 0] @ le32 0 @ [8] in
        let unit = hx (le32 (List.length hdr + 2 * k) @ hdr) ^ rep k "01" ^ rep k "00" in
        fin emit (Printf.sprintf "c01.pair dwarf+c debug_info %s debug_abbrev %s 1" unit abbrev);
        (* .debug_frame: CIE + FDE with k nops / k remember_state / advance+remember *)
        let cie_body = le32 0xffffffff @ [1; 0; 1; 0x78; 16] @ [0; 0; 0] in
        let cie = hx (le32 (List.length cie_body) @ cie_body) in
        let mk_fde (insn : string) reps =
          let fixed = le32 0 @ [0;0x10;0;0;0;0;0;0] @ [0;1;0;0;0;0;0;0] in
          let len = List.length fixed + reps * (String.length insn / 2) in
          hx (le32 len @ fixed) ^ rep reps insn in
        fin emit (Printf.sprintf "c01.bytes cfi debug_frame 1 %s%s" cie (mk_fde "00" k));
        fin emit (Printf.sprintf "c01.bytes cfi debug_frame 1 %s%s" cie (mk_fde "0a" k));
        fin emit (Printf.sprintf "c01.bytes cfi debug_frame 1 %s%s" cie (mk_fde "410a" k))
      ) sizes)
(* structured additions: package index hash tables (every fill level incl. completely full) and typed
   expression programs with boundary operands *)
let () =
  register "c01.index" ~doc:".debug_cu_index/.debug_tu_index hash tables, versions 2 and 5, slot counts 1..16, every fill level including NO empty slot, colliding ids; looked up for present and absent ids"
    (fun ~seed ~n emit ->
      let r = mk_rng seed in
      let le k v = List.init k (fun i -> (v lsr (8 * i)) land 255) in
      let mk version slot_count unit_count section_count filled =
        let hdr = if version = 5 then le 2 5 @ le 2 0 @ le 4 section_count @ le 4 unit_count @ le 4 slot_count
          else le 4 version @ le 4 section_count @ le 4 unit_count @ le 4 slot_count in
        let ids = List.init slot_count (fun i -> if i < filled then
            (match rand_int r 4 with 0 -> le 8 (i + 2) | 1 -> le 4 (rand_int r 256) @ le 4 (1 + rand_int r 7) | _ -> rand_bytes r 7 @ [1 + rand_int r 255])
          else le 8 0) in
        let rows = List.init slot_count (fun i -> le 4 (if i < filled then 1 + (i mod (max 1 unit_count)) else 0)) in
        let kinds = List.init section_count (fun i -> le 4 (1 + i)) in
        let body = List.init (2 * unit_count * section_count) (fun _ -> le 4 (rand_int r 64)) in
        hdr @ List.concat ids @ List.concat rows @ List.concat kinds @ List.concat body in
      List.iter (fun version -> List.iter (fun slot_count ->
        for filled = 0 to slot_count do
          List.iter (fun unit_count ->
            if unit_count <= slot_count then
              List.iter (fun sec -> fin emit (Printf.sprintf "c01.bytes misc %s %d %s" sec seed
                (hex_of_ints (mk version slot_count unit_count (1 + rand_int r 3) filled))))
                ["debug_cu_index"; "debug_tu_index"]) [0; 1; max 0 (slot_count - 1); slot_count]
        done) [1; 2; 4; 8; 16; 3]) [2; 5];
      for _ = 1 to n do
        let sc = pick r [| 1; 2; 4; 8; 16; 32; 5 |] in
        fin emit (Printf.sprintf "c01.bytes misc debug_cu_index %d %s" seed
          (hex_of_ints (mk (pick r [| 2; 5 |]) sc (rand_int r (sc + 1)) (1 + rand_int r 4) (pick r [| sc; sc; max 0 (sc - 1); rand_int r (sc + 1) |]))))
      done);
  register "c01.expr" ~doc:"expression programs: typed constants with boundary payloads (MIN, -1, 0, 1, MAX per width) combined with every arithmetic/shift/compare op, evaluated with every base-type answer; generic boundary programs; random programs over the full opcode byte range"
    (fun ~seed ~n emit ->
      let r = mk_rng seed in
      let bytes_of w (pat : int) = match pat with
        | 0 -> List.init w (fun _ -> 0)
        | 1 -> 1 :: List.init (w - 1) (fun _ -> 0)
        | 2 -> List.init w (fun _ -> 0xff)                                  (* -1 / MAX unsigned *)
        | 3 -> List.init (w - 1) (fun _ -> 0) @ [0x80]                       (* signed MIN *)
        | _ -> List.init (w - 1) (fun _ -> 0xff) @ [0x7f] in                 (* signed MAX *)
      let ty = ref 0 in
      let const_type w pat = [0xa4; !ty; w] @ bytes_of w pat in
      let binops = [| 0x1a; 0x1b; 0x1c; 0x1d; 0x1e; 0x21; 0x22; 0x24; 0x25; 0x26; 0x27; 0x29; 0x2a; 0x2b; 0x2c; 0x2d; 0x2e |] in
      let unops = [| 0x19; 0x1f; 0x20 |] in
      (* exhaustive: widths x operand patterns x binary ops, typed *)
      List.iter (fun w ->
        for a = 0 to 4 do for b = 0 to 4 do
          Array.iter (fun op ->
            (* answer types are chosen by the type offset mod 11: I8 U8 I16 U16 I32 U32 I64 U64 of the right width *)
            List.iter (fun t -> ty := t;
              fin emit (Printf.sprintf "c01.expr 8 %d %s" (w * 100 + a * 10 + b) (hex_of_ints (const_type w a @ const_type w b @ [op; 0x9f]))))
              (match w with 1 -> [1; 2] | 2 -> [3; 4] | 4 -> [5; 6; 9] | _ -> [7; 8; 10]))
            binops
        done;
          Array.iter (fun op ->
            fin emit (Printf.sprintf "c01.expr 8 %d %s" (w * 10 + a) (hex_of_ints (const_type w a @ [op; 0x9f])))) unops
        done) [1; 2; 4; 8];
      (* generic boundary values through const8u/const8s, every address size *)
      List.iter (fun asz ->
        for a = 0 to 4 do for b = 0 to 4 do
          Array.iter (fun op ->
            fin emit (Printf.sprintf "c01.expr %d 1 %s" asz (hex_of_ints ((0x0e :: bytes_of 8 a) @ (0x0f :: bytes_of 8 b) @ [op; 0x9f]))))
            binops done done) [1; 2; 4; 8];
      (* loops whose body suspends for a caller answer: the iteration limit must bound the WHOLE evaluation,
         across resumes, whatever the answers (a backward DW_OP_skip, or DW_OP_bra on a non-zero constant) *)
      let bodies = [ [0x91; 0x00];                    (* fbreg 0 *)
                     [0x30; 0x06];                    (* lit0; deref *)
                     [0x9c];                          (* call_frame_cfa *)
                     [0x70; 0x00];                    (* breg0 0 *)
                     [0x92; 0x05; 0x7f];              (* bregx 5 -1 *)
                     [0x97];                          (* push_object_address (no suspension) *)
                     [0x30; 0x9b];                    (* lit0; form_tls_address *)
                     [0x30; 0x94; 0x02];              (* lit0; deref_size 2 *)
                     [0xa1; 0x00];                    (* addrx 0 *)
                     [0x03; 1; 0; 0; 0; 0; 0; 0; 0];  (* addr (relocated address) *)
                     [0xa3; 0x01; 0x50];              (* entry_value(reg0) *)
                     [0xfa; 1; 0; 0; 0];              (* GNU_parameter_ref *)
                     [0xa5; 0x01; 0x05];              (* regval_type r1 type@5 *)
                     [0x30; 0xa6; 0x04; 0x05] ]       (* lit0; deref_type 4 type@5 *) in
      let two n = [n land 255; (n asr 8) land 255] in
      List.iter (fun asz ->
        List.iter (fun body ->
          List.iter (fun reps ->
            let b = List.concat (List.init reps (fun _ -> body @ [0x13])) in     (* body; drop *)
            let l = List.length b in
            (* skip back over the body and the skip itself *)
            fin emit (Printf.sprintf "c01.expr %d 7 %s" asz (hex_of_ints (b @ (0x2f :: two (-(l + 3))))));
            (* lit1; bra back *)
            fin emit (Printf.sprintf "c01.expr %d 8 %s" asz (hex_of_ints (b @ [0x31] @ (0x28 :: two (-(l + 4))))));
            (* a call whose answer is the looping expression itself is covered by the at_location answers *)
            fin emit (Printf.sprintf "c01.expr %d 9 %s" asz (hex_of_ints (b @ [0x98; 0; 0; 0x13] @ (0x2f :: two (-(l + 7))))))
          ) [1; 2; 5]) bodies) [4; 8];
      for _ = 1 to n do
        let len = 1 + rand_int r 12 in
        let prog = List.concat (List.init len (fun _ ->
          match rand_int r 6 with
          | 0 -> ty := rand_int r 11; const_type (pick r [| 1; 2; 4; 8 |]) (rand_int r 5)
          | 1 -> [pick r binops]
          | 2 -> [pick r unops]
          | 3 -> 0x0e :: bytes_of 8 (rand_int r 5)
          | 4 -> [0x12 + rand_int r 5]
          | _ -> [rand_int r 256] @ rand_bytes r (rand_int r 3))) in
        fin emit (Printf.sprintf "c01.expr %d %d %s" (pick r [| 1; 2; 4; 8 |]) (rand_int r 100000) (hex_of_ints prog))
      done)
let init () = ()
