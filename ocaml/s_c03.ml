(* s_c03.ml — streams for C03 (attribute forms). Model side: extracted FormSpec/Attr.
   Case lines (see harness/src/c03.rs):
     c03.forms|c03.lists|c03.value <ver> <fmt64> <asz> <be> <k> (<name> <form> <implicit>)*k <payload>
     c03.size <form> <ver> <fmt64> <asz>
     c03.helpers <kind> <number|hex> *)
open Conv
open Streams
open FormSpec

let b01 b = if b then 1 else 0
let mk_enc v f64 asz bigend =
  { version = n_of_int v; fmt64 = f64; address_size = n_of_int asz; be = bigend }

(* ---- canonical printing (must equal harness show/helpers) ---- *)
let hexb l = hex_of_bytes l
let show (v : attr_value) : string =
  let n name x = Printf.sprintf "%s(%s)" name (string_of_n x) in
  match v with
  | VAddr a -> n "Addr" a | VBlock b -> Printf.sprintf "Block(%s)" (hexb b)
  | VData1 x -> n "Data1" x | VData2 x -> n "Data2" x | VData4 x -> n "Data4" x
  | VData8 x -> n "Data8" x | VData16 x -> n "Data16" x
  | VSdata z -> Printf.sprintf "Sdata(%s)" (string_of_cz z) | VUdata x -> n "Udata" x
  | VExprloc b -> Printf.sprintf "Exprloc(%s)" (hexb b)
  | VFlag f -> Printf.sprintf "Flag(%d)" (b01 f)
  | VSecOffset x -> n "SecOffset" x | VDebugAddrBase x -> n "DebugAddrBase" x
  | VDebugAddrIndex x -> n "DebugAddrIndex" x | VUnitRef x -> n "UnitRef" x
  | VDebugInfoRef x -> n "DebugInfoRef" x | VDebugInfoRefSup x -> n "DebugInfoRefSup" x
  | VDebugLineRef x -> n "DebugLineRef" x | VLocationListsRef x -> n "LocationListsRef" x
  | VDebugLocListsBase x -> n "DebugLocListsBase" x | VDebugLocListsIndex x -> n "DebugLocListsIndex" x
  | VDebugMacinfoRef x -> n "DebugMacinfoRef" x | VDebugMacroRef x -> n "DebugMacroRef" x
  | VRangeListsRef x -> n "RangeListsRef" x | VDebugRngListsBase x -> n "DebugRngListsBase" x
  | VDebugRngListsIndex x -> n "DebugRngListsIndex" x | VDebugTypesRef x -> n "DebugTypesRef" x
  | VDebugStrRef x -> n "DebugStrRef" x | VDebugStrRefSup x -> n "DebugStrRefSup" x
  | VDebugStrOffsetsBase x -> n "DebugStrOffsetsBase" x
  | VDebugStrOffsetsIndex x -> n "DebugStrOffsetsIndex" x | VDebugLineStrRef x -> n "DebugLineStrRef" x
  | VString s -> Printf.sprintf "String(%s)" (hexb s)
  | VEncoding x -> n "Encoding" x | VDecimalSign x -> n "DecimalSign" x | VEndianity x -> n "Endianity" x
  | VAccessibility x -> n "Accessibility" x | VVisibility x -> n "Visibility" x
  | VVirtuality x -> n "Virtuality" x | VLanguage x -> n "Language" x | VAddressClass x -> n "AddressClass" x
  | VIdentifierCase x -> n "IdentifierCase" x | VCallingConvention x -> n "CallingConvention" x
  | VInline x -> n "Inline" x | VOrdering x -> n "Ordering" x | VFileIndex x -> n "FileIndex" x
  | VDwoId x -> n "DwoId" x

let opt_n = function Some x -> string_of_n x | None -> "-"
let opt_z = function Some x -> string_of_cz x | None -> "-"
let helpers v =
  Printf.sprintf "u=%s s=%s o=%s e=%s u8=%s u16=%s"
    (opt_n (Attr.udata_value v)) (opt_z (Attr.sdata_value v)) (opt_n (Attr.offset_value v))
    (match Attr.exprloc_value v with Some b -> "[" ^ hexb b ^ "]" | None -> "-")
    (opt_n (Attr.u8_value v)) (opt_n (Attr.u16_value v))

type spec = { name : int; form : int; implicit : Z.t }
let aspec_of (s : spec) : Attr.aspec =
  Attr.aspec_new (n_of_int s.name) (n_of_int s.form)
    (if s.form = 0x21 then Some (cz_of_z s.implicit) else None)

(* model evaluation of one case; mirrors the order of operations of harness attrs() *)
let eval_attrs ~with_helpers dbg (e : enc) (specs : Attr.aspec list) (payload : Byte0.byte list) : string =
  let total = List.length payload in
  let exception Stop of string in
  try
    let vals = ref [] and sizes = ref [] and bs = ref payload and err = ref None in
    (try
      List.iter (fun (s : Attr.aspec) ->
        sizes := (match Attr.get_attribute_size s.Attr.at_form e with Some x -> string_of_n x | None -> "-") :: !sizes;
        match Attr.parse_attribute dbg e s !bs with
        | Res.Ok (v, r) ->
            let norm = Attr.attr_normalise s.Attr.at_name v in
            let str = show v ^ "/" ^ show norm in
            let str = if with_helpers then
                Printf.sprintf "%s %s | u=%s s=%s o=%s" str (helpers v)
                  (opt_n (Attr.udata_value v)) (opt_z (Attr.sdata_value v)) (opt_n (Attr.offset_value v))
              else str in
            vals := str :: !vals; bs := r
        | Res.Err x -> err := Some (Errnames.name x); raise Exit
        | Res.Panic -> raise (Stop "panic")
        | Res.OutOfFuel -> raise (Stop "outoffuel")) specs
    with Exit -> ());
    (* the list-level model function used by the theorems must agree with the loop above *)
    (match Attr.read_attributes dbg e specs payload, !err with
     | Res.Ok (_, r), None when List.length r = List.length !bs -> ()
     | Res.Err x, Some y when Errnames.name x = y -> ()
     | _ -> raise (Stop "model-inconsistent"));
    let read_pos = total - List.length !bs in
    let r = match !err with
      | None -> Printf.sprintf "ok %d %s" read_pos (if !vals = [] then "-" else String.concat " ; " (List.rev !vals))
      | Some x -> "err " ^ x in
    let s = match Attr.skip_attributes dbg e specs payload with
      | Res.Ok rest -> Printf.sprintf "ok %d" (total - List.length rest)
      | Res.Err x -> "err " ^ Errnames.name x
      | Res.Panic -> raise (Stop "panic")
      | Res.OutOfFuel -> raise (Stop "outoffuel") in
    Printf.sprintf "read %s skip %s sizes %s" r s (if !sizes = [] then "-" else String.concat "," (List.rev !sizes))
  with Stop s -> s

let case_line stream v f64 asz bigend (specs : spec list) (payload : Byte0.byte list) =
  Printf.sprintf "%s %d %d %d %d %d%s %s" stream v (b01 f64) asz (b01 bigend) (List.length specs)
    (String.concat "" (List.map (fun s -> Printf.sprintf " %d %d %s" s.name s.form (Z.to_string s.implicit)) specs))
    (hexb payload)

let run_case ?(with_helpers = false) emit stream v f64 asz bigend specs payload =
  let e = mk_enc v f64 asz bigend in
  let aspecs = List.map aspec_of specs in
  both emit (case_line stream v f64 asz bigend specs payload)
    (fun dbg -> eval_attrs ~with_helpers dbg e aspecs payload)

(* ---- value pools ---- *)
let p2 k = Z.shift_left Z.one k
let uleb_z z = LebSpec.enc_uleb (n_of_z z)
let ints l = bytes_of_ints l
let rep n x = List.init n (fun _ -> x)

let known_forms = List.map (fun f -> int_of_n (form_code f)) all_forms
let is_known c = List.mem c known_forms
let versions = [2; 3; 4; 5]
let asizes = [1; 2; 4; 8]
let configs =
  List.concat_map (fun v -> List.concat_map (fun f64 -> List.concat_map (fun asz ->
    List.map (fun bigend -> (v, f64, asz, bigend)) [false; true]) asizes) [false; true]) versions
let config_of_int i = List.nth configs (i mod 64)

(* byte strings thrown at every form whatever its layout: empty, short, each width, LEB edge
   cases (multi-byte, maximal, over-long, overflowing), blocks with exact/short contents *)
let generic_pool : int list list =
  [ []; [0]; [1]; [0x7f]; [0x80]; [0xff]; [0x40]; [0x3f];
    [0; 0]; [0xff; 0xff]; [0x80; 0x01]; [0x80; 0x7f]; [0xff; 0x7f; 0x5a];
    [1; 0xaa]; [2; 0xaa]; [0; 1; 0xaa; 0xbb]; [1; 0; 0xaa; 0xbb]; [3; 0; 0; 0; 1; 2; 3; 4];
    [0; 0; 0; 3; 1; 2; 3; 4]; [0x12; 0x34; 0x56]; [0xff; 0xff; 0xff]; [0x12; 0x34; 0x56; 0x78; 0x9a];
    rep 4 0xff; rep 7 0xff; rep 8 0xff; [1;2;3;4;5;6;7;8;9]; rep 15 0xff; rep 16 0xff; rep 17 0x80;
    rep 9 0xff @ [0x01]; rep 9 0xff @ [0x01; 0x77]; rep 9 0xff @ [0x02]; rep 9 0x80 @ [0x00; 0x33];
    rep 9 0x80 @ [0x7f]; rep 9 0xff @ [0x7f]; rep 9 0x80 @ [0x01]; rep 10 0x80 @ [0x00]; rep 9 0xff @ [0x00];
    [0x61; 0x62; 0]; [0x61; 0x62]; [0; 0x61]; [5; 1; 2; 3; 4; 5; 6] ]

(* boundary data for a layout, serialised by the spec encoder *)
let boundary_raws (l : layout) : raw list =
  let num_for bits =
    let m = p2 bits in
    List.sort_uniq Z.compare
      (List.filter (fun z -> Z.sign z >= 0 && Z.lt z m)
         [Z.zero; Z.one; Z.of_int 0x7f; Z.of_int 0x80; Z.of_int 0xff; Z.of_int 0x100; Z.pred (p2 (bits - 1));
          p2 (bits - 1); Z.pred m; Z.sub m (Z.of_int 2); Z.of_int 0x1234; Z.of_string "0x123456789abcdef0"])
    |> List.map (fun z -> RNum (n_of_z z)) in
  match l with
  | LFixed n -> let n = int_of_n n in if n = 0 || n > 16 then [RNum (n_of_int 0)] else num_for (8 * n)
  | LUleb ->
      List.map (fun z -> RNum (n_of_z z))
        [Z.zero; Z.one; Z.of_int 127; Z.of_int 128; Z.of_int 16383; Z.of_int 16384; Z.pred (p2 32); p2 32;
         Z.pred (p2 56); p2 56; Z.pred (p2 63); p2 63; Z.pred (p2 64)]
  | LSleb ->
      List.map (fun z -> RInt (cz_of_z z))
        [Z.zero; Z.one; Z.minus_one; Z.of_int 63; Z.of_int 64; Z.of_int (-64); Z.of_int (-65); Z.of_int 8191;
         Z.of_int 8192; Z.of_int (-8192); Z.of_int (-8193); Z.pred (p2 31); Z.neg (p2 31); Z.pred (p2 62); p2 62;
         Z.neg (p2 62); Z.pred (Z.neg (p2 62)); Z.pred (p2 63); Z.neg (p2 63)]
  | LBlock p ->
      let lens = match p with
        | P1 -> [0; 1; 2; 127; 128; 255]
        | P2 -> [0; 1; 255; 256; 300]
        | P4 -> [0; 1; 256; 300]
        | PUleb -> [0; 1; 127; 128; 300] in
      List.map (fun k -> RBytes (ints (List.init k (fun i -> (i * 7 + 1) land 255)))) lens
  | LCstring -> List.map (fun k -> RBytes (ints (List.init k (fun i -> 1 + (i mod 255))))) [0; 1; 5; 300]
  | LNone -> [RNone]
  | LIndirect -> []

let encode_all (f : form) (e : enc) : Byte0.byte list list =
  let l = form_layout f e in
  List.filter_map (fun r -> enc_layout l e.be r) (boundary_raws l)

let rot_names = [| 3; 2; 0x10; 0x38; 0x13; 0x3e; 0x55; 0x79; 0x0b; 0x2131; 0x1c; 0x3a; 0x49; 0x11; 0xffff; 0x33 |]
let implicit_pool = List.map Z.of_string
    ["0"; "1"; "-1"; "63"; "64"; "-64"; "-65"; "255"; "256"; "65536"; "9223372036854775807"; "-9223372036854775808"; "42"]

let () =
  register "c03.forms"
    ~doc:"one attribute: every known form x version 2-5 x format x address size 1/2/4/8 x byte order x (generic byte-string pool + spec-encoded boundary values, exact / one trailing byte / truncated by one); DW_FORM_indirect depth 1-3 to every known form; every unknown form code 0..0xffff; data4/data8 x every name 0..0x8f,0x2130..0x2134 x version x format; implicit_const boundary constants"
    (fun ~seed ~n emit ->
      let go = run_case emit "c03.forms" in
      let ctr = ref 0 in
      let name () = incr ctr; rot_names.(!ctr mod Array.length rot_names) in
      (* 1. known forms x all configs x pool *)
      List.iter (fun f ->
        let c = int_of_n (form_code f) in
        (* the version matters only to ref_addr and data4/data8: the other forms get versions 2 and 5 *)
        let version_sensitive = (c = 0x10 || c = 0x06 || c = 0x07) in
        List.iter (fun (v, f64, asz, bigend) ->
          if version_sensitive || v = 2 || v = 5 then begin
          let e = mk_enc v f64 asz bigend in
          let sp () = { name = name (); form = c; implicit = Z.of_int 42 } in
          List.iter (fun l -> go v f64 asz bigend [sp ()] (ints l)) generic_pool;
          List.iter (fun bs ->
            go v f64 asz bigend [sp ()] bs;
            go v f64 asz bigend [sp ()] (bs @ ints [0x5a]);
            (match List.rev bs with [] -> () | _ :: t -> go v f64 asz bigend [sp ()] (List.rev t)))
            (encode_all f e) end) configs) all_forms;
      (* 2. indirect chains *)
      List.iter (fun f ->
        let c = int_of_n (form_code f) in
        List.iteri (fun ci (v, f64, asz, bigend) ->
          if ci mod 4 = (c mod 4) then begin
            let e = mk_enc v f64 asz bigend in
            let datas = match encode_all f e with [] -> [ints [1; 2; 3]] | l -> l in
            List.iteri (fun di d ->
              if di < 4 then
              for depth = 1 to 3 do
                let hops = List.concat (List.init (depth - 1) (fun _ -> uleb_z (Z.of_int 0x16))) @ uleb_z (Z.of_int c) in
                go v f64 asz bigend [{ name = name (); form = 0x16; implicit = Z.zero }] (hops @ d @ ints [0x5a])
              done) datas
          end) configs) all_forms;
      (* indirect: over-long, 3-byte, overflowing and truncated form codes; unknown dynamic forms *)
      List.iter (fun hop ->
        List.iter (fun (v, f64, asz, bigend) ->
          go v f64 asz bigend [{ name = 3; form = 0x16; implicit = Z.zero }] (ints (hop @ [1; 2; 3; 4; 5; 6; 7; 8; 9])))
          [(4, false, 4, false); (5, true, 8, true); (2, false, 2, true)])
        [[0x8b; 0x00]; [0x8b; 0x80; 0x00]; [0x81; 0xbe; 0x00]; [0xa0; 0x3e]; [0x81; 0xbe; 0x80]; [0xff; 0xff; 0x03];
         [0xff; 0xff; 0x04]; [0x80; 0x80; 0x04]; [0x96]; [0x96; 0x80]; [0x00]; [0x02]; [0x2d]; [0x7f]; [0x80; 0x01];
         [0x16; 0x16; 0x16; 0x16; 0x16; 0x16; 0x16; 0x16; 0x0b]; [0x16; 0x16; 0x16]; [0x21]; [0x16; 0x21]];
      (* 3. every unknown form code *)
      for c = 0 to 0xffff do
        if not (is_known c) then begin
          let (v, f64, asz, bigend) = config_of_int c in
          go v f64 asz bigend [{ name = rot_names.(c land 15); form = c; implicit = Z.zero }] (ints [1; 2; 3])
        end
      done;
      (* 4. legacy section offsets: data4/data8/sec_offset/udata x names x version x format *)
      List.iter (fun nm ->
        List.iter (fun v -> List.iter (fun f64 -> List.iter (fun form ->
          go v f64 4 (nm land 1 = 1) [{ name = nm; form; implicit = Z.zero }]
            (ints [0x11; 0x22; 0x33; 0x44; 0x55; 0x66; 0x77; 0x88; 0x99])) [0x06; 0x07]) [false; true]) [1; 2; 3; 4; 5; 6])
        (List.init 0x90 (fun i -> i) @ [0x2130; 0x2131; 0x2132; 0x2133; 0x2134; 0x2119; 0xffff]);
      (* 5. implicit constants *)
      List.iter (fun z ->
        go 5 false 8 false [{ name = 0x3a; form = 0x21; implicit = z }] (ints [0x77]);
        go 4 true 4 true [{ name = 0x0b; form = 0x21; implicit = z }] []) implicit_pool;
      (* 5b. encodings the unit header parser refuses (public constructors take them): odd versions and
         address sizes for the forms whose size depends on them *)
      List.iter (fun c ->
        List.iter (fun v -> List.iter (fun asz -> List.iter (fun f64 ->
          go v f64 asz (asz land 1 = 1) [{ name = 3; form = c; implicit = Z.zero }] (ints [1; 2; 3; 4; 5; 6; 7; 8; 9; 10; 11; 12; 13; 14; 15; 16; 17]);
          go v f64 asz false [{ name = 2; form = c; implicit = Z.zero }] (ints [1; 2; 3])) [false; true])
          [0; 1; 2; 3; 4; 5; 8; 9; 16; 255]) [0; 1; 2; 3; 5; 6; 65535])
        [0x01; 0x10; 0x17; 0x0e; 0x06; 0x07; 0x1f20; 0x0b; 0x16];
      (* 6. random single attributes (n) *)
      let r = mk_rng seed in
      for _ = 1 to n do
        let (v, f64, asz, bigend) = config_of_int (rand_int r 64) in
        let c = if rand_int r 10 = 0 then rand_int r 0x30 else List.nth known_forms (rand_int r (List.length known_forms)) in
        let len = rand_int r 20 in
        let payload = List.init len (fun _ -> match rand_int r 5 with 0 -> 0 | 1 -> 0xff | 2 -> 0x80 | 3 -> rand_int r 0x30 | _ -> rand_int r 256) in
        go v f64 asz bigend [{ name = rot_names.(rand_int r 16); form = c; implicit = boundary_z64 r |> fun z -> if Z.numbits z > 63 then Z.sub z (p2 64) else z }] (ints payload)
      done);

  register "c03.lists"
    ~doc:"attribute lists of length 1-6 with alternating fixed / variable forms (skip accumulation across variable forms), spec-encoded values, block lengths near 2^64, truncations and splices"
    (fun ~seed ~n emit ->
      let go = run_case emit "c03.lists" in
      let fixed_forms = [| 0x01; 0x0b; 0x05; 0x06; 0x07; 0x1e; 0x0c; 0x11; 0x12; 0x13; 0x14; 0x17; 0x0e; 0x10; 0x19; 0x21; 0x20;
                           0x25; 0x26; 0x27; 0x28; 0x29; 0x2a; 0x2b; 0x2c; 0x1c; 0x24; 0x1d; 0x1f; 0x1f20; 0x1f21 |] in
      let var_forms = [| 0x0a; 0x03; 0x04; 0x09; 0x18; 0x08; 0x0f; 0x0d; 0x15; 0x1a; 0x1b; 0x22; 0x23; 0x1f01; 0x1f02; 0x16 |] in
      let form_of c = List.find (fun f -> int_of_n (form_code f) = c) all_forms in
      let huge = List.map (fun s -> uleb_z (Z.of_string s))
          ["18446744073709551615"; "18446744073709551614"; "18446744073709551608"; "18446744073709551360";
           "9223372036854775808"; "9223372036854775807"; "4294967296"] in
      (* deterministic part: a huge block length followed by fixed forms, in every position *)
      List.iter (fun h ->
        List.iter (fun (bform, pre) ->
          List.iter (fun tail_forms ->
            let specs = List.map (fun c -> { name = 3; form = c; implicit = Z.of_int 7 }) (pre @ [bform] @ tail_forms) in
            go 4 false 8 false specs (ints (rep (List.length pre) 0x11) @ h @ ints [1; 2; 3; 4; 5; 6; 7; 8; 9; 10]);
            go 5 true 4 true specs (ints (rep (List.length pre) 0x11) @ h))
            [[]; [0x0b]; [0x07]; [0x1e]; [0x0b; 0x0f]; [0x19]; [0x21]; [0x0b; 0x0b; 0x0a]; [0x08]; [0x16]])
          [(0x09, []); (0x18, []); (0x09, [0x0b]); (0x18, [0x0b; 0x0b])]) huge;
      (* block4 = 0xffffffff then fixed, block2, block1 maxima *)
      List.iter (fun (bform, pfx) ->
        List.iter (fun tail ->
          let specs = List.map (fun c -> { name = 2; form = c; implicit = Z.zero }) (bform :: tail) in
          go 3 false 4 false specs (ints (pfx @ rep 300 0xab)))
          [[]; [0x0b]; [0x06; 0x0f]; [0x0a]]) [(0x04, rep 4 0xff); (0x03, rep 2 0xff); (0x0a, [0xff]); (0x04, [0x10; 0; 0; 0]); (0x03, [0x20; 0x01])];
      let r = mk_rng seed in
      for _ = 1 to n do
        let (v, f64, asz, bigend) = config_of_int (rand_int r 64) in
        let e = mk_enc v f64 asz bigend in
        let k = 1 + rand_int r 6 in
        let start_fixed = rand_bool r in
        let mode = rand_int r 10 in   (* 0,1: mutate; 2: random tail junk; else valid *)
        let specs_and_bytes = List.init k (fun j ->
          let want_fixed = if rand_int r 5 = 0 then rand_bool r else (j mod 2 = 0) = start_fixed in
          let c = if want_fixed then pick r fixed_forms else pick r var_forms in
          let nm = rot_names.(rand_int r 16) in
          let imp = if rand_bool r then Z.of_int (rand_int r 200 - 100) else
              (let z = boundary_z64 r in if Z.numbits z > 63 then Z.sub z (p2 64) else z) in
          (* data: for indirect pick a real form and prefix its code *)
          let rec data c depth =
            if c = 0x16 then begin
              let c2 = if depth < 3 && rand_int r 4 = 0 then 0x16
                else if rand_bool r then pick r fixed_forms else pick r var_forms in
              let c2 = if c2 = 0x16 && depth >= 3 then 0x0b else c2 in
              uleb_z (Z.of_int c2) @ data c2 (depth + 1)
            end else begin
              let f = form_of c in
              let l = form_layout f e in
              let raws = boundary_raws l in
              let raw = match l with
                | LBlock _ | LCstring when rand_bool r ->
                    let len = rand_int r 12 in
                    RBytes (ints (List.init len (fun _ -> 1 + rand_int r 255)))
                | LUleb when rand_bool r -> RNum (n_of_z (boundary_z64 r))
                | LFixed w when rand_bool r && int_of_n w >= 1 && int_of_n w <= 8 ->
                    RNum (n_of_z (Z.logand (rand_z64 r) (Z.pred (p2 (8 * int_of_n w)))))
                | _ -> if raws = [] then RNone else List.nth raws (rand_int r (List.length raws)) in
              match enc_layout l e.be raw with Some b -> b | None -> []
            end in
          ({ name = nm; form = c; implicit = imp }, data c 0)) in
        let specs = List.map fst specs_and_bytes in
        let bytes = List.concat_map snd specs_and_bytes in
        let bytes = match mode with
          | 0 -> let cut = rand_int r (List.length bytes + 1) in List.filteri (fun i _ -> i < cut) bytes
          | 1 -> (match bytes with [] -> bytes | _ ->
              let pos = rand_int r (List.length bytes) in
              let nb = byte_of_int (pick r [| 0; 0xff; 0x80; 0x7f; 1; rand_int r 256 |]) in
              List.mapi (fun i b -> if i = pos then nb else b) bytes)
          | 2 -> bytes @ ints (rand_bytes r (rand_int r 4))
          | _ -> bytes in
        go v f64 asz bigend specs bytes
      done);

  register "c03.size"
    ~doc:"AttributeSpecification::size: every form code 0..0xffff x 2 rotating encodings (n >= 1000000: x all 64); known forms x version 1-6 x format x address size 0,1,2,3,4,8,16,255"
    (fun ~seed:_ ~n emit ->
      let case c v f64 asz =
        let e = mk_enc v f64 asz false in
        both emit (Printf.sprintf "c03.size %d %d %d %d" c v (b01 f64) asz) (fun _ ->
          match Attr.get_attribute_size (n_of_int c) e with Some x -> "some " ^ string_of_n x | None -> "none") in
      List.iter (fun c -> List.iter (fun v -> List.iter (fun f64 -> List.iter (fun asz -> case c v f64 asz)
        [0; 1; 2; 3; 4; 8; 16; 255]) [false; true]) [1; 2; 3; 4; 5; 6]) known_forms;
      for c = 0 to 0xffff do
        if n >= 1000000 then List.iter (fun (v, f64, asz, _) -> case c v f64 asz) (List.filteri (fun i _ -> i mod 2 = 0) configs)
        else for k = 0 to 1 do let (v, f64, asz, _) = config_of_int (c * 6 + k * 34 + (c / 16) * 8) in case c v f64 asz done
      done);

  register "c03.value"
    ~doc:"Attribute::value / raw_value and the udata/sdata/offset/exprloc/u8/u16 helpers: every attribute name with a rule and its neighbours (0..0x8f, 0x2100..0x213f) x every raw value kind the parser can produce x boundary payloads; every other name 0..0xffff x 2 rotating kinds (n >= 1000000: x every kind)"
    (fun ~seed:_ ~n emit ->
      let go = run_case ~with_helpers:true emit "c03.value" in
      (* (form, payload little-endian) producing each raw kind *)
      let le z w = List.init w (fun i -> Z.to_int (Z.logand (Z.shift_right z (8 * i)) (Z.of_int 255))) in
      let kinds : (int * int list list) list = [
        (0x01, [le (Z.of_int 0x1000) 8]);                                  (* Addr *)
        (0x0a, [[0]; [2; 0x91; 0x00]]);                                    (* Block *)
        (0x0b, [[0]; [1]; [0x7f]; [0x80]; [0xff]]);                        (* Data1 *)
        (0x05, [[0xff; 0]; [0; 1]; [0xff; 0x7f]; [0; 0x80]; [0xff; 0xff]]);(* Data2 *)
        (0x06, [le (Z.of_int 255) 4; le (Z.of_int 65535) 4; le (Z.of_int 65536) 4; le (p2 31) 4; le (Z.pred (p2 32)) 4]);
        (0x07, [le (Z.of_int 256) 8; le (p2 63) 8; le (Z.pred (p2 63)) 8; le (Z.pred (p2 64)) 8]);
        (0x1e, [le (Z.of_int 5) 16]);                                      (* Data16 *)
        (0x0d, [[0]; [0x7f]; [0xff; 0x01]; [0x80; 0x02]; [0x80; 0x7e]; rep 9 0x80 @ [0x7f]; rep 9 0xff @ [0x00]]); (* Sdata *)
        (0x21, [[]]);                                                      (* Sdata via implicit_const *)
        (0x0f, [[0]; [0xff; 0x01]; [0x80; 0x02]; [0xff; 0xff; 0x03]; [0x80; 0x80; 0x04]; rep 9 0xff @ [0x01]; rep 8 0xff @ [0x7f]; rep 9 0x80 @ [0x01]]);
        (0x18, [[0]; [1; 0x9c]]);                                          (* Exprloc *)
        (0x0c, [[0]; [2]]); (0x19, [[]]);                                  (* Flag *)
        (0x17, [le (Z.of_int 0x1234) 8]);                                  (* SecOffset *)
        (0x1b, [[5]]); (0x13, [le (Z.of_int 77) 4]); (0x10, [le (Z.of_int 78) 8]); (0x1c, [le (Z.of_int 79) 4]);
        (0x22, [[6]]); (0x23, [[7]]); (0x20, [le (Z.of_string "0x1122334455667788") 8]);
        (0x0e, [le (Z.of_int 80) 8]); (0x1d, [le (Z.of_int 81) 8]); (0x1a, [[8]]); (0x1f, [le (Z.of_int 82) 8]);
        (0x08, [[0x61; 0]]) ] in
      let nk = List.length kinds in
      let interesting nm = nm < 0x90 || (nm >= 0x2100 && nm < 0x2140) in
      for nm = 0 to 0xffff do
        let (v, f64, asz, _) = config_of_int (nm * 5 + 3) in
        let asz = if asz < 4 then 8 else asz in
        if interesting nm then
          List.iter (fun (form, ps) ->
            List.iter (fun p ->
              List.iter (fun imp -> go v f64 asz false [{ name = nm; form; implicit = imp }] (ints (p @ [0xee])))
                (if form = 0x21 then [Z.of_int 7; Z.of_int (-7); Z.of_int 255; Z.of_int 256; Z.of_int 65536] else [Z.zero])) ps;
            (* the other format / an old version as well: data4/data8 legacy offsets *)
            if form = 0x06 || form = 0x07 then
              List.iter (fun (v2, f2) -> go v2 f2 asz false [{ name = nm; form; implicit = Z.zero }] (ints (List.hd ps @ [0xee])))
                [(2, false); (2, true); (4, false); (4, true)]) kinds
        else begin
          let pick_kinds = if n >= 1000000 then List.init nk (fun i -> i) else [nm mod nk; (nm / 7 + 9) mod nk] in
          List.iter (fun ki ->
            let (form, ps) = List.nth kinds ki in
            go v f64 asz false [{ name = nm; form; implicit = Z.of_int 9 }] (ints (List.nth ps (nm mod List.length ps) @ [0xee]))) pick_kinds
        end
      done);

  register "c03.lineform"
    ~doc:"src/read/line.rs parse_attribute through a DWARF 5 line-program header (one directory entry of format (DW_LNCT_path, form)): every form code 0..0x30 and the GNU forms x format x byte order x (byte pool + spec-encoded boundary data), keeping the cases where the model says the entry is consumed exactly or rejected"
    (fun ~seed ~n emit ->
      let tail = ints [1; 1; 0x08; 0] in
      let case f64 asz bigend c (payload : Byte0.byte list) =
        let e = mk_enc 5 f64 asz bigend in
        let input = payload @ tail in
        let verdict dbg = match Attr.line_parse_attribute dbg e (n_of_int c) input with
          | Res.Ok (v, r) -> if r = tail then Some ("ok " ^ show v) else None
          | Res.Err x -> Some ("err " ^ Errnames.name x)
          | Res.Panic -> Some "panic" | Res.OutOfFuel -> Some "outoffuel" in
        match verdict true, verdict false with
        | Some d, Some r ->
            emit (Printf.sprintf "c03.lineform %d %d %d %d %s" (b01 f64) asz (b01 bigend) c (hexb payload)) d r
        | _ -> () in
      let codes = List.init 0x31 (fun i -> i) @ [0x1f01; 0x1f02; 0x1f20; 0x1f21; 0x1f00; 0xffff] in
      List.iter (fun c ->
        List.iter (fun f64 -> List.iter (fun bigend ->
          let asz = if c land 1 = 0 then 8 else 4 in
          let line_known = List.mem c [0x0a; 0x03; 0x04; 0x09; 0x0b; 0x05; 0x06; 0x07; 0x1e; 0x0f; 0x0d; 0x0c; 0x17; 0x08;
                                       0x0e; 0x1d; 0x1f21; 0x1f; 0x1a; 0x1f02; 0x25; 0x26; 0x27; 0x28] in
          List.iteri (fun i l -> if line_known || i = 1 || i = 20 then case f64 asz bigend c (ints l)) generic_pool;
          (match List.find_opt (fun f -> line_known && int_of_n (form_code f) = c) all_forms with
           | Some f ->
               List.iter (fun bs ->
                 case f64 asz bigend c bs;
                 (match List.rev bs with [] -> () | _ :: t -> case f64 asz bigend c (List.rev t)))
                 (encode_all f (mk_enc 5 f64 asz bigend))
           | None -> ())) [false; true]) [false; true]) codes;
      let r = mk_rng seed in
      for _ = 1 to n do
        let c = pick r [| 0x0a; 0x03; 0x04; 0x09; 0x0b; 0x05; 0x06; 0x07; 0x1e; 0x0f; 0x0d; 0x0c; 0x17; 0x08; 0x0e; 0x1d; 0x1f21;
                          0x1f; 0x1a; 0x1f02; 0x25; 0x26; 0x27; 0x28; 0x01; 0x18; 0x16; 0x21; 0x19; 0x1b |] in
        let len = rand_int r 20 in
        let payload = List.init len (fun _ -> match rand_int r 5 with 0 -> 0 | 1 -> 0xff | 2 -> 0x80 | 3 -> rand_int r 0x14 | _ -> rand_int r 256) in
        case (rand_bool r) (pick r [| 1; 2; 4; 8 |]) (rand_bool r) c (ints payload)
      done);

  register "c03.helpers"
    ~doc:"AttributeValue::{udata,sdata,offset,exprloc,u8,u16}_value on a directly constructed value of each of the 47 variants x boundary numbers of the variant's width"
    (fun ~seed ~n emit ->
      let mk kind (z : Z.t) : attr_value option =
        let x = if Z.sign z >= 0 then Some (n_of_z z) else None in
        let u w f = match x with Some v when Z.lt z (p2 w) -> Some (f v) | _ -> None in
        match kind with
        | 0 -> u 64 (fun v -> VAddr v) | 2 -> u 8 (fun v -> VData1 v) | 3 -> u 16 (fun v -> VData2 v)
        | 4 -> u 32 (fun v -> VData4 v) | 5 -> u 64 (fun v -> VData8 v) | 6 -> u 128 (fun v -> VData16 v)
        | 7 -> if Z.numbits z <= 63 || Z.equal z (Z.neg (p2 63)) then Some (VSdata (cz_of_z z)) else None
        | 8 -> u 64 (fun v -> VUdata v) | 10 -> u 1 (fun v -> VFlag (Z.sign z <> 0))
        | 11 -> u 64 (fun v -> VSecOffset v) | 12 -> u 64 (fun v -> VDebugAddrBase v) | 13 -> u 64 (fun v -> VDebugAddrIndex v)
        | 14 -> u 64 (fun v -> VUnitRef v) | 15 -> u 64 (fun v -> VDebugInfoRef v) | 16 -> u 64 (fun v -> VDebugInfoRefSup v)
        | 17 -> u 64 (fun v -> VDebugLineRef v) | 18 -> u 64 (fun v -> VLocationListsRef v) | 19 -> u 64 (fun v -> VDebugLocListsBase v)
        | 20 -> u 64 (fun v -> VDebugLocListsIndex v) | 21 -> u 64 (fun v -> VDebugMacinfoRef v) | 22 -> u 64 (fun v -> VDebugMacroRef v)
        | 23 -> u 64 (fun v -> VRangeListsRef v) | 24 -> u 64 (fun v -> VDebugRngListsBase v) | 25 -> u 64 (fun v -> VDebugRngListsIndex v)
        | 26 -> u 64 (fun v -> VDebugTypesRef v) | 27 -> u 64 (fun v -> VDebugStrRef v) | 28 -> u 64 (fun v -> VDebugStrRefSup v)
        | 29 -> u 64 (fun v -> VDebugStrOffsetsBase v) | 30 -> u 64 (fun v -> VDebugStrOffsetsIndex v) | 31 -> u 64 (fun v -> VDebugLineStrRef v)
        | 33 -> u 8 (fun v -> VEncoding v) | 34 -> u 8 (fun v -> VDecimalSign v) | 35 -> u 8 (fun v -> VEndianity v)
        | 36 -> u 8 (fun v -> VAccessibility v) | 37 -> u 8 (fun v -> VVisibility v) | 38 -> u 8 (fun v -> VVirtuality v)
        | 39 -> u 16 (fun v -> VLanguage v) | 40 -> u 64 (fun v -> VAddressClass v) | 41 -> u 8 (fun v -> VIdentifierCase v)
        | 42 -> u 8 (fun v -> VCallingConvention v) | 43 -> u 8 (fun v -> VInline v) | 44 -> u 8 (fun v -> VOrdering v)
        | 45 -> u 64 (fun v -> VFileIndex v) | 46 -> u 64 (fun v -> VDwoId v)
        | _ -> None in
      let case_num kind z =
        match mk kind z with
        | None -> ()
        | Some v -> both emit (Printf.sprintf "c03.helpers %d %s" kind (Z.to_string z)) (fun _ -> "ok " ^ show v ^ " " ^ helpers v) in
      let case_bytes kind l =
        let b = ints l in
        let v = match kind with 1 -> VBlock b | 9 -> VExprloc b | _ -> VString b in
        both emit (Printf.sprintf "c03.helpers %d %s" kind (hexb b)) (fun _ -> "ok " ^ show v ^ " " ^ helpers v) in
      let nums = List.concat_map (fun k -> [Z.pred (p2 k); p2 k; Z.succ (p2 k)]) [0; 1; 6; 7; 8; 15; 16; 31; 32; 62; 63; 64; 127]
                 @ [Z.zero; Z.pred (p2 128)] in
      let nums = nums @ List.map Z.neg nums in
      for kind = 0 to 46 do
        if kind = 1 || kind = 9 || kind = 32 then List.iter (case_bytes kind) [[]; [0]; [0x91; 0x7f]; rep 40 0xab]
        else List.iter (case_num kind) nums
      done;
      let r = mk_rng seed in
      for _ = 1 to n do
        let kind = rand_int r 47 in
        if kind = 1 || kind = 9 || kind = 32 then case_bytes kind (rand_bytes r (rand_int r 6))
        else begin
          let z = boundary_z64 r in
          let z = match rand_int r 4 with 0 -> Z.neg z | 1 -> Z.logand z (Z.of_int 0xffff) | 2 -> Z.logand z (Z.of_int 0x1ff) | _ -> z in
          case_num kind z
        end
      done)

let init () = ()
