(* s_c09.ml — streams for C09 (primitive codecs). Model side: extracted Leb/Prim. *)
open Conv
open Streams

let pr_n_rest (v, rest) = string_of_n v ^ " " ^ string_of_int (List.length rest)
let pr_z_rest (v, rest) = string_of_cz v ^ " " ^ string_of_int (List.length rest)

let cont_tails = [| 0x80; 0xff; 0x81; 0xc0; 0xbf |]
let terminators = [| 0x00; 0x01; 0x02; 0x03; 0x3f; 0x40; 0x41; 0x7e; 0x7f; 0x10; 0x04 |]

(* byte strings exercising LEB decoders: exhaustive <= 2 bytes, then structured *)
let leb_inputs ~seed ~n (k : int list -> unit) =
  k [];
  for a = 0 to 255 do k [a] done;
  for a = 0 to 255 do for b = 0 to 255 do k [a; b] done done;
  (* every 1-byte continuation prefix x runs of 6..10 continuation bytes x every terminator byte 0..255 *)
  Array.iter (fun c ->
    for run = 6 to 10 do
      for t = 0 to 255 do
        k (List.init run (fun _ -> c) @ [t]);
        k (List.init run (fun _ -> c) @ [t; 0x5a])
      done
    done) cont_tails;
  let r = mk_rng seed in
  for _ = 1 to n do
    let run = rand_int r 12 in
    let body = List.init run (fun _ ->
      0x80 lor (match rand_int r 4 with 0 -> 0 | 1 -> 0x7f | _ -> rand_int r 128)) in
    let term = if rand_int r 8 = 0 then [] else
      [ (if rand_bool r then pick r terminators else rand_int r 128) ] in
    let trail = rand_bytes r (rand_int r 3) in
    k (body @ term @ trail)
  done

let () =
  register "c09.uleb" ~doc:"leb128::read::unsigned on arbitrary byte strings" (fun ~seed ~n emit ->
    leb_inputs ~seed ~n (fun l ->
      let bs = bytes_of_ints l in
      both emit ("c09.uleb " ^ hex_of_ints l) (fun dbg -> show_res pr_n_rest (Leb.read_uleb128 dbg bs))));
  register "c09.sleb" ~doc:"leb128::read::signed on arbitrary byte strings" (fun ~seed ~n emit ->
    leb_inputs ~seed ~n (fun l ->
      let bs = bytes_of_ints l in
      both emit ("c09.sleb " ^ hex_of_ints l) (fun dbg -> show_res pr_z_rest (Leb.read_sleb128 dbg bs))));
  register "c09.uleb32" ~doc:"Reader::read_uleb128_u32" (fun ~seed ~n emit ->
    leb_inputs ~seed ~n (fun l ->
      let bs = bytes_of_ints l in
      both emit ("c09.uleb32 " ^ hex_of_ints l) (fun dbg -> show_res pr_n_rest (Leb.read_uleb128_u32 dbg bs))));
  register "c09.skipleb" ~doc:"leb128::read::skip" (fun ~seed ~n emit ->
    leb_inputs ~seed ~n (fun l ->
      let bs = bytes_of_ints l in
      both emit ("c09.skipleb " ^ hex_of_ints l) (fun _ ->
        show_res (fun (_, rest) -> string_of_int (List.length rest)) (Leb.skip_leb bs))));
  register "c09.uleb16" ~doc:"leb128::read::u16: exhaustive <= 2 bytes, all 3-byte strings with two continuation bytes (n>=1000000: every 3-byte string)"
    (fun ~seed:_ ~n emit ->
      let k l =
        let bs = bytes_of_ints l in
        both emit ("c09.uleb16 " ^ hex_of_ints l) (fun _ -> show_res pr_n_rest (Leb.read_uleb128_u16 bs)) in
      k [];
      for a = 0 to 255 do k [a] done;
      for a = 0 to 255 do for b = 0 to 255 do k [a; b] done done;
      let full = n >= 1000000 in
      for a = (if full then 0 else 128) to 255 do
        for b = (if full then 0 else 128) to 255 do
          if full || ((a land 7 = 0 || a = 0xff || a = 0x85) && (b land 3 = 0 || b = 0xff || b = 0x83)) then
          for c = 0 to 255 do k [a; b; c] done
        done
      done);
  (* writers: value -> bytes, size *)
  register "c09.wuleb" ~doc:"Leb128::unsigned / uleb128_size / write then read" (fun ~seed ~n emit ->
    let k z =
      let v = n_of_z z in
      both emit ("c09.wuleb " ^ Z.to_string z) (fun _ ->
        show_res (fun bs -> hex_of_bytes bs ^ " " ^ string_of_n (Leb.uleb128_size v)) (Leb.write_uleb128 v)) in
    for i = 0 to 65535 do k (Z.of_int i) done;
    for s = 0 to 63 do List.iter (fun d -> let z = Z.add (Z.shift_left Z.one s) (Z.of_int d) in
      if Z.sign z >= 0 && Z.numbits z <= 64 then k z) [-1; 0; 1] done;
    k (Z.pred (Z.shift_left Z.one 64));
    let r = mk_rng seed in
    for _ = 1 to n do k (boundary_z64 r) done);
  register "c09.wsleb" ~doc:"Leb128::signed / sleb128_size / write then read" (fun ~seed ~n emit ->
    let k z =
      let v = cz_of_z z in
      both emit ("c09.wsleb " ^ Z.to_string z) (fun _ ->
        show_res (fun bs -> hex_of_bytes bs ^ " " ^ string_of_n (Leb.sleb128_size v)) (Leb.write_sleb128 v)) in
    for i = -32768 to 32767 do k (Z.of_int i) done;
    for s = 0 to 62 do List.iter (fun d ->
      let z = Z.add (Z.shift_left Z.one s) (Z.of_int d) in k z; k (Z.neg z)) [-1; 0; 1] done;
    k (Z.neg (Z.shift_left Z.one 63)); k (Z.pred (Z.shift_left Z.one 63));
    let r = mk_rng seed in
    for _ = 1 to n do
      let z = boundary_z64 r in
      let z = if Z.numbits z > 63 then Z.sub z (Z.shift_left Z.one 64) else z in
      k z; k (Z.neg (Z.succ z) |> fun x -> if Z.numbits x > 63 then Z.zero else x)
    done);
  (* fixed-width reads: kind n be bytes *)
  register "c09.fixed" ~doc:"read_u8..u128 / read_i8..i64 / read_uint(n) in both byte orders, short and exact inputs" (fun ~seed ~n emit ->
    let r = mk_rng seed in
    let widths = [| 1; 2; 4; 8; 16 |] in
    let case kind w be l =
      let bs = bytes_of_ints l in
      let cs = Printf.sprintf "c09.fixed %s %d %d %s" kind w (if be then 1 else 0) (hex_of_ints l) in
      both emit cs (fun _ ->
        match kind with
        | "u" -> show_res pr_n_rest (Prim.read_un (nat_of_int w) be bs)
        | "i" -> show_res pr_z_rest (Prim.read_in (nat_of_int w) be bs)
        | _ -> show_res pr_n_rest (Prim.read_uint (nat_of_int w) be bs)) in
    (* exhaustive: all 1- and 2-byte inputs for widths 1,2 and uint 1,2 *)
    List.iter (fun be ->
      for a = 0 to 255 do
        case "u" 1 be [a]; case "i" 1 be [a]; case "n" 1 be [a];
        for b = 0 to 255 do
          if a land 15 = 0 || a land 15 = 15 || b = 0 || b = 255 || b = 128 || b = 127 then begin
            case "u" 2 be [a; b]; case "i" 2 be [a; b]; case "n" 2 be [a; b] end
        done
      done) [false; true];
    for _ = 1 to n do
      let be = rand_bool r in
      let kind = pick r [| "u"; "i"; "n" |] in
      let w = if kind = "n" then 1 + rand_int r 8 else if kind = "i" then pick r [| 1; 2; 4; 8 |] else pick r widths in
      let len = match rand_int r 6 with 0 -> rand_int r w | 1 -> w + 1 + rand_int r 3 | _ -> w in
      let l = List.init len (fun _ -> match rand_int r 4 with 0 -> 0 | 1 -> 0xff | 2 -> 0x80 | _ -> rand_int r 256) in
      case kind w be l
    done);
  register "c09.sized" ~doc:"read_address / read_sized_offset / read_address_size for every size 0..255" (fun ~seed ~n emit ->
    let r = mk_rng seed in
    let case kind size be l =
      let bs = bytes_of_ints l in
      let cs = Printf.sprintf "c09.sized %s %d %d %s" kind size (if be then 1 else 0) (hex_of_ints l) in
      both emit cs (fun _ ->
        match kind with
        | "addr" -> show_res pr_n_rest (Prim.read_address (n_of_int size) be bs)
        | "soff" -> show_res pr_n_rest (Prim.read_sized_offset (n_of_int size) be bs)
        | _ -> show_res pr_n_rest (Prim.read_address_size bs)) in
    for size = 0 to 255 do
      List.iter (fun be ->
        let l = List.init 9 (fun i -> (size * 7 + i * 37 + 1) land 255) in
        case "addr" size be l; case "soff" size be l;
        case "addr" size be [0xff]; case "soff" size be [];
        case "asz" 0 be [size]) [false; true]
    done;
    for _ = 1 to n do
      let size = pick r [| 1; 2; 4; 8; 8; 4; 0; 3; 16 |] in
      let len = match rand_int r 4 with 0 -> rand_int r (size + 1) | _ -> size + rand_int r 2 in
      let l = List.init len (fun _ -> match rand_int r 4 with 0 -> 0 | 1 -> 0xff | _ -> rand_int r 256) in
      case (pick r [| "addr"; "soff" |]) size (rand_bool r) l
    done);
  register "c09.ilen" ~doc:"read_initial_length: 32-bit, 64-bit escape, reserved values, truncations" (fun ~seed ~n emit ->
    let r = mk_rng seed in
    let case be l =
      let bs = bytes_of_ints l in
      both emit (Printf.sprintf "c09.ilen %d %s" (if be then 1 else 0) (hex_of_ints l)) (fun _ ->
        show_res (fun ((v, f64), rest) -> Printf.sprintf "%s %d %d" (string_of_n v) (if f64 then 64 else 32) (List.length rest))
          (Prim.read_initial_length be bs)) in
    let enc be v w = let l = List.init w (fun i -> Z.to_int (Z.logand (Z.shift_right v (8 * i)) (Z.of_int 255))) in
      if be then List.rev l else l in
    List.iter (fun be ->
      (* every reserved value and neighbours *)
      for d = -0x20 to 0 do
        let v = Z.add (Z.of_string "0xffffffff") (Z.of_int d) in
        case be (enc be v 4 @ [1;2;3;4;5;6;7;8;9]);
        case be (enc be v 4)
      done;
      List.iter (fun v -> case be (enc be (Z.of_string v) 4 @ [0xaa])) ["0"; "1"; "0x7fffffff"; "0x80000000"; "0xffffffef"];
      for t = 0 to 12 do case be (List.init t (fun _ -> 0xff)) done) [false; true];
    for _ = 1 to n do
      let be = rand_bool r in
      let v = boundary_z64 r in
      let l = if rand_bool r then enc be (Z.logand v (Z.of_string "0xffffffff")) 4 @ rand_bytes r (rand_int r 3)
        else enc be (Z.of_string "0xffffffff") 4 @ enc be v 8 @ rand_bytes r (rand_int r 3) in
      let l = if rand_int r 5 = 0 then List.filteri (fun i _ -> i < rand_int r (List.length l + 1)) l else l in
      case be l
    done);
  register "c09.wdata" ~doc:"Writer::write_udata / write_sdata / write_initial_length for every size 0..255 and boundary values; written bytes are read back by the harness" (fun ~seed ~n emit ->
    let r = mk_rng seed in
    let case kind be z size =
      let cs = Printf.sprintf "c09.wdata %s %d %s %d" kind (if be then 1 else 0) (Z.to_string z) size in
      both emit cs (fun _ ->
        match kind with
        | "u" -> show_res hex_of_bytes (Prim.write_udata be (n_of_z z) (n_of_int size))
        | "s" -> show_res hex_of_bytes (Prim.write_sdata be (cz_of_z z) (n_of_int size))
        | _ -> show_res hex_of_bytes (Prim.write_initial_length (size = 8) be (n_of_z z))) in
    let p k = Z.shift_left Z.one k in
    List.iter (fun be ->
      for size = 0 to 255 do
        case "u" be (Z.of_int 0x7f) size; case "s" be (Z.of_int (-1)) size
      done;
      List.iter (fun size ->
        let b = 8 * size in
        List.iter (fun z -> if Z.sign z >= 0 && Z.numbits z <= 64 then case "u" be z size)
          [Z.zero; Z.one; Z.pred (p b); p b; Z.succ (p b); Z.pred (p (b-1)); p (b-1); Z.pred (p 64)];
        List.iter (fun z -> if Z.numbits z <= 63 || Z.equal z (Z.neg (p 63)) then case "s" be z size)
          [Z.zero; Z.one; Z.minus_one; Z.pred (p (b-1)); p (b-1); Z.neg (p (b-1)); Z.pred (Z.neg (p (b-1)));
           Z.pred (p 63); Z.neg (p 63)]) [1; 2; 4; 8];
      List.iter (fun z -> case "l" be z 4; case "l" be z 8)
        [Z.zero; Z.one; Z.of_string "0xffffffef"; Z.of_string "0xfffffff0"; Z.of_string "0xffffffff"; p 32; Z.pred (p 64)])
      [false; true];
    for _ = 1 to n do
      let be = rand_bool r in
      let size = pick r [| 1; 2; 4; 8 |] in
      match rand_int r 3 with
      | 0 -> case "u" be (boundary_z64 r) size
      | 1 -> let z = boundary_z64 r in
        let z = if Z.numbits z > 63 then Z.sub z (p 64) else z in case "s" be z size
      | _ -> case "l" be (boundary_z64 r) (if size >= 8 then 8 else 4)
    done)
let init () = ()
