#!/bin/sh
# Build gv-model from the extracted Coq model + hand-written driver. Offline.
set -e
cd "$(dirname "$0")"
python3 ../translate/errnames.py ../coq/Base/Res.v errnames.ml
mkdir -p extracted _build
( cd extracted && rm -f *.ml *.mli && coqc -Q ../../coq GV ../../coq/Extract/Extract.v >/dev/null )
rm -f extracted/*.mli   # interfaces are not needed; avoids ordering issues
rm -rf _build/* && cp extracted/*.ml *.ml _build/
cd _build
FILES=$(ocamlfind ocamldep -sort *.ml)
ocamlfind ocamlopt -package zarith -linkpkg -w -a -O2 -unboxed-types 2>/dev/null $FILES -o ../gv-model || \
ocamlfind ocamlopt -package zarith -linkpkg -w -a $FILES -o ../gv-model
