#!/bin/sh
# Build gv-model from the extracted Coq model + hand-written driver. Offline.
set -e
cd "$(dirname "$0")"
sh ../mkproject.sh
# the extraction needs every Base/Gen/Spec/Model .vo to be current
[ -f ../translate/tables.py ] && python3 ../translate/tables.py "${GV_REPO:-/repo}" ../coq/Gen >/dev/null 2>&1 || true
( cd ../coq && { [ -f Makefile ] && [ Makefile -nt _CoqProject ] || coq_makefile -f _CoqProject -o Makefile >/dev/null; } && make -j8 models >/dev/null 2>&1 ) || { echo "make models failed" >&2; exit 1; }
python3 ../translate/errnames.py ../coq/Base/Res.v errnames.ml
mkdir -p extracted _build
( cd extracted && rm -f *.ml *.mli && coqc -Q ../../coq GV ../../coq/Extract/Extract.v >/dev/null )
rm -f extracted/*.mli   # interfaces are not needed
rm -rf _build/* && cp extracted/*.ml *.ml _build/
cd _build
# main.ml is generated: force-link every stream module (s_*.ml) in a fixed order, then dispatch
{
  for f in $(ls s_*.ml | LC_ALL=C sort); do
    m=$(basename $f .ml); M=$(echo $m | cut -c1 | tr a-z A-Z)$(echo $m | cut -c2-)
    echo "let () = $M.init ()"
  done
  echo "let () = Driver.main ()"
} > main.ml
FILES=$(ocamlfind ocamldep -sort *.ml)
ocamlfind ocamlopt -package zarith,unix -linkpkg -w -a -O3 $FILES -o ../gv-model.new 2>/dev/null || \
ocamlfind ocamlopt -package zarith,unix -linkpkg -w -a $FILES -o ../gv-model.new
mv ../gv-model.new ../gv-model
