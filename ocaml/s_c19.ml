(* s_c19.ml — streams for C19 (filtered conversion is dependency-closed, complete and minimal).
   Model side: extracted Filter (coq/Model/Filter.v).

   case line:  c19.<stream> <version> <format 4|8> <address_size 4|8> <forest hex> <required hex>
   forest  := unit* ; unit := FE entry*
   entry   := depth(>=1) tag_hi tag_lo flags(bit0 = DW_AT_declaration, bit1 = the writer adds DW_AT_sibling
              when the entry has children) nsites site*
   site    := carrier op nest tkind tval
     carrier 0 attr UnitRef, 1 attr DebugInfoRef, 2 exprloc op, 3..6 location-list entry
             (3 live, 4 empty, 5 inverted, 6 tombstone)
     op      index into refop (Filter.v), ignored for carriers 0/1
     nest    number of enclosing DW_OP_entry_value
     tkind   0 entry #tval (global identity), 1 root DIE of unit #tval, 2 inside the root DIE of unit
             #tval (in bounds, not a DIE), 3 out of bounds, 4 zero (generic type), 5 unit-relative and out of
             bounds of its own unit, landing exactly on entry #tval of a LATER unit (carriers 0, 2-6 with op 5/6)
   identities are the global preorder indices 0.. ; the harness names the DIEs "e<k>".
   required := identities, one byte each.
   result: `ok k:p ...` (k ascending; p = identity of the parent the DIE is attached to, r = unit root)
           or `err <ConvertError variant>`. *)
open Conv
open Streams

type tgt = TEnt of int | TRoot of int | TMid of int | TOob | TZero | TOobEnt of int
type gsite = { car : int; op : int; nest : int; tgt : tgt }
type gent = { depth : int; tag : int; decl : bool; sites : gsite list }
type gforest = gent list list

(* ---------------------------------------------------------------- encoding of the case *)
(* DW_AT_sibling in the input: 0 nowhere, 1 on every entry with children, 2 on every other entry.  The filter
   drops the attribute before recording dependencies, so the model has no site for it: the expected output
   does not depend on this mode. *)
let sib_mode = ref 0
let enc_forest (f : gforest) : string =
  let b = Buffer.create 256 in
  let k = ref 0 in
  let byte i = Buffer.add_string b (Printf.sprintf "%02x" (i land 255)) in
  List.iter (fun u ->
    byte 0xfe;
    List.iter (fun e ->
      let sib = (match !sib_mode with 0 -> 0 | 1 -> 2 | _ -> if !k mod 2 = 0 then 2 else 0) in
      incr k;
      byte e.depth; byte (e.tag lsr 8); byte e.tag; byte ((if e.decl then 1 else 0) lor sib);
      byte (List.length e.sites);
      List.iter (fun s ->
        byte s.car; byte s.op; byte s.nest;
        (match s.tgt with
         | TEnt k -> byte 0; byte k | TRoot j -> byte 1; byte j | TMid j -> byte 2; byte j
         | TOob -> byte 3; byte 0 | TZero -> byte 4; byte 0 | TOobEnt k -> byte 5; byte k)) e.sites) u) f;
  if Buffer.length b = 0 then "-" else Buffer.contents b

let enc_req (l : int list) = hex_of_ints l

(* ---------------------------------------------------------------- synthetic layout for the model
   unit j at section offset 10000*j; header size as in DWARF; the root DIE at the header size; entry
   number i of the unit at header + 10*(i+1).  Only the order of offsets matters to the model. *)
let hdr_size ver fmt = (if fmt = 8 then 12 else 4) + 2 + (if fmt = 8 then 8 else 4) + 1 + (if ver >= 5 then 1 else 0)
let unit_stride = 10000
let oob_unit = 0x7fff0000
let oob_info = 0x7ffffff0

let refops = [| Filter.OpDerefType; Filter.OpRegvalType; Filter.OpConstType; Filter.OpConvert;
                Filter.OpReinterpret; Filter.OpParameterRef; Filter.OpCall; Filter.OpCallRef;
                Filter.OpImplicitPointer; Filter.OpVariableValue |]
let op_info op = op >= 7
let site_is_info s = s.car = 1 || (s.car >= 2 && op_info s.op)

(* (unit index, index in unit) of every identity *)
let positions (f : gforest) : (int * int) array =
  Array.of_list (List.concat (List.mapi (fun j u -> List.mapi (fun i _ -> (j, i)) u) f))

(* Position of every entry of a unit in the order gimli::write::Unit writes them: root-level DW_TAG_base_type
   subtrees first (reorder_base_types).  The model is given the forest in WRITTEN order, which is the order
   the reader, the filter and the converter see (it decides which of several conversion errors comes first). *)
let write_rank (u : gent list) : int array =
  let a = Array.of_list u in
  let n = Array.length a in
  let top = Array.make n 0 in
  let cur = ref 0 in
  Array.iteri (fun i e -> if e.depth = 1 then cur := i; top.(i) <- !cur) a;
  let key i = ((if a.(top.(i)).tag = 0x24 (* DW_TAG_base_type *) then 0 else 1), i) in
  let order = List.sort (fun x y -> compare (key x) (key y)) (List.init n (fun i -> i)) in
  let w = Array.make n 0 in
  List.iteri (fun rank i -> w.(i) <- rank) order;
  w

let to_model ver fmt (f : gforest) : Filter.unitd list * (int, int) Hashtbl.t * (int -> int) =
  let hdr = hdr_size ver fmt in
  let pos = positions f in
  let ranks = Array.of_list (List.map write_rank f) in
  let eoffj j i = hdr + 10 * (ranks.(j).(i) + 1) in
  let ident : (int, int) Hashtbl.t = Hashtbl.create 64 in   (* section offset -> identity *)
  Array.iteri (fun k (j, i) -> Hashtbl.replace ident (unit_stride * j + eoffj j i) k) pos;
  let site_val j0 s =
    let info = site_is_info s in
    match s.tgt with
    | TOobEnt k -> let (j, i) = pos.(k) in unit_stride * (j - j0) + eoffj j i
    | TEnt k -> let (j, i) = pos.(k) in if info then unit_stride * j + eoffj j i else eoffj j i
    | TRoot j -> if info then unit_stride * j + hdr else hdr
    | TMid j -> if info then unit_stride * j + hdr + 1 else hdr + 1
    | TOob -> if info then oob_info else oob_unit
    | TZero -> 0 in
  let car_of s =
    let nest = nat_of_int s.nest in
    match s.car with
    | 0 -> Filter.CAttrUnit | 1 -> Filter.CAttrInfo
    | 2 -> Filter.CExpr (nest, refops.(s.op))
    | 3 -> Filter.CLoc (Filter.LocLive, nest, refops.(s.op))
    | 4 -> Filter.CLoc (Filter.LocEmpty, nest, refops.(s.op))
    | 5 -> Filter.CLoc (Filter.LocInverted, nest, refops.(s.op))
    | _ -> Filter.CLoc (Filter.LocTombstone, nest, refops.(s.op)) in
  let mk_entry j0 i (e : gent) : Filter.entry =
    { Filter.e_off = n_of_int (eoffj j0 i); e_tag = n_of_int e.tag; e_decl = e.decl;
      e_sites = List.map (fun s -> { Filter.s_car = car_of s; s_val = n_of_int (site_val j0 s) }) e.sites } in
  (* preorder + depth -> trees *)
  let rec build j0 d (l : (int * gent) list) : Filter.tree list * (int * gent) list =
    match l with
    | (i, e) :: rest when e.depth = d ->
        let kids, rest1 = build j0 (d + 1) rest in
        let sibs, rest2 = build j0 d rest1 in
        (Filter.Node (mk_entry j0 i e, kids) :: sibs, rest2)
    | _ -> ([], l) in
  let units = List.mapi (fun j u ->
    let n = List.length u in
    let written = List.sort (fun (a, _) (b, _) -> compare ranks.(j).(a) ranks.(j).(b)) (List.mapi (fun i e -> (i, e)) u) in
    let trees, left = build j 1 written in
    if left <> [] then failwith "s_c19: ill-formed depth sequence";
    { Filter.u_off = n_of_int (unit_stride * j); u_hdr = n_of_int hdr; u_len = n_of_int (10 * (n + 2));
      u_kids = trees }) f in
  (units, ident, (fun k -> let (j, i) = pos.(k) in unit_stride * j + eoffj j i))

let show ident (r : (BinNums.coq_N * BinNums.coq_N) list Res.res) : string =
  match r with
  | Res.Ok l ->
      let id x = try Some (Hashtbl.find ident (int_of_n x)) with Not_found -> None in
      let l = List.map (fun (x, p) ->
        ((match id x with Some k -> k | None -> -1),
         (match id p with Some k -> string_of_int k | None -> "r"))) l in
      let l = List.sort compare l in
      "ok" ^ String.concat "" (List.map (fun (k, p) -> Printf.sprintf " %d:%s" k p) l)
  | Res.Err e -> "err " ^ Errnames.name e
  | Res.Panic -> "panic"
  | Res.OutOfFuel -> "outoffuel"

let eval ?(tol = false) ~spec ver fmt (f : gforest) (req : int list) (dbg : bool) : string =
  let units, ident, off_of = to_model ver fmt f in
  let reqoffs = List.map (fun k -> n_of_int (off_of k)) req in
  let reqf x = List.mem x reqoffs in
  let rf = if spec then Filter.conv_refs else Filter.filter_refs in
  show ident ((if tol then Filter.convert_filtered_tol else Filter.convert_filtered) rf dbg reqf units)

let case_line stream ver fmt asz f req =
  Printf.sprintf "%s %d %d %d %s %s" stream ver fmt asz (enc_forest f) (enc_req req)

let emit_case ?(tol = false) emit stream ~spec ver fmt asz f req =
  both emit (case_line stream ver fmt asz f req) (eval ~tol ~spec ver fmt f req)

(* ---------------------------------------------------------------- generators *)
let t_var = 0x34 and t_member = 0x0d and t_param = 0x05 and t_block = 0x0b and t_subprogram = 0x2e
and t_struct = 0x13 and t_base = 0x24 and t_ns = 0x39 and t_typedef = 0x16 and t_ptr = 0x0f
and t_enum = 0x04 and t_enumerator = 0x28 and t_inlined = 0x1d and t_class = 0x02 and t_union = 0x17
and t_module = 0x1e and t_impdecl = 0x08 and t_proc = 0x36 and t_callsite = 0x48 and t_tparam = 0x2f
and t_vendor = 0x4109 and t_subrtype = 0x15 and t_array = 0x01 and t_subrange = 0x21 and t_label = 0x0a

let tag_pool = [| t_var; t_var; t_member; t_param; t_block; t_subprogram; t_subprogram; t_struct; t_struct;
                  t_base; t_ns; t_ns; t_typedef; t_ptr; t_enum; t_enumerator; t_inlined; t_class; t_union;
                  t_module; t_impdecl; t_proc; t_callsite; t_tparam; t_vendor; t_subrtype; t_array;
                  t_subrange; t_label |]

(* write order of gimli::write::Unit: root-level DW_TAG_base_type subtrees first (reorder_base_types).
   A ULEB-coded typed operation can only name a DIE whose offset is already assigned when the size of
   the expression is computed, i.e. one that is written strictly earlier. *)
let write_index (u : gent list) : int array =
  let a = Array.of_list u in
  let n = Array.length a in
  let top = Array.make n 0 in            (* index of the depth-1 ancestor *)
  let cur = ref 0 in
  Array.iteri (fun i e -> if e.depth = 1 then cur := i; top.(i) <- !cur) a;
  let key i = ((if a.(top.(i)).tag = t_base then 0 else 1), i) in
  let order = List.sort (fun x y -> compare (key x) (key y)) (List.init n (fun i -> i)) in
  let w = Array.make n 0 in
  List.iteri (fun rank i -> w.(i) <- rank) order;
  w

let typed_op op = op <= 4

(* a random depth sequence *)
let gen_depths r n maxd =
  let rec go i prev acc = if i = n then List.rev acc else begin
      let d = if i = 0 then 1 else
          match rand_int r 5 with
          | 0 | 1 -> min maxd (prev + 1)
          | 2 | 3 -> prev
          | _ -> 1 + rand_int r prev in
      go (i + 1) d (d :: acc) end in
  go 0 0 []

(* [cars]: which carriers may be drawn; [invalid]: per-mille share of non-DIE targets *)
(* split a total number of entries over nunits units *)
let split_sizes r total nunits =
  let a = Array.make nunits 0 in
  for _ = 1 to total do let j = rand_int r nunits in a.(j) <- a.(j) + 1 done;
  Array.to_list a

let gen_forest r ~ver ~sizes ~cars ~nesting ~invalid ~maxsites : gforest =
  let nunits = List.length sizes in
  let base = ref 0 in
  let starts = List.map (fun n -> let s = !base in base := s + n; s) sizes in
  let total = !base in
  List.mapi (fun j n ->
    let start = List.nth starts j in
    let depths = gen_depths r n 5 in
    let tags = List.map (fun _ -> pick r tag_pool) depths in
    let proto = List.map2 (fun d t -> { depth = d; tag = t; decl = (rand_int r 3 = 0); sites = [] }) depths tags in
    let widx = write_index proto in
    List.mapi (fun i e ->
      let ns = if rand_int r 3 = 0 then 0 else 1 + rand_int r maxsites in
      let sites = List.filter_map (fun _ ->
        let car = pick r cars in
        let car = if car = 4 && ver < 5 then 5 else car in   (* the v2-4 writer rejects begin = end *)
        let nest = if car >= 2 then (match rand_int r 10 with 0 -> 1 | 1 -> 2 | _ -> 0) else 0 in
        let nest = if nesting then nest else 0 in
        let op = if car >= 2 then rand_int r (if nesting then 10 else 8) else 0 in
        let info = car = 1 || (car >= 2 && op_info op) in
        let bad = rand_int r 1000 < invalid in
        let tgt =
          if bad then begin
            if car >= 2 && typed_op op then (if op >= 3 then Some TZero else None)
            else Some (match rand_int r 3 with 0 -> TOob | 1 -> TMid (if info then 0 else j) | _ -> TOob)
          end else if info then begin
            if total = 0 then None
            else if rand_int r 12 = 0 then Some (TRoot (rand_int r nunits))
            else Some (TEnt (rand_int r total))
          end else begin
            if n = 0 then None
            else if car >= 2 && typed_op op then begin
              (* strictly earlier in write order, same unit *)
              let cands = List.filter (fun t -> widx.(t) < widx.(i)) (List.init n (fun t -> t)) in
              if cands = [] then (if op >= 3 then Some TZero else None)
              else Some (TEnt (start + List.nth cands (rand_int r (List.length cands))))
            end
            else if rand_int r 12 = 0 then Some (TRoot j)
            else Some (TEnt (start + rand_int r n))
          end in
        match tgt with None -> None | Some t -> Some { car; op; nest; tgt = t }) (List.init ns (fun x -> x)) in
      { e with sites }) proto) sizes

let count (f : gforest) = List.fold_left (fun a u -> a + List.length u) 0 f

let subsets n : int list list =
  List.init (1 lsl n) (fun m -> List.filter (fun k -> m land (1 lsl k) <> 0) (List.init n (fun k -> k)))

let random_subset r n =
  let p = pick r [| 1; 2; 3; 5; 8 |] in
  List.filter (fun _ -> rand_int r 10 < p) (List.init n (fun k -> k)) |> fun l ->
  if rand_int r 4 = 0 then l else
    (* few required entries: the interesting case *)
    List.filter (fun _ -> rand_int r 3 = 0) l

let versions = [| (2, 4, 4); (3, 4, 8); (4, 4, 8); (4, 8, 8); (5, 4, 8); (5, 8, 4); (5, 4, 4); (3, 8, 8) |]

let cars_covered = [| 0; 0; 0; 1; 1; 2; 2; 3 |]
let cars_all = [| 0; 0; 0; 1; 1; 2; 2; 2; 2; 3; 3; 3; 4; 5; 6 |]

(* depth shapes of k entries *)
let rec shapes k : int list list =
  if k = 0 then [ [] ] else
    List.concat_map (fun s ->
      let last = match List.rev s with [] -> 0 | d :: _ -> d in
      List.init (last + 1) (fun d -> s @ [ d + 1 ])) (shapes (k - 1))

let () =
  register "c19.closure"
    ~doc:"forests whose reference sites are all of a kind the filter looks at (attributes, top-level typed/call operations, live location-list entries), plus out-of-bounds / non-DIE targets; exhaustive: every 3-entry shape x 4 tags^3 x every subset, every single in-unit reference between 3 entries; forests <= 10 entries get all subsets"
    (fun ~seed ~n emit ->
      let stream = "c19.closure" in
      (* exhaustive 1: shapes of 3 entries x tags x all subsets *)
      let small_tags = [| t_var; t_struct; t_ns; t_subprogram |] in
      List.iter (fun shape ->
        for code = 0 to 63 do
          let tags = [ small_tags.(code land 3); small_tags.((code lsr 2) land 3); small_tags.((code lsr 4) land 3) ] in
          let u = List.map2 (fun d t -> { depth = d; tag = t; decl = false; sites = [] }) shape tags in
          List.iter (fun req -> emit_case emit stream ~spec:false 4 4 8 [ u ] req) (subsets 3);
          sib_mode := 1;
          List.iter (fun req -> emit_case emit stream ~spec:false 4 4 8 [ u ] req) (subsets 3);
          sib_mode := 0
        done) (shapes 3);
      (* exhaustive 2: one reference a -> b (attribute UnitRef / DebugInfoRef / DW_OP_call4 / live loclist) *)
      List.iter (fun shape ->
        List.iter (fun (car, op) ->
          for a = 0 to 2 do for b = 0 to 2 do
            List.iter (fun tags ->
              let u = List.mapi (fun i (d, t) ->
                { depth = d; tag = t; decl = false;
                  sites = if i = a then [ { car; op; nest = 0; tgt = TEnt b } ] else [] })
                (List.combine shape tags) in
              List.iter (fun req -> emit_case emit stream ~spec:false 5 4 8 [ u ] req) (subsets 3))
              [ [ t_struct; t_struct; t_struct ]; [ t_ns; t_var; t_struct ]; [ t_struct; t_member; t_typedef ] ]
          done done) [ (0, 0); (1, 0); (2, 6); (3, 7) ]) (shapes 3);
      (* random forests: every forest of at most 10 entries is run with ALL 2^n required subsets *)
      let r = mk_rng (seed * 7919 + 19) in
      let totals = [| 1; 2; 2; 3; 3; 3; 4; 4; 4; 4; 5; 5; 5; 6; 6; 6; 7; 7; 8; 9; 10; 12; 14; 17; 22; 30 |] in
      let made = ref 0 in
      while !made < n do
        let (ver, fmt, asz) = pick r versions in
        let nunits = 1 + rand_int r 3 in
        let total = pick r totals in
        let f = gen_forest r ~ver ~sizes:(split_sizes r total nunits) ~cars:cars_covered ~nesting:false
            ~invalid:(if rand_int r 4 = 0 then 120 else 0) ~maxsites:3 in
        let cnt = count f in
        sib_mode := (match rand_int r 4 with 0 -> 1 | 1 -> 2 | _ -> 0);
        if cnt <= 10 then
          List.iter (fun req -> emit_case emit stream ~spec:false ver fmt asz f req; incr made) (subsets cnt)
        else
          for _ = 1 to 8 do emit_case emit stream ~spec:false ver fmt asz f (random_subset r cnt); incr made done;
        sib_mode := 0
      done);
  register "c19.sites"
    ~doc:"forests with every reference carrier the converter resolves (also DW_OP_implicit_pointer, DW_OP_GNU_variable_value, operations inside DW_OP_entry_value, location-list entries skipped by LocListIter), valid targets only; expected = the model of the (repaired) filter, proved equal to the closure over ALL references"
    (fun ~seed ~n emit ->
      let stream = "c19.sites" in
      (* exhaustive: a (required) -> b through every carrier x operation x nesting 0/1, b otherwise unreachable *)
      List.iter (fun (ver, fmt, asz) ->
        for car = 2 to 6 do
          if not (car = 4 && ver < 5) then
          for op = 0 to 9 do
            for nest = 0 to 1 do
              (* b first so that typed operations may name it; both at the root level, type-like tags *)
              let u = [ { depth = 1; tag = t_base; decl = false; sites = [] };
                        { depth = 1; tag = t_struct; decl = false; sites = [ { car; op; nest; tgt = TEnt 0 } ] } ] in
              List.iter (fun req -> emit_case emit stream ~spec:false ver fmt asz [ u ] req) (subsets 2)
            done
          done
        done) [ (4, 4, 8); (5, 4, 8); (5, 8, 8); (2, 4, 4) ];
      let r = mk_rng (seed * 104729 + 23) in
      let totals = [| 2; 2; 3; 3; 3; 4; 4; 4; 5; 5; 6; 6; 7; 8; 9; 10; 12; 16; 20 |] in
      let made = ref 0 in
      while !made < n do
        let (ver, fmt, asz) = pick r versions in
        let nunits = 1 + rand_int r 2 in
        let total = pick r totals in
        let f = gen_forest r ~ver ~sizes:(split_sizes r total nunits) ~cars:cars_all ~nesting:true ~invalid:0 ~maxsites:2 in
        let cnt = count f in
        sib_mode := (match rand_int r 4 with 0 -> 1 | 1 -> 2 | _ -> 0);
        if cnt <= 10 then
          List.iter (fun req -> emit_case emit stream ~spec:false ver fmt asz f req; incr made) (subsets cnt)
        else
          for _ = 1 to 8 do emit_case emit stream ~spec:false ver fmt asz f (random_subset r cnt); incr made done;
        sib_mode := 0
      done);
  register "c19.tags"
    ~doc:"has_die_back_edge: every tag 0x01..0x50 and every vendor tag of constants.rs x parent tag in {structure_type, namespace, subprogram, lexical_block} x DW_AT_declaration x (parent required | child required); then random 16-bit tags"
    (fun ~seed ~n emit ->
      let stream = "c19.tags" in
      let one ptag tag decl req =
        let u = [ { depth = 1; tag = ptag; decl = false; sites = [] };
                  { depth = 2; tag; decl; sites = [] };
                  { depth = 3; tag = t_var; decl = false; sites = [] } ] in
        emit_case emit stream ~spec:false 4 4 8 [ u ] req in
      let vendor = [ 0x4080; 0x4081; 0x4090; 0x4091; 0x4092; 0x4101; 0x4102; 0x4103; 0x4104; 0x4105; 0x4106;
                     0x4107; 0x4108; 0x4109; 0x410a; 0x4200; 0x4201; 0x4202; 0x4203; 0x4204; 0x4205; 0x4206;
                     0x4207; 0x4208; 0x4209; 0x420a; 0x420b; 0x420c; 0x420d; 0x5101; 0x5102; 0x5103; 0x5111;
                     0x8765; 0x8766; 0x8767; 0xa000; 0xa020; 0xb000; 0xb001; 0xb002; 0xb003; 0xb004; 0xffff ] in
      List.iter (fun tag ->
        List.iter (fun ptag ->
          List.iter (fun decl ->
            List.iter (fun req -> one ptag tag decl req) [ [ 0 ]; [ 1 ]; [ 2 ]; [] ]) [ false; true ])
          [ t_struct; t_ns; t_subprogram; t_block ])
        (List.init 0x50 (fun i -> i + 1) @ vendor);
      let r = mk_rng (seed + 77) in
      for _ = 1 to n do
        one (pick r [| t_struct; t_ns; t_subprogram; t_block; t_class |]) (1 + rand_int r 0xffff) (rand_bool r)
          (pick r [| [ 0 ]; [ 1 ]; [ 2 ] |])
      done);
  register "c19.big"
    ~doc:"larger multi-unit forests (up to 3 units x 40 entries, depth <= 5) with dense covered reference graphs, cycles and cross-unit references, random required sets"
    (fun ~seed ~n emit ->
      let stream = "c19.big" in
      let r = mk_rng (seed * 31 + 5) in
      let made = ref 0 in
      while !made < n do
        let (ver, fmt, asz) = pick r versions in
        let nunits = 1 + rand_int r 3 in
        let f = gen_forest r ~ver ~sizes:(List.init nunits (fun _ -> rand_int r 41)) ~cars:cars_covered ~nesting:false ~invalid:0 ~maxsites:4 in
        let cnt = count f in
        sib_mode := rand_int r 3;
        if cnt > 0 && cnt < 250 then
          for _ = 1 to 4 do emit_case emit stream ~spec:false ver fmt asz f (random_subset r cnt); incr made done;
        sib_mode := 0
      done)

let () =
  register "c19.oob"
    ~doc:"error-tolerant filtered conversion (attribute-by-attribute loop, failing attributes skipped) of forests with malformed references: unit-relative offsets out of bounds of their own unit that land exactly on a DIE of a later unit (attribute DW_FORM_ref4/8, DW_OP_call4, DW_OP_GNU_parameter_ref; in exprlocs, nested in DW_OP_entry_value, in live and skipped location-list entries), far out-of-bounds and non-DIE targets mixed with valid references; expected = the reserved set (tolerant_emits_reserved); exhaustive: a required DIE of unit 0 -> each DIE of unit 1 through every such carrier"
    (fun ~seed ~n emit ->
      let stream = "c19.oob" in
      let oob_cars = [ (0, 0); (2, 5); (2, 6); (3, 6); (4, 6); (5, 5); (6, 6) ] in
      (* exhaustive: unit 0 = {a}, unit 1 = {b; c (child or sibling of b)}; a -> b or c, out of bounds *)
      List.iter (fun (ver, fmt, asz) ->
        List.iter (fun (car, op) ->
          if not (car = 4 && ver < 5) then
          for nest = 0 to (if car >= 2 then 1 else 0) do
            for tgt = 1 to 2 do
              List.iter (fun d2 ->
                List.iter (fun (tb, tc) ->
                  let f = [ [ { depth = 1; tag = t_var; decl = false; sites = [ { car; op; nest; tgt = TOobEnt tgt } ] } ];
                            [ { depth = 1; tag = tb; decl = false; sites = [] };
                              { depth = d2; tag = tc; decl = false; sites = [] } ] ] in
                  List.iter (fun req -> emit_case ~tol:true emit stream ~spec:false ver fmt asz f req) (subsets 3))
                  [ (t_typedef, t_base); (t_struct, t_member); (t_ns, t_var) ]) [ 1; 2 ]
            done
          done) oob_cars) [ (4, 4, 8); (5, 4, 8); (5, 8, 8); (2, 4, 4); (3, 8, 8) ];
      let r = mk_rng (seed * 6151 + 41) in
      let totals = [| 2; 3; 3; 4; 4; 5; 5; 6; 6; 7; 8; 9; 10; 12; 14; 18 |] in
      let made = ref 0 in
      while !made < n do
        let (ver, fmt, asz) = pick r versions in
        let nunits = 2 + rand_int r 2 in
        let total = pick r totals in
        let sizes = split_sizes r total nunits in
        let f = gen_forest r ~ver ~sizes ~cars:cars_covered ~nesting:false
            ~invalid:(if rand_int r 3 = 0 then 150 else 0) ~maxsites:2 in
        (* add malformed unit-relative references into later units *)
        let starts = let b = ref 0 in List.map (fun n -> let s = !b in b := s + n; s) sizes in
        let cnt = count f in
        let f = List.mapi (fun j u ->
          let later = List.nth starts j + List.length u in       (* first identity of the next unit *)
          List.map (fun e ->
            if later < cnt && rand_int r 3 = 0 then begin
              let (car, op) = List.nth oob_cars (rand_int r (List.length oob_cars)) in
              let car = if car = 4 && ver < 5 then 5 else car in
              let nest = if car >= 2 && rand_int r 4 = 0 then 1 else 0 in
              { e with sites = e.sites @ [ { car; op; nest; tgt = TOobEnt (later + rand_int r (cnt - later)) } ] }
            end else e) u) f in
        if cnt <= 8 then
          List.iter (fun req -> emit_case ~tol:true emit stream ~spec:false ver fmt asz f req; incr made) (subsets cnt)
        else
          for _ = 1 to 8 do emit_case ~tol:true emit stream ~spec:false ver fmt asz f (random_subset r cnt); incr made done
      done)

let init () = ()
