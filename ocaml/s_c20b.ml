(* s_c20b.ml — C20 streams other than the unwind context: entry buffers, EntriesTree re-rooting, iterator
   clones, abbreviation caches. Impl-side oracles (expected token `ok`) over the compiler corpus, unmodified
   and with seeded damage so that errors and invalid/shared abbreviation offsets occur. *)
open Conv
open Streams

let () =
  List.iter (fun (name, doc) ->
    register name ~doc (fun ~seed ~n emit ->
      let vs = S_c01.variants () in
      let r = mk_rng seed in
      (* exhaustive over the corpus: every variant unmodified, and with 1 and 4 damaged bytes *)
      Array.iter (fun v ->
        List.iter (fun (s, m) -> emit (Printf.sprintf "%s %s %d %d" name v s m) "ok" "ok") [ (1, 0); (2, 1); (3, 4) ]) vs;
      for i = 1 to n do
        let v = pick r vs in
        emit (Printf.sprintf "%s %s %d %d" name v (seed * 7919 + i) (pick r [| 0; 1; 1; 2; 3; 5; 8; 16 |])) "ok" "ok"
      done))
    [ ("c20.buf", "one DebuggingInformationEntry buffer reused across all entries of every unit (differing attribute counts, nulls, after errors) vs a fresh null buffer per read");
      ("c20.tree", "EntriesTree::root() after partial traversals of random length vs a new tree");
      ("c20.clone", "clones of EntriesCursor / LineRows / OperationIter / CfiEntriesIter taken at random positions continue like the original and do not disturb it");
      ("c20.cache", "Dwarf::abbreviations / Dwarf::unit under cache strategies none / Duplicates / All (also populated twice), with shared and invalid abbreviation offsets") ]
let init () = ()
