(* s_c15.ml — streams for C15 (written expressions). Model side: extracted OpWr (writer) and OpEncSpec
   (independent decode table). The unit layout arithmetic below (where gimli puts the DIEs of the small
   test units) is glue: if it is wrong the sharp comparison fails loudly, it cannot hide a defect. *)
open Conv
open Streams
open OpWr

type rf = Kid of int | Other of int | Sym of int
type sop =
  | Raw of int list | Simple of int | Addr of Z.t | AddrSym of int * Z.t | Cu of Z.t | Cs of Z.t
  | Ct of int * int list | Fb of Z.t | Br of int * Z.t | Rt of int * int | Pk of int | D of bool
  | Ds of bool * int | Dt of bool * int * int | Pu of Z.t | Sk | Bra | St of Z.t * Z.t | Call of int
  | Cr of rf | Vv of rf | Cv of int option | Ri of int option | Ev of sop list | Reg of int
  | Iv of int list | Ip of rf * Z.t | Pc of Z.t | Bp of Z.t * Z.t | Pr of int
  | Wl of Z.t | Wg of Z.t | Ws of Z.t

let zs = Z.to_string
let soi = string_of_int

let rf_tok = function Kid n -> "k " ^ soi n | Other n -> "o " ^ soi n | Sym n -> "y " ^ soi n

let rec tokens (l : sop list) : string list =
  List.concat_map (function
    | Raw b -> ["raw"; hex_of_ints b]
    | Simple o -> ["s"; soi o]
    | Addr v -> ["addr"; zs v]
    | AddrSym (s, a) -> ["addrsym"; soi s; zs a]
    | Cu v -> ["cu"; zs v] | Cs v -> ["cs"; zs v]
    | Ct (b, v) -> ["ct"; soi b; hex_of_ints v]
    | Fb o -> ["fb"; zs o]
    | Br (r, o) -> ["br"; soi r; zs o]
    | Rt (r, b) -> ["rt"; soi r; soi b]
    | Pk i -> ["pk"; soi i]
    | D false -> ["d"] | D true -> ["xd"]
    | Ds (false, s) -> ["ds"; soi s] | Ds (true, s) -> ["xds"; soi s]
    | Dt (false, s, b) -> ["dt"; soi s; soi b] | Dt (true, s, b) -> ["xdt"; soi s; soi b]
    | Pu v -> ["pu"; zs v]
    | Sk -> ["sk"] | Bra -> ["bra"]
    | St (o, t) -> ["st"; zs o; zs t]
    | Call b -> ["call"; soi b]
    | Cr r -> ["cr"; rf_tok r] | Vv r -> ["vv"; rf_tok r]
    | Cv None -> ["cv"; "-1"] | Cv (Some b) -> ["cv"; soi b]
    | Ri None -> ["ri"; "-1"] | Ri (Some b) -> ["ri"; soi b]
    | Ev inner -> ["evb"] @ tokens inner @ ["eve"]
    | Reg r -> ["reg"; soi r]
    | Iv d -> ["iv"; hex_of_ints d]
    | Ip (r, o) -> ["ip"; rf_tok r; zs o]
    | Pc v -> ["pc"; zs v]
    | Bp (s, o) -> ["bp"; zs s; zs o]
    | Pr b -> ["pr"; soi b]
    | Wl i -> ["wl"; zs i] | Wg i -> ["wg"; zs i] | Ws i -> ["ws"; zs i]) l

(* ---- script -> model builder calls ---- *)
exception Model_panic

let n = n_of_int
let nz = n_of_z
let zz = cz_of_z

let rec calls ~dbg ~(main_ix : int) ~(other_ix : int) (l : sop list) : bcall list * wop list =
  (* returns the calls and the initial operation list (Expression::raw) *)
  let dref = function
    | Kid k -> REntry (n main_ix, n k)
    | Other k -> REntry (n other_ix, n k)
    | Sym s -> RSym (n s) in
  let init, rest = match l with Raw b :: r -> [WoRaw (bytes_of_ints b)], r | _ -> [], l in
  let one = function
    | Raw _ -> failwith "raw only first"
    | Simple o -> BOp (WoSimple (n o))
    | Addr v -> BOp (WoAddress (AConst (nz v)))
    | AddrSym (s, a) -> BOp (WoAddress (ASym (n s, zz a)))
    | Cu v -> BOp (WoUConst (nz v)) | Cs v -> BOp (WoSConst (zz v))
    | Ct (b, v) -> BOp (WoConstType (n b, bytes_of_ints v))
    | Fb o -> BOp (WoFrameOffset (zz o))
    | Br (r, o) -> BOp (WoRegOffset (n r, zz o))
    | Rt (r, b) -> BOp (WoRegType (n r, n b))
    | Pk i -> BOp (WoPick (n i))
    | D sp -> BOp (WoDeref sp)
    | Ds (sp, s) -> BOp (WoDerefSize (sp, n s))
    | Dt (sp, s, b) -> BOp (WoDerefType (sp, n s, n b))
    | Pu v -> BOp (WoPlusConst (nz v))
    | Sk -> BSkip | Bra -> BBra
    | St (o, t) -> BSetTarget (nz o, nz t)
    | Call b -> BOp (WoCall (n b))
    | Cr r -> BOp (WoCallRef (dref r)) | Vv r -> BOp (WoVarValue (dref r))
    | Cv b -> BOp (WoConvert (Option.map n b)) | Ri b -> BOp (WoReinterpret (Option.map n b))
    | Ev inner -> BOp (WoEntryValue (built ~dbg ~main_ix ~other_ix inner))
    | Reg r -> BOp (WoRegister (n r))
    | Iv d -> BOp (WoImplicitValue (bytes_of_ints d))
    | Ip (r, o) -> BOp (WoImplicitPointer (dref r, zz o))
    | Pc v -> BOp (WoPiece (nz v))
    | Bp (s, o) -> BOp (WoBitPiece (nz s, nz o))
    | Pr b -> BOp (WoParameterRef (n b))
    | Wl i -> BOp (WoWasmLocal (nz i)) | Wg i -> BOp (WoWasmGlobal (nz i)) | Ws i -> BOp (WoWasmStack (nz i)) in
  (List.map one rest, init)

and built ~dbg ~main_ix ~other_ix (l : sop list) : wop list =
  let cs, init = calls ~dbg ~main_ix ~other_ix l in
  match OpWr.build dbg init cs with
  | Res.Ok ops -> ops
  | _ -> raise Model_panic

(* ---- printing of the decode spec's answer (same alphabet as harness/src/c15.rs show_op) ---- *)
let show_dop (d : OpEncSpec.dop) : string =
  let open OpEncSpec in
  let sn = string_of_n and sz = string_of_cz and hx = hex_of_bytes in
  match d with
  | DoSimple o -> "s" ^ sn o
  | DoAddress a -> "addr:" ^ sn a
  | DoUConst v -> "uc:" ^ sn v | DoSConst v -> "sc:" ^ sz v
  | DoPick i -> "pick:" ^ sn i
  | DoDeref (b, s, sp) -> Printf.sprintf "deref:%s:%s:%d" (sn b) (sn s) (if sp then 1 else 0)
  | DoPlusConst v -> "pu:" ^ sn v
  | DoBra d -> "bra:" ^ sz d | DoSkip d -> "skip:" ^ sz d
  | DoRegister r -> "reg:" ^ sn r
  | DoRegOffset (r, o, b) -> Printf.sprintf "breg:%s:%s:%s" (sn r) (sz o) (sn b)
  | DoFrameOffset o -> "fb:" ^ sz o
  | DoPiece (b, o) -> Printf.sprintf "piece:%s:%s" (sn b) (match o with Some x -> sn x | None -> "-")
  | DoCallUnit o -> "callu:" ^ sn o | DoCallRef o -> "callr:" ^ sn o
  | DoVarValue o -> "vv:" ^ sn o
  | DoImplicitValue d -> "iv:" ^ hx d
  | DoImplicitPointer (o, b) -> Printf.sprintf "ip:%s:%s" (sn o) (sz b)
  | DoAddrIndex i -> "ax:" ^ sn i | DoConstIndex i -> "cx:" ^ sn i
  | DoEntryValue e -> "ev:" ^ hx e
  | DoParameterRef o -> "pr:" ^ sn o
  | DoTypedLiteral (b, v) -> Printf.sprintf "tl:%s:%s" (sn b) (hx v)
  | DoConvert b -> "cv:" ^ sn b | DoReinterpret b -> "ri:" ^ sn b
  | DoWasmLocal i -> "wl:" ^ sn i | DoWasmGlobal i -> "wg:" ^ sn i | DoWasmStack i -> "ws:" ^ sn i

let show_decode (c : OpEncSpec.dcfg) (bs : Byte0.byte list) : string =
  let buf = Buffer.create 64 in
  let total = List.length bs in
  let rec go bs =
    match bs with
    | [] -> ()
    | _ ->
      (match OpEncSpec.decode_one c bs with
       | Some (d, rest) ->
         if Buffer.length buf > 0 then Buffer.add_char buf ' ';
         Buffer.add_string buf (Printf.sprintf "%d:%s" (total - List.length bs) (show_dop d));
         go rest
       | None ->
         if Buffer.length buf > 0 then Buffer.add_char buf ' ';
         Buffer.add_string buf "bad") in
  go bs;
  if Buffer.length buf = 0 then "-" else Buffer.contents buf

(* ---- contexts ---- *)
type cfgs = { version : int; fmt64 : bool; asize : int; be : bool }
let enc_of c : enc = { e_version = n c.version; e_fmt64 = c.fmt64; e_asize = n c.asize; e_be = c.be }
let dcfg_of c : OpEncSpec.dcfg =
  { OpEncSpec.d_version = n c.version; d_fmt64 = c.fmt64; d_asize = n c.asize; d_be = c.be }
let word c = if c.fmt64 then 8 else 4
let hdr_size c = (if c.fmt64 then 12 else 4) + 2 + (if c.version >= 5 then 1 else 0) + word c + 1
let other_hdr = 11
let other_total = 17
let good_asize a = a = 1 || a = 2 || a = 4 || a = 8

let err_name e = "err " ^ Errnames.name e
let res_str (r : 'a Res.res) (k : 'a -> string) : string =
  match r with
  | Res.Ok a -> k a
  | Res.Err e -> err_name e
  | Res.Panic -> "panic"
  | Res.OutOfFuel -> "outoffuel"

let rec drop k l = if k <= 0 then l else match l with [] -> [] | _ :: r -> drop (k - 1) r

(* the order in which Unit::write lays out the root's children: base types first (reorder_base_types),
   deleted entries are not in the tree *)
let written_order (kids : string) : int list =
  let idx = List.init (String.length kids) (fun i -> i) in
  List.filter (fun i -> kids.[i] = 'b') idx @ List.filter (fun i -> kids.[i] = 'v') idx

let expect_unit ~(ctx : string) (c : cfgs) ~(kids : string) ~(holder : int) ~(other_mode : int)
    (script : sop list) (dbg : bool) : string =
  try
    let main_ix = if other_mode = 1 then 1 else 0 in
    let other_ix = 1 - main_ix in
    let ops = built ~dbg ~main_ix ~other_ix script in
    if c.version < 2 || c.version > 5 then "err UnsupportedVersion" else begin
      let e = enc_of c in
      let u0 = if other_mode = 1 then other_total else 0 in
      let nk = String.length kids in
      let entries = Array.make (nk + 1) 0 in
      let order = written_order kids in
      entries.(0) <- u0 + hdr_size c;
      let cur = ref (u0 + hdr_size c + 1) in
      let mk_uo () : uoffs = { uo_unit = n u0; uo_entries = List.map n (Array.to_list entries) } in
      let holder_off = ref 0 in
      let fail = ref None in
      List.iter (fun k ->
        if !fail = None then begin
          entries.(k + 1) <- !cur;
          if k = holder then begin
            holder_off := !cur;
            let attr =
              if ctx = "die" then
                (match exprloc_size dbg e (Some (mk_uo ())) ops with
                 | Res.Ok s -> int_of_n s
                 | r -> fail := Some (res_str r (fun _ -> "")); 0)
              else word c in
            cur := !cur + 2 + attr
          end else cur := !cur + 2
        end) order;
      match !fail with
      | Some s -> s
      | None ->
        let main_total = !cur + 1 - u0 in
        let full = mk_uo () in
        let o0 = if other_mode = 1 then 0 else main_total in
        let other_uo : uoffs = { uo_unit = n o0; uo_entries = [n (o0 + other_hdr); n (o0 + other_hdr + 1); n (o0 + other_hdr + 3)] } in
        let units = if other_mode = 0 then [full] else if other_mode = 1 then [other_uo; full] else [full; other_uo] in
        let finish (base : int) (r : wres) : string =
          res_str r (fun (bs, fx) ->
            res_str (apply_fixups c.be units (n base) bs fx) (fun bs' ->
              (* strip the length prefix: the expression is the tail of what was written *)
              let elen = match size_expr dbg e (Some full) ops with Res.Ok s -> int_of_n s | _ -> 0 in
              let ex = drop (List.length bs' - elen) bs' in
              if not (good_asize c.asize) then "ok unreadable"   (* gimli's unit reader rejects the address size *)
              else "ok " ^ hex_of_bytes ex ^ " " ^ show_decode (dcfg_of c) ex)) in
        if ctx = "die" then begin
          let base = !holder_off + 2 in
          finish base (write_exprloc dbg e (Some full) (n base) ops)
        end else begin
          if not (good_asize c.asize) then "err UnsupportedWordSize" else begin
            let base =
              if c.version <= 4 then 2 * c.asize
              else (if c.fmt64 then 12 else 4) + 2 + 1 + 1 + 4 + 1 + 2 * c.asize in
            finish base (write_loc_expression dbg e (Some full) (n base) ops)
          end
        end
    end
  with Model_panic -> "panic"

let expect_cfi (c : cfgs) ~(eh : bool) (script : sop list) (dbg : bool) : string =
  try
    let ops = built ~dbg ~main_ix:0 ~other_ix:1 script in
    if (eh && c.version <> 1) || ((not eh) && c.version <> 1 && c.version <> 3 && c.version <> 4)
    then "err UnsupportedVersion"
    else begin
      let e = enc_of c in
      let base = 64 in
      res_str (write_cfi_expression dbg e (n base) ops) (fun (bs, _) ->
        let elen = match size_expr dbg e None ops with Res.Ok s -> int_of_n s | _ -> 0 in
        let ex = drop (List.length bs - elen) bs in
        "ok " ^ hex_of_bytes ex ^ " " ^ show_decode (dcfg_of c) ex)
    end
  with Model_panic -> "panic"

(* ---- case emission ---- *)
(* The driver prints case number i only when i mod nshards = shard, but Streams.both evaluates the model
   before it knows; with 16 shards every case was evaluated 16 times. Mirror the driver's counter (argv:
   gen <stream> <seed> <n> [shard nshards]) and skip the evaluation of cases that will be discarded. *)
let shard, nshards =
  match Array.to_list Sys.argv with
  | _ :: "gen" :: _ :: _ :: _ :: a :: b :: _ -> (int_of_string a, int_of_string b)
  | _ -> (0, 1)
let counter = ref 0
let both_lazy (emit : emit) (case : unit -> string) (f : bool -> string) =
  let mine = Streams.mine () in
  incr counter;
  if mine then emit (case ()) (f true) (f false) else emit "" "" ""

let b01 b = if b then "1" else "0"
let head name ctx c = Printf.sprintf "%s %s %d %s %d %s" name ctx c.version (b01 c.fmt64) c.asize (b01 c.be)

let emit_unit emit name ctx c ~kids ~holder ~other_mode script =
  let case () = String.concat " " ([head name ctx c; kids; soi holder; soi other_mode] @ tokens script) in
  both_lazy emit case (fun dbg -> expect_unit ~ctx c ~kids ~holder ~other_mode script dbg)

let emit_cfi emit name c ~kind ~eh script =
  let case () = String.concat " " ([head name "cfi" c; kind; b01 eh] @ tokens script) in
  both_lazy emit case (fun dbg -> expect_cfi c ~eh script dbg)

(* ---- generators ---- *)
let p2 k = Z.shift_left Z.one k
let u64_bound = [Z.zero; Z.one; Z.of_int 31; Z.of_int 32; Z.of_int 127; Z.of_int 128; Z.of_int 255; Z.of_int 256;
                 Z.of_int 16383; Z.of_int 16384; Z.pred (p2 32); p2 32; Z.pred (p2 61); p2 61; Z.pred (p2 63); p2 63;
                 Z.pred (p2 64)]
let i64_bound = [Z.zero; Z.one; Z.minus_one; Z.of_int 63; Z.of_int 64; Z.of_int (-64); Z.of_int (-65);
                 Z.of_int 8191; Z.of_int 8192; Z.of_int (-8192); Z.of_int (-8193); Z.pred (p2 31); Z.neg (p2 31);
                 Z.pred (p2 63); Z.neg (p2 63); Z.succ (Z.neg (p2 63))]
let regs = [0; 1; 31; 32; 127; 128; 16383; 16384; 65535]

let rand_u64 r = boundary_z64 r
let rand_i64 r =
  match rand_int r 4 with
  | 0 -> List.nth i64_bound (rand_int r (List.length i64_bound))
  | 1 -> let k = rand_int r 63 in
    let z = Z.add (p2 k) (Z.of_int (rand_int r 3 - 1)) in if rand_bool r then Z.neg z else z
  | _ -> let z = boundary_z64 r in if Z.numbits z > 63 then Z.sub z (p2 64) else z
let rand_reg r = if rand_int r 3 = 0 then rand_int r 65536 else List.nth regs (rand_int r (List.length regs))
let rand_blob r = let l = pick r [| 0; 1; 2; 3; 8; 127; 128; 129; 255 |] in rand_bytes r (if rand_int r 4 = 0 then l else rand_int r 6)
let rand_u32 r = pick r [| Z.zero; Z.one; Z.of_int 127; Z.of_int 128; Z.of_int 16384; Z.pred (p2 32); Z.of_int 0x12345 |]

(* entries a script may name: 0 = root .. nk = last kid; refs *)
(* nk+1, nk+2: ids the harness reserves and never adds (beyond the unit's entries vector) *)
let rand_entry r nk = if rand_int r 16 = 0 then nk + 1 + rand_int r 2 else rand_int r (nk + 1)
let rand_rf r nk other_mode =
  match rand_int r 8 with
  | 0 -> Sym (rand_int r 3)
  | 1 | 2 when other_mode <> 0 -> Other (if rand_int r 12 = 0 then 3 else rand_int r 3)   (* o 3: reserved, never added *)
  | _ -> Kid (rand_entry r nk)

let simple_ops = [| 0x13; 0x16; 0x17; 0x19; 0x1a; 0x1b; 0x1c; 0x1d; 0x1e; 0x1f; 0x20; 0x21; 0x22; 0x24; 0x25; 0x26; 0x27;
                    0x29; 0x2a; 0x2b; 0x2c; 0x2d; 0x2e; 0x96; 0x97; 0x9b; 0x9c; 0x9f; 0xe0; 0xf0 |]

(* one non-branch operation; `refs` = whether entry references are allowed (not in CFI mostly) *)
let rec rand_op r ~nk ~other_mode ~refs ~depth : sop =
  let k = rand_int r (if refs then 36 else 24) in
  match k with
  | 0 -> Simple (pick r simple_ops)
  | 1 -> Cu (rand_u64 r) | 2 -> Cs (rand_i64 r)
  | 3 -> Fb (rand_i64 r)
  | 4 -> Br (rand_reg r, rand_i64 r)
  | 5 -> Reg (rand_reg r)
  | 6 -> Pk (pick r [| 0; 1; 2; 3; 255; 128 |])
  | 7 -> D (rand_bool r)
  | 8 -> Ds (rand_bool r, pick r [| 0; 1; 2; 4; 8; 255 |])
  | 9 -> Pu (rand_u64 r)
  | 10 -> Pc (if rand_int r 8 = 0 then rand_u64 r else Z.of_int (rand_int r 70000))
  | 11 -> Bp (rand_u64 r, rand_u64 r)
  | 12 -> Iv (rand_blob r)
  | 13 -> Addr (match rand_int r 4 with 0 -> Z.zero | 1 -> Z.pred (p2 32) | 2 -> Z.of_int 255 | _ -> rand_u64 r)
  | 14 -> (match rand_int r 3 with 0 -> Wl (rand_u32 r) | 1 -> Wg (rand_u32 r) | _ -> Ws (rand_u32 r))
  | 15 | 16 when depth < 3 -> Ev (rand_script r ~nk ~other_mode ~refs ~depth:(depth + 1) ~len:(rand_int r 5))
  | 17 -> Cv None | 18 -> Ri None
  | 19 -> Cu (Z.of_int (rand_int r 40))
  | 20 -> Reg (rand_int r 40)
  | 21 -> Br (rand_int r 40, Z.of_int (rand_int r 300 - 150))
  | 22 -> Simple (rand_int r 256)
  | 23 -> if rand_int r 6 = 0 then AddrSym (rand_int r 3, rand_i64 r) else Cs (Z.of_int (rand_int r 300 - 150))
  | 24 -> Ct (rand_entry r nk, rand_blob r)
  | 25 -> Rt (rand_reg r, rand_entry r nk)
  | 26 -> Dt (rand_bool r, pick r [| 0; 1; 4; 8; 255 |], rand_entry r nk)
  | 27 -> Cv (Some (rand_entry r nk)) | 28 -> Ri (Some (rand_entry r nk))
  | 29 -> Call (rand_entry r nk)
  | 30 -> Pr (rand_entry r nk)
  | 31 -> Cr (rand_rf r nk other_mode)
  | 32 -> Vv (rand_rf r nk other_mode)
  | 33 -> Ip (rand_rf r nk other_mode, rand_i64 r)
  | 34 -> Ct (rand_entry r nk, rand_bytes r (pick r [| 255; 256; 300 |]))
  | _ -> Cu (rand_u64 r)

(* a script of `len` operations with branches whose targets are mostly valid *)
and rand_script r ~nk ~other_mode ~refs ~depth ~len : sop list =
  let ops = Array.init len (fun _ ->
    if rand_int r 4 = 0 then (if rand_bool r then Sk else Bra) else rand_op r ~nk ~other_mode ~refs ~depth) in
  let sets = ref [] in
  Array.iteri (fun i o ->
    match o with
    | Sk | Bra ->
      let t = match rand_int r 120 with
        | 0 -> None                                   (* target never set *)
        | 1 -> Some (Z.of_int (len + 1 + rand_int r 3)) (* past the end *)
        | 2 -> Some (Z.of_int i)                      (* itself *)
        | k when k < 12 -> Some (Z.of_int len)        (* the end *)
        | _ -> let t = rand_int r (len + 1) in
               (* a branch to itself trips a debug_assert in set_target: keep it rare (case 2 above) *)
               Some (Z.of_int (if t = i then (t + 1) mod (len + 1) else t)) in
      (match t with Some t -> sets := St (Z.of_int i, t) :: !sets | None -> ())
    | _ -> ()) ops;
  let l = Array.to_list ops in
  (* set_target calls: after all operations (so that every target index exists), occasionally early *)
  let sets = List.rev !sets in
  let extra = if len > 0 && rand_int r 150 = 0 then [St (Z.of_int (rand_int r (len + 1)), Z.of_int (rand_int r (len + 1)))] else [] in
  l @ sets @ extra

let all_cfgs_unit =
  List.concat_map (fun version -> List.concat_map (fun fmt64 -> List.concat_map (fun asize ->
    List.map (fun be -> { version; fmt64; asize; be }) [false; true]) [4; 8]) [false; true]) [2; 3; 4; 5]

let rand_cfg_unit r =
  let version = if rand_int r 40 = 0 then pick r [| 1; 6; 0 |] else 2 + rand_int r 4 in
  let asize = match rand_int r 12 with 0 -> 1 | 1 -> 2 | 2 when rand_int r 4 = 0 -> pick r [| 0; 3; 16; 255 |] | k -> if k land 1 = 0 then 4 else 8 in
  { version; fmt64 = rand_bool r; asize; be = rand_bool r }

let rand_kids r =
  let nk = 1 + rand_int r 5 in
  let holder = rand_int r nk in
  let s = String.init nk (fun i -> if i = holder then (if rand_int r 4 = 0 then 'b' else 'v')
                           else match rand_int r 8 with 0 -> 'x' | 1 | 2 | 3 -> 'b' | _ -> 'v') in
  (s, holder)

let () =
  register "c15.expr" ~doc:"write::Expression through every op_* builder, embedded in a DIE attribute, a location list and a CFI instruction; model bytes + independent decode vs gimli bytes + gimli reader; semantic oracle in the harness"
    (fun ~seed ~n emit ->
      let name = "c15.expr" in
      (* --- exhaustive part 1: every single operation with boundary operands, every unit configuration --- *)
      let kids = "bvbv" and holder = 1 in
      let singles =
        List.map (fun v -> [Cu v]) u64_bound @ List.map (fun v -> [Cs v]) i64_bound
        @ List.map (fun v -> [Fb v]) i64_bound @ List.map (fun v -> [Pu v]) u64_bound
        @ List.map (fun v -> [Pc v]) u64_bound
        @ List.concat_map (fun a -> List.map (fun b -> [Bp (a, b)]) [Z.zero; Z.of_int 128; Z.pred (p2 64)]) [Z.zero; Z.of_int 127; Z.pred (p2 64)]
        @ List.concat_map (fun rg -> [[Reg rg]; [Br (rg, Z.zero)]; [Br (rg, Z.of_int (-65))]; [Br (rg, Z.neg (p2 63))]; [Rt (rg, 1)]]) regs
        @ List.map (fun i -> [Pk i]) [0; 1; 2; 3; 127; 128; 255]
        @ [[D false]; [D true]]
        @ List.concat_map (fun s -> [[Ds (false, s)]; [Ds (true, s)]; [Dt (false, s, 1)]; [Dt (true, s, 1)]]) [0; 1; 8; 255]
        @ List.map (fun i -> [Wl i; Wg i; Ws i]) [Z.zero; Z.of_int 127; Z.of_int 128; Z.pred (p2 32)]
        @ List.map (fun l -> [Iv (List.init l (fun i -> i land 255))]) [0; 1; 127; 128; 300]
        @ List.map (fun l -> [Ct (1, List.init l (fun i -> (i * 7) land 255))]) [0; 1; 8; 255; 256]
        @ [[Cv None]; [Ri None]; [Cv (Some 1)]; [Ri (Some 3)]; [Cv (Some 0)]; [Call 1]; [Call 4]; [Pr 2]; [Pr 4]]
        @ [[AddrSym (1, Z.of_int 4)]; [Cr (Sym 1)]; [Vv (Sym 0)]; [Ip (Sym 2, Z.one)]]
        @ List.concat_map (fun e -> [[Cr (Kid e)]; [Vv (Kid e)]; [Ip (Kid e, Z.of_int (-64))]; [Ct (e, [1; 2])]; [Dt (false, 4, e)]; [Call e]])
            [0; 1; 2; 3; 4]
        @ [[Ev []]; [Ev [Reg 5]]; [Ev [Ev [Ev [Cu (Z.of_int 100)]]]]; [Ev [Iv (List.init 126 (fun _ -> 0))]]; [Ev [Iv (List.init 124 (fun _ -> 0))]];
           [Ev [Sk; Cu (Z.of_int 40); St (Z.zero, Z.of_int 2)]]; [Ev [Cr (Kid 1); Ct (1, [9])]]]
        @ [[Raw []]; [Raw [0x30; 0x9f]]; [Raw [0x10]]; [Raw [0x03; 1; 2]; Cu Z.one]; [Ev [Raw [0x50]]]] in
      List.iter (fun c ->
        List.iter (fun s -> emit_unit emit name "die" c ~kids ~holder ~other_mode:0 s) singles;
        (* addresses at the width boundary *)
        List.iter (fun v -> emit_unit emit name "die" c ~kids ~holder ~other_mode:0 [Addr v])
          [Z.zero; Z.pred (p2 (8 * c.asize)); (if c.asize < 8 then p2 (8 * c.asize) else Z.pred (p2 64))]) all_cfgs_unit;
      (* every opcode through Expression::op *)
      List.iter (fun c ->
        for o = 0 to 255 do emit_unit emit name "die" c ~kids ~holder ~other_mode:0 [Simple o; Cu (Z.of_int 7)] done)
        [{ version = 4; fmt64 = false; asize = 8; be = false }; { version = 5; fmt64 = true; asize = 4; be = true }];
      (* --- exhaustive part 2: branches over variable-length neighbours; every (source, target) pair --- *)
      let fill = [| Cu (Z.of_int 31); Cu (Z.of_int 32); Cu (p2 63); Reg 31; Reg 32; Br (40, Z.of_int (-65)); Pk 1; Pk 2;
                    Iv (List.init 130 (fun _ -> 0xaa)); Ev [Cu (Z.of_int 200); Sk; St (Z.one, Z.zero)] |] in
      List.iter (fun c ->
        for a = 0 to Array.length fill - 1 do
          for tgt = 0 to 4 do
            List.iter (fun br ->
              (* ops: fill[a]; branch; fill[a+1]; fill[a+3] ; branch index 1 *)
              let s = [fill.(a); br; fill.((a + 1) mod Array.length fill); fill.((a + 3) mod Array.length fill);
                       St (Z.one, Z.of_int tgt)] in
              emit_unit emit name "die" c ~kids ~holder ~other_mode:0 s) [Sk; Bra]
          done
        done) [{ version = 4; fmt64 = false; asize = 8; be = false }; { version = 5; fmt64 = false; asize = 4; be = true };
               { version = 2; fmt64 = true; asize = 8; be = true }];
      (* displacement at the i16 boundary, forward and backward (implicit_value of L bytes is 1+3+L bytes) *)
      let blob l = Iv (List.init l (fun i -> (i * 13) land 255)) in
      List.iter (fun c ->
        List.iter (fun l ->
          emit_unit emit name "die" c ~kids ~holder ~other_mode:0 [Sk; blob l; St (Z.zero, Z.of_int 2)];
          emit_unit emit name "die" c ~kids ~holder ~other_mode:0 [blob l; Bra; St (Z.one, Z.zero)])
          [32760; 32761; 32762; 32763; 32764])
        [{ version = 5; fmt64 = false; asize = 8; be = false }; { version = 3; fmt64 = false; asize = 4; be = true }];
      (* location-list u16 length prefix boundary (v<=4) *)
      List.iter (fun l ->
        emit_unit emit name "loc" { version = 4; fmt64 = false; asize = 4; be = false } ~kids ~holder ~other_mode:0 [blob l];
        emit_unit emit name "loc" { version = 5; fmt64 = false; asize = 4; be = false } ~kids ~holder ~other_mode:0 [blob l])
        [65530; 65531; 65532];
      (* --- exhaustive part 3: references to entries before / after / at the holder, every tag arrangement of 3 kids --- *)
      List.iter (fun c ->
        List.iter (fun kids ->
          for holder = 0 to 2 do
            if kids.[holder] <> 'x' then
              for e = 0 to 3 do
                List.iter (fun ctx ->
                  List.iter (fun other_mode ->
                    emit_unit emit name ctx c ~kids ~holder ~other_mode
                      [Dt (false, 4, e); Call e; Cr (Kid e); Ip ((if other_mode = 0 then Kid e else Other (e mod 3)), Z.of_int 3)];
                    emit_unit emit name ctx c ~kids ~holder ~other_mode [Pr e; Vv (Kid e)];
                    emit_unit emit name ctx c ~kids ~holder ~other_mode [Rt (3, e)]) [0; 1; 2]) ["die"; "loc"]
              done
          done) ["vvv"; "bvv"; "vbv"; "vvb"; "bbv"; "vbb"; "bvb"; "xvb"; "vxb"; "bvx"])
        [{ version = 4; fmt64 = false; asize = 8; be = false }; { version = 5; fmt64 = true; asize = 4; be = true };
         { version = 2; fmt64 = false; asize = 4; be = false }; { version = 2; fmt64 = true; asize = 8; be = true };
         { version = 2; fmt64 = false; asize = 1; be = false }; { version = 3; fmt64 = false; asize = 2; be = true }];
      (* --- ids beyond the entries vector (reserved, never added): entries 4 and 5 of a 3-kid unit, `o 3` of the other unit --- *)
      List.iter (fun c ->
        List.iter (fun ctx -> List.iter (fun other_mode -> List.iter (fun e ->
          List.iter (fun s -> emit_unit emit name ctx c ~kids:"vbv" ~holder:1 ~other_mode s)
            ([[Dt (false, 4, e)]; [Call e]; [Pr e]; [Cr (Kid e)]; [Vv (Kid e)]; [Ip (Kid e, Z.of_int 3)]; [Ct (e, [1])]; [Rt (3, e)]; [Cv (Some e)];
              [Cu (Z.of_int 7); Ev [Call e]]]
             @ (if other_mode = 0 then [] else [[Cr (Other 3)]; [Ip (Other 3, Z.one)]; [Vv (Other 3); Cr (Other 1)]]))) [4; 5]) [0; 1; 2]) ["die"; "loc"])
        [{ version = 4; fmt64 = false; asize = 8; be = false }; { version = 5; fmt64 = true; asize = 4; be = true };
         { version = 2; fmt64 = false; asize = 4; be = true }];
      (* --- CFI: every kind x section x version --- *)
      List.iter (fun version -> List.iter (fun eh -> List.iter (fun kind -> List.iter (fun asize ->
        let c = { version; fmt64 = (asize = 8 && version = 4); asize; be = (version = 3) } in
        List.iter (fun s -> emit_cfi emit name c ~kind ~eh s)
          [[Br (7, Z.of_int 8); D false]; [Cu (Z.of_int 40); Simple 0x22]; []; [Sk; Cu Z.one; St (Z.zero, Z.of_int 2)];
           [Call 1]; [Dt (false, 4, 1)]; [Cv None]; [Cv (Some 1)]; [Cr (Kid 1)]; [Cr (Sym 1)]; [Ip (Kid 1, Z.zero)];
           [Ev [Reg 40]]; [Ev [Ct (1, [1])]]; [Iv [1; 2; 3]]; [Addr (Z.of_int 200)]; [Pr 1]; [Rt (1, 1)]; [Raw [0x9c]]])
        [1; 2; 4; 8]) ["cfa"; "ex"; "vx"]) [false; true]) [1; 2; 3; 4; 5];
      (* --- random part --- *)
      let r = mk_rng seed in
      for _ = 1 to n do
        match rand_int r 10 with
        | 0 | 1 ->
          let version = pick r [| 1; 3; 4; 1; 3; 4; 1; 4; 2; 5 |] in
          let eh = rand_int r 3 = 0 in
          let c = { version = (if eh && rand_int r 8 <> 0 then 1 else version); fmt64 = rand_bool r; asize = pick r [| 4; 8; 8; 4; 2; 1 |]; be = rand_bool r } in
          let refs = rand_int r 5 = 0 in
          let s = rand_script r ~nk:3 ~other_mode:0 ~refs ~depth:0 ~len:(rand_int r 9) in
          emit_cfi emit name c ~kind:(pick r [| "cfa"; "ex"; "vx" |]) ~eh s
        | k ->
          let c = rand_cfg_unit r in
          let (kids, holder) = rand_kids r in
          let other_mode = if rand_int r 3 = 0 then 1 + rand_int r 2 else 0 in
          let nk = String.length kids in
          let len = match rand_int r 10 with 0 -> 0 | 1 -> 1 | 2 -> 20 + rand_int r 20 | _ -> 2 + rand_int r 10 in
          let s = rand_script r ~nk ~other_mode ~refs:true ~depth:0 ~len in
          let s = if rand_int r 25 = 0 then Raw (rand_bytes r (rand_int r 6)) :: s else s in
          emit_unit emit name (if k < 5 then "loc" else "die") c ~kids ~holder ~other_mode s
      done)

(* c15.nest: entry_value nested d times around reg5. Expected length: the model for d <= 400 (its recursion
   depth is the nesting depth too), checked against the closed form s(0) = 1, s(k+1) = 1 + |uleb(s k)| + s k,
   which alone is used for deeper cases. *)
let () =
  register "c15.nest" ~doc:"DW_OP_entry_value nested to a given depth, written as a DIE attribute; predicted length vs emitted; layers peeled back with the reader"
    (fun ~seed:_ ~n emit ->
      let closed d =
        let s = ref 1 in
        for _ = 1 to d do
          let l = !s in
          let ul = int_of_n (Leb.uleb128_size (n_of_int l)) in
          s := 1 + ul + l
        done; !s in
      let case version d =
        let c = { version; fmt64 = false; asize = 8; be = false } in
        both_lazy emit (fun () -> Printf.sprintf "c15.nest %d %d" version d) (fun dbg ->
          let cf = closed d in
          if d <= 400 then begin
            let rec nest k = if k = 0 then [WoRegister (n_of_int 5)] else [WoEntryValue (nest (k - 1))] in
            match size_expr dbg (enc_of c) None (nest d) with
            | Res.Ok s when int_of_n s = cf -> "ok " ^ string_of_int cf
            | r -> "model-closed-form-differ " ^ res_str r string_of_n
          end else "ok " ^ string_of_int cf) in
      List.iter (fun v ->
        List.iter (case v) [0; 1; 2; 3; 40; 41; 42; 43; 63; 64; 100; 127; 128; 200; 300; 400; 600])
        [4; 5];
      (* beyond what the recursion in Expression::{size, write} survives on an 8 MiB stack: known finding *)
      if n >= 1 then case 5 100000;
      if n >= 2 then case 4 2000)

let init () = ()
