(* s_c11g.ml — stream c11.glue: the composed writer model Model/UnitGlueWr.v (UnitWr + OpWr + ListsWr glued the way
   Unit::write / UnitTable::write do it) against gimli's Dwarf::write, byte for byte: .debug_info, .debug_ranges,
   .debug_rnglists, .debug_loc, .debug_loclists after the fix-ups, plus the fix-ups themselves (offset:size:value)
   per section.  No layout arithmetic happens here: the OCaml side only builds the model's input value from the
   case and prints the model's output.  The expression scripts and their generator are those of c15.expr. *)
open Conv
open Streams
open S_c15

let n = n_of_int
let nz = n_of_z
let nat = nat_of_int

(* list entries of the case: b addr | o b e | e b e | l b len | d *)
type le = LB of Z.t | LO of Z.t * Z.t | LE of Z.t * Z.t | LL of Z.t * Z.t | LD
type ak = AX | AR of int | AL of int | AI of rf | AU of int | AD of Z.t

let le_tokens = function
  | LB a -> ["b"; zs a] | LO (a, b) -> ["o"; zs a; zs b] | LE (a, b) -> ["e"; zs a; zs b]
  | LL (a, b) -> ["l"; zs a; zs b] | LD -> ["d"]
let lists_tokens (ls : le list list) =
  soi (List.length ls) :: List.concat_map (fun l -> soi (List.length l) :: List.concat_map le_tokens l) ls
let ak_tokens = function
  | AX -> ["x"] | AR i -> ["r"; soi i] | AL i -> ["l"; soi i] | AI r -> ["i"; rf_tok r] | AU k -> ["u"; soi k]
  | AD v -> ["d"; zs v]

type gcase = { c : cfgs; kids : string; other : int; low_pc : int;
               rl : le list list; ll : le list list; attrs : (int * int * ak) list; script : sop list }

let case_string (g : gcase) =
  String.concat " "
    ([Printf.sprintf "c11.glue %d %s %d %s" g.c.version (b01 g.c.fmt64) g.c.asize (b01 g.c.be); g.kids; soi g.other; soi g.low_pc]
     @ lists_tokens g.rl @ lists_tokens g.ll
     @ (soi (List.length g.attrs) :: List.concat_map (fun (en, at, k) -> soi en :: soi at :: ak_tokens k) g.attrs)
     @ tokens g.script)

let mark = 0x0b   (* DW_AT_byte_size, as in harness/src/c15.rs *)

let expect (g : gcase) (dbg : bool) : string =
  try
    let main_ix = if g.other = 1 then 1 else 0 in
    let other_ix = 1 - main_ix in
    let ex = built ~dbg ~main_ix ~other_ix g.script in
    let caddr a = ListWrSpec.AConst (nz a) in
    let wrange = function
      | LB a -> ListWrSpec.RBase (caddr a) | LO (a, b) -> ListWrSpec.ROffsetPair (nz a, nz b)
      | LE (a, b) -> ListWrSpec.RStartEnd (caddr a, caddr b) | LL (a, b) -> ListWrSpec.RStartLength (caddr a, nz b)
      | LD -> ListWrSpec.ROffsetPair (nz Z.zero, nz Z.zero) in
    let gloc = function
      | LB a -> UnitGlueWr.GLBase (caddr a) | LO (a, b) -> UnitGlueWr.GLOffsetPair (nz a, nz b, ex)
      | LE (a, b) -> UnitGlueWr.GLStartEnd (caddr a, caddr b, ex) | LL (a, b) -> UnitGlueWr.GLStartLength (caddr a, nz b, ex)
      | LD -> UnitGlueWr.GLDefault ex in
    let eid u k : UnitWr.eid = { UnitWr.id_unit = nat u; id_idx = nat k } in
    let gval = function
      | AX -> UnitGlueWr.GExpr ex
      | AR i -> UnitGlueWr.GV (UnitWr.AvRangeListRef (nat i))
      | AL i -> UnitGlueWr.GV (UnitWr.AvLocationListRef (nat i))
      | AI (Kid k) -> UnitGlueWr.GV (UnitWr.AvDebugInfoRef (UnitWr.DEntry (nat main_ix, eid main_ix k)))
      | AI (Other k) -> UnitGlueWr.GV (UnitWr.AvDebugInfoRef (UnitWr.DEntry (nat other_ix, eid other_ix k)))
      | AI (Sym s) -> UnitGlueWr.GV (UnitWr.AvDebugInfoRef (UnitWr.DSym (n s)))
      | AU k -> UnitGlueWr.GV (UnitWr.AvUnitRef (eid main_ix k))
      | AD v -> UnitGlueWr.GV (UnitWr.AvUdata (nz v)) in
    let attrs_of en = List.filter_map (fun (e', at, k) -> if e' = en then Some (n at, gval k) else None) g.attrs in
    let nk = String.length g.kids in
    let kid k =
      UnitGlueWr.GDie (nat (k + 1), n (if g.kids.[k] = 'b' then 0x24 else 0x34), false,
                       (n mark, UnitGlueWr.GV (UnitWr.AvData1 (n k))) :: attrs_of (k + 1), []) in
    let root_attrs =
      (if g.low_pc >= 0 then [(n 0x11, UnitGlueWr.GV (UnitWr.AvAddress (UnitWr.AConst (n g.low_pc))))] else []) @ attrs_of 0 in
    (* written_order = the stable partition Unit::reorder_base_types performs (proved: C11 base_types_first) *)
    let main : UnitGlueWr.gunit =
      { UnitGlueWr.gu_enc = { UnitWrSpec.e_ver = n g.c.version; e_fmt64 = g.c.fmt64; e_asz = n g.c.asize };
        gu_root = UnitGlueWr.GDie (nat 0, n 0x11, false, root_attrs, List.map kid (written_order g.kids));
        gu_nentries = nat (nk + 1);
        gu_ranges = List.map (List.map wrange) g.rl;
        gu_locs = List.map (List.map gloc) g.ll } in
    let other : UnitGlueWr.gunit =
      let okid k = UnitGlueWr.GDie (nat (k + 1), n 0x34, false, [(n mark, UnitGlueWr.GV (UnitWr.AvData1 (n k)))], []) in
      { UnitGlueWr.gu_enc = { UnitWrSpec.e_ver = n 4; e_fmt64 = false; e_asz = n 8 };
        gu_root = UnitGlueWr.GDie (nat 0, n 0x11, false, [], [okid 0; okid 1]);
        gu_nentries = nat 3; gu_ranges = []; gu_locs = [] } in
    let units = match g.other with 0 -> [main] | 1 -> [other; main] | _ -> [main; other] in
    res_str (UnitGlueWr.gtable_write dbg g.c.be units UnitGlueWr.gsec_empty) (fun (outs, s) ->
      let outs = Array.of_list outs in
      let fx (l : UnitWr.fixup list) =
        if l = [] then "-" else
          String.concat "," (List.map (fun (f : UnitWr.fixup) ->
            let o = outs.(int_of_nat f.UnitWr.fx_unit) in
            let v = List.nth o.UnitGlueWr.go_entries (int_of_nat f.UnitWr.fx_entry.UnitWr.id_idx) in
            Printf.sprintf "%s:%s:%s" (Z.to_string (z_of_n f.UnitWr.fx_offset)) (Z.to_string (z_of_n f.UnitWr.fx_size))
              (Z.to_string (z_of_n v))) l) in
      String.concat " "
        ["ok"; hex_of_bytes s.UnitGlueWr.g_info; hex_of_bytes s.UnitGlueWr.g_ranges; hex_of_bytes s.UnitGlueWr.g_rnglists;
         hex_of_bytes s.UnitGlueWr.g_loc; hex_of_bytes s.UnitGlueWr.g_loclists;
         fx s.UnitGlueWr.g_info_fx; fx s.UnitGlueWr.g_loc_fx; fx s.UnitGlueWr.g_loclists_fx])
  with Model_panic -> "panic"

let emit_case emit (g : gcase) = both_lazy emit (fun () -> case_string g) (fun dbg -> expect g dbg)

(* ---- generators ---- *)
let zi = Z.of_int
let at_pool = [| 0x02; 0x40; 0x55; 0x38; 0x2a; 0x19; 0x48; 0x4a; 0x4d; 0x2c |]

let rand_addr r asz =
  match rand_int r 8 with
  | 0 -> Z.zero
  | 1 -> Z.pred (p2 (8 * (max 1 (min asz 8))))
  | 2 -> Z.sub (p2 (8 * (max 1 (min asz 8)))) (zi 2)
  | _ -> zi (1 + rand_int r 200)

(* a list that the version accepts most of the time: base-relative (b? o+) or absolute (e/l+) *)
let rand_list r ~(loc : bool) ~(v5 : bool) ~(hb : bool) ~asz : le list =
  let len = rand_int r 4 in
  let pair () = let a = rand_addr r asz in (a, Z.min (Z.pred (p2 64)) (Z.add a (zi (1 + rand_int r 50)))) in
  match rand_int r 8 with
  | 0 -> List.init len (fun _ ->            (* anything, often rejected before v5 *)
           match rand_int r 6 with
           | 0 -> LB (rand_addr r asz) | 1 -> let (a, b) = pair () in LO (a, b) | 2 -> let (a, b) = pair () in LE (a, b)
           | 3 -> LL (rand_addr r asz, zi (rand_int r 40)) | 4 -> LO (zi 5, zi 5) | _ -> if loc then LD else LE (zi 3, zi 9))
  | 1 | 2 | 3 ->
    (if hb && rand_bool r then [] else [LB (zi (16 + rand_int r 1000))])
    @ List.init len (fun _ -> let (a, b) = pair () in LO (a, b))
    @ (if loc && v5 && rand_int r 3 = 0 then [LD] else [])
  | _ ->
    if hb && not v5 then List.init len (fun _ -> let (a, b) = pair () in LO (a, b))
    else List.init len (fun _ -> if rand_bool r then (let (a, b) = pair () in LE (a, b)) else LL (rand_addr r asz, zi (1 + rand_int r 40)))

let rec dedup = function [] -> [] | x :: r -> x :: dedup (List.filter (fun y -> y <> x) r)

let rand_case r : gcase =
  let c = rand_cfg_unit r in
  let c = if rand_int r 3 = 0 then { c with asize = (if rand_bool r then 4 else 8) } else c in
  let nk = 1 + rand_int r 5 in
  let kids = String.init nk (fun _ -> match rand_int r 8 with 0 -> 'x' | 1 | 2 | 3 -> 'b' | _ -> 'v') in
  let other = if rand_int r 3 = 0 then 1 + rand_int r 2 else 0 in
  let low_pc = match rand_int r 4 with 0 -> -1 | 1 -> 0 | _ -> 4096 * (1 + rand_int r 3) in
  let hb = low_pc > 0 and v5 = c.version >= 5 in
  let rl = dedup (List.init (rand_int r 4) (fun _ -> rand_list r ~loc:false ~v5 ~hb ~asz:c.asize)) in
  let ll = dedup (List.init (rand_int r 4) (fun _ -> rand_list r ~loc:true ~v5 ~hb ~asz:c.asize)) in
  let live = List.filter (fun k -> k = 0 || kids.[k - 1] <> 'x') (List.init (nk + 1) (fun k -> k)) in
  let na = rand_int r 5 in
  let attrs = List.init na (fun j ->
    let en = List.nth live (rand_int r (List.length live)) in
    let k = match rand_int r 10 with
      | 0 | 1 | 2 -> AX
      | 3 | 4 when rl <> [] -> AR (rand_int r (List.length rl))
      | 5 | 6 when ll <> [] -> AL (rand_int r (List.length ll))
      | 7 -> AI (if other <> 0 && rand_bool r then Other (rand_int r 4) else Kid (rand_int r (nk + 3)))   (* incl. reserved-never-added ids *)
      | 8 -> if rand_int r 8 = 0 then AU (nk + 1 + rand_int r 2) else AU (List.nth live (rand_int r (List.length live)))
      | _ -> if rand_bool r then AX else AD (zi (rand_int r 300)) in
    (en, at_pool.(j), k)) in
  let len = match rand_int r 10 with 0 -> 0 | 1 -> 1 | 2 -> 12 + rand_int r 12 | _ -> 1 + rand_int r 7 in
  let script = rand_script r ~nk ~other_mode:other ~refs:true ~depth:0 ~len in
  (* more reference operations than the c15 mix produces *)
  let script = if rand_int r 3 = 0 then script
    else script @ [ (match rand_int r 6 with
                     | 0 -> Cr (rand_rf r nk other) | 1 -> Vv (rand_rf r nk other) | 2 -> Ip (rand_rf r nk other, zi (rand_int r 200 - 100))
                     | 3 -> Call (rand_int r (nk + 1)) | 4 -> Dt (false, 4, rand_int r (nk + 1)) | _ -> Pr (rand_int r (nk + 1))) ] in
  { c; kids; other; low_pc; rl; ll; attrs; script }

let () =
  register "c11.glue" ~doc:"composed writer model (UnitWr x OpWr x ListsWr = Model/UnitGlueWr.v) vs Dwarf::write: .debug_info, the four list sections and the three fix-up lists, byte for byte"
    (fun ~seed ~n emit ->
      (* --- structured part: every reference kind, in a DIE attribute and in location lists of two shapes, before /
             after / at the holder, every version x format, second unit before / after --- *)
      let refs e other = [
        [Cr (Kid e)]; [Vv (Kid e)]; [Ip (Kid e, zi 3)]; [Call e; Cu (zi 300)]; [Pr e]; [Dt (false, 4, e)];
        [Cu (zi 40); Cr (Kid e); Ev [Vv (Kid e); Ct (e, [7])]; Ip ((if other = 0 then Kid e else Other (e mod 3)), zi (-1))] ] in
      List.iter (fun version -> List.iter (fun fmt64 -> List.iter (fun (asize, be) ->
        let c = { version; fmt64; asize; be } in
        List.iter (fun kids ->
          List.iter (fun other ->
            for e = 0 to 3 do
              List.iter (fun script ->
                let ll = [[LE (zi 1, zi 2); LL (zi 300, zi 4)]; [LB (zi 16); LO (zi 1, zi 2)] @ (if version >= 5 then [LD] else [])] in
                let rl = [[LE (zi 1, zi 2)]; [LB (zi 16); LO (zi 1, zi 5)]] in
                emit_case emit { c; kids; other; low_pc = -1; rl; ll; script;
                                 attrs = [(2, 0x02, AX); (1, 0x40, AL 1); (3, 0x02, AL 0); (3, 0x55, AR 1); (0, 0x55, AR 0);
                                          (2, 0x49, AI (if other = 0 then Kid e else Other (e mod 3))); (1, 0x31, AU e)] })
                (refs e other)
            done) [0; 1; 2]) ["vvv"; "bvb"; "vxb"])
        [(8, false); (4, true)]) [false; true]) [2; 3; 4; 5];
      (* ids beyond the entries vector: entries 4 / 5 of a 3-kid unit (reserved, never added), `o 3` of the other unit *)
      List.iter (fun version -> List.iter (fun other -> List.iter (fun e ->
        let c = { version; fmt64 = (version = 3); asize = 8; be = false } in
        let ll = [[LE (zi 1, zi 2)]] in
        List.iter (fun (script, attrs) -> emit_case emit { c; kids = "vbv"; other; low_pc = -1; rl = []; ll; script; attrs })
          ([ ([Dt (false, 4, e)], [(2, 0x02, AX)]); ([Call e], [(2, 0x02, AX)]); ([Pr e], [(1, 0x02, AL 0)]);
             ([Cr (Kid e)], [(2, 0x02, AX)]); ([Ip (Kid e, zi 1)], [(1, 0x02, AL 0)]); ([Vv (Kid e)], [(3, 0x40, AX)]);
             ([Cu (zi 1)], [(2, 0x49, AI (Kid e))]); ([Cu (zi 1)], [(2, 0x31, AU e)]); ([Ev [Ct (e, [7])]], [(2, 0x02, AX)]) ]
           @ (if other = 0 then [] else [ ([Cr (Other 3)], [(2, 0x02, AX)]); ([Vv (Other 3)], [(1, 0x02, AL 0)]); ([Cu (zi 1)], [(2, 0x49, AI (Other 3))]) ])))
        [4; 5]) [0; 1; 2]) [2; 3; 4; 5];
      (* low_pc present: base-relative lists before v5 *)
      List.iter (fun version ->
        emit_case emit { c = { version; fmt64 = false; asize = 4; be = false }; kids = "vv"; other = 0; low_pc = 4096;
                         rl = [[LO (zi 1, zi 2)]; [LO (zi 1, zi 3)]]; ll = [[LO (zi 1, zi 2)]; [LO (zi 2, zi 9); LO (zi 10, zi 11)]];
                         script = [Cr (Kid 2); Reg 5];
                         attrs = [(1, 0x02, AL 1); (2, 0x02, AL 0); (1, 0x55, AR 1); (2, 0x55, AR 0); (0, 0x40, AX)] })
        [2; 3; 4; 5];
      (* --- random part --- *)
      let r = mk_rng seed in
      for _ = 1 to n do emit_case emit (rand_case r) done)

let init () = ()
