(* s_c02.ml — streams for C02 (DIE forest / abbreviation tables / unit headers).
   Model side: extracted Forest (spec encoders, preorder), AbbrevRd, DieRd.
   Case lines (see harness/src/c02.rs):
     c02.abbrev | c02.abbrevbytes  <abbrev-section hex> <offset> <code,code,...>
     c02.header | c02.headerbytes  <be> <types> <section hex>
     c02.forest | c02.nav          <be> <types> <info hex> <abbrev hex>
     c02.corpus                    <variant>
   Result line of forest/nav:
     hdr=<header> raw=.. ent=.. dfs=.. sib=.. [walk=..] tree=.. at=.. from=.. sub=..
   one token per navigation style; c02.forest prints `raw` in full and FNV-1a digests of the other
   styles, c02.nav prints everything in full. *)
open Conv
open Streams
open FormSpec
open Forest

let b01 b = if b then 1 else 0

(* Streams.both evaluates the model before the driver decides whether the case belongs to this
   shard, so with 16 shards every case would be generated and evaluated 16 times. The forest streams
   are expensive (the extracted encoder and every navigation style on the extracted model), so they
   use `sharded`: it mirrors the driver's own case counter (`gen <stream> <seed> <n> <shard>
   <nshards>`, one emit per case), derives the PRNG of case i from (seed, i), and hands the driver an
   empty line for the cases of other shards, which the driver drops unread. *)
let shard_of_argv () =
  match Array.to_list Sys.argv with
  | [_; "gen"; _; _; _; a; b] -> (try (int_of_string a, int_of_string b) with _ -> (0, 1))
  | _ -> (0, 1)
let sharded ?(start = 0) ~seed ~n (emit : emit) (f : int -> rng -> string * (bool -> string)) : unit =
  let (shard, nshards) = shard_of_argv () in
  for i = 0 to n - 1 do
    ignore (start, shard, nshards); if Streams.mine () then begin
      let r = mk_rng (seed * 1000003 + i) in
      ignore (next64 r);
      let (case, g) = f i r in
      emit case (g true) (g false)
    end else emit "" "" ""
  done

let counting (emit : emit) : emit * int ref =
  let k = ref 0 in ((fun a b c -> incr k; emit a b c), k)

let show = S_c03.show
let sn = string_of_n
let sz = string_of_cz
let spf = Printf.sprintf

let fnv (s : string) : string =
  let h = ref 0xcbf29ce484222325L in
  String.iter (fun c -> h := Int64.mul (Int64.logxor !h (Int64.of_int (Char.code c))) 0x100000001b3L) s;
  spf "#%016Lx" !h

(* ---- canonical printing (must equal harness/src/c02.rs) ---- *)
let show_specs_vals (l : (Attr.aspec * attr_value) list) =
  if l = [] then "-" else
  String.concat "," (List.map (fun ((s : Attr.aspec), v) ->
    spf "%s/%s=%s" (sn s.Attr.at_name) (sn s.Attr.at_form) (show v)) l)
let die_is_null (d : die) = Z.sign (z_of_n d.d_tag) = 0
let show_die (d : die) =
  if die_is_null d then spf "%s:%s:null" (sn d.d_offset) (sz d.d_depth)
  else spf "%s:%s:%s:%d:%s" (sn d.d_offset) (sz d.d_depth) (sn d.d_tag) (b01 d.d_children)
      (show_specs_vals d.d_attrs)
let show_od (d : die) = spf "%s:%s" (sn d.d_offset) (sz d.d_depth)
let join sep l = if l = [] then "-" else String.concat sep l
let with_err sep l (e : Res.error option) =
  match e with None -> join sep l | Some e -> String.concat sep (l @ ["!" ^ Errnames.name e])

let show_utype = function
  | UCompile -> "compile" | UPartial -> "partial"
  | UType (s, o) -> spf "type.%s.%s" (sn s) (sn o)
  | USkeleton i -> spf "skeleton.%s" (sn i)
  | USplitCompile i -> spf "split_compile.%s" (sn i)
  | USplitType (s, o) -> spf "split_type.%s.%s" (sn s) (sn o)

let show_hdr_fields ~off ~len ~ver ~f64 ~asz ~ut ~aoff ~hsize ~nbuf =
  spf "%s,%s,%s,%d,%s,%s,%s,%s,%d" off len ver (b01 f64) asz ut aoff hsize nbuf

exception Stop of string
(* Err stays a value; Panic / OutOfFuel end the whole case *)
let r3 (r : 'a Res.res) : ('a, Res.error) result =
  match r with
  | Res.Ok a -> Ok a | Res.Err e -> Error e
  | Res.Panic -> raise (Stop "panic") | Res.OutOfFuel -> raise (Stop "outoffuel")
let must r = match r3 r with Ok a -> a | Error e -> raise (Stop ("err " ^ Errnames.name e))

let show_hdr dbg (h : DieRd.unit_header) =
  let e = h.DieRd.u_enc in
  show_hdr_fields ~off:(sn h.DieRd.u_offset) ~len:(sn h.DieRd.u_length) ~ver:(sn e.version) ~f64:e.fmt64
    ~asz:(sn e.address_size) ~ut:(show_utype h.DieRd.u_type) ~aoff:(sn h.DieRd.u_abbrev)
    ~hsize:(sn (must (DieRd.header_size dbg h))) ~nbuf:(List.length h.DieRd.u_entries)

let show_abbrev (a : abbrev) =
  spf "%s:%s:%d:%s" (sn a.ab_code) (sn a.ab_tag) (b01 a.ab_children)
    (if a.ab_specs = [] then "-" else
     String.concat "," (List.map (fun (s : Attr.aspec) ->
       spf "%s/%s/%s" (sn s.Attr.at_name) (sn s.Attr.at_form) (sz s.Attr.at_implicit)) a.ab_specs))

(* which entries get the per-offset styles in c02.forest (same rule in the harness) *)
let sample_indices (n : int) : int list =
  if n <= 24 then List.init n (fun i -> i) else begin
    let k = max 4 (600 / n) in
    let l = List.init k (fun i -> i * n / k) @ [n - 1] in
    List.sort_uniq compare l
  end

let two64 = Z.shift_left Z.one 64
let u64max = Z.pred two64

(* ---- selection strategies for the partial traversals (same function in harness/src/c02.rs) ----
   key 0: the children of entries whose offset is a multiple of 3 are not requested;
   key = 1 mod 4: entries below the root that have children but no DW_AT_sibling are not descended
                  into (the parent's iterator has to scan their subtree, meeting whatever sibling
                  pointers sit inside);
   key = 2 mod 4: of such entries only the first child is visited, then the walk returns to the
                  parent's list;
   otherwise a hash of (offset, tag, key) decides: skip / 0 / 1 / 2 children / all. *)
let big_nat = nat_of_int 100000
let has_sib_attr (d : die) =
  List.exists (fun ((s : Attr.aspec), _) -> Z.equal (z_of_n s.Attr.at_name) Z.one) d.d_attrs
let mix8 (off : Z.t) (tag : Z.t) (key : int) : int =
  let m64 z = Z.logand z u64max in
  let c s = Z.of_string s in
  let x = Z.logxor (Z.logxor (m64 (Z.mul off (c "0x9E3779B97F4A7C15"))) (m64 (Z.mul tag (c "0xC2B2AE3D27D4EB4F"))))
      (m64 (Z.mul (Z.of_int key) (c "0x165667B19E3779F9"))) in
  let x = Z.logxor x (Z.shift_right x 29) in
  let x = m64 (Z.mul x (c "0xBF58476D1CE4E5B9")) in
  let x = Z.logxor x (Z.shift_right x 32) in
  Z.to_int (Z.logand (Z.shift_right x 40) (Z.of_int 7))
let sel_of_key (key : int) (d : die) : Datatypes.nat option =
  let off = z_of_n d.d_offset and tag = z_of_n d.d_tag in
  let all = Some big_nat in
  let bare = Z.sign (z_of_cz d.d_depth) > 0 && d.d_children && not (has_sib_attr d) in
  if key = 0 then (if Z.sign (Z.rem off (Z.of_int 3)) = 0 then None else all)
  else match key land 3 with
    | 1 -> if bare then None else all
    | 2 -> if bare then Some (nat_of_int 1) else all
    | _ -> (match mix8 off tag key with
            | 0 | 1 -> None | 2 -> Some Datatypes.O | 3 -> Some (nat_of_int 1) | 4 -> Some (nat_of_int 2) | _ -> all)
let sel_all (_ : die) : Datatypes.nat option = Some big_nat
let show_odt (d : die) = spf "%s:%s:%s" (sn d.d_offset) (sz d.d_depth) (sn d.d_tag)

(* ---- every navigation style, evaluated on the model ---- *)
let rec flat_dtree (t : dtree) : die list = match t with DNode (d, ks) -> d :: List.concat_map flat_dtree ks

let model_styles ~nav ~key dbg (h : DieRd.unit_header) (tbl : AbbrevRd.abbrevs) : string =
  let e = h.DieRd.u_enc in
  let tok full name s = spf "%s=%s" name (if full then s else fnv s) in
  let raw_dies, raw_err =
    match r3 (DieRd.read_all_raw dbg h tbl None) with
    | Ok (l, err) -> l, err | Error x -> [], Some x in
  let raw_s = with_err ";" (List.map show_die raw_dies) raw_err in
  let cur0 () = must (DieRd.entries dbg h) in
  let ent_s =
    let c = cur0 () in
    let (l, err) = must (DieRd.entries_all (DieRd.cursor_fuel c) dbg e tbl c) in
    with_err ";" (List.map show_die l) err in
  let dfs_s =
    let c = cur0 () in
    let (l, err) = must (DieRd.dfs_all (DieRd.cursor_fuel c) dbg e tbl c) in
    with_err ";" (List.map show_die l) err in
  let hs = z_of_n (must (DieRd.header_size dbg h)) in
  let nbuf = List.length h.DieRd.u_entries in
  let offsets : Z.t list =
    if nav then
      List.sort_uniq Z.compare
        ([Z.zero; u64max] @ List.init (nbuf + 3) (fun i -> Z.add (Z.pred hs) (Z.of_int i)))
      |> List.filter (fun z -> Z.sign z >= 0)
    else begin
      let ents = Array.of_list (List.filter (fun d -> not (die_is_null d)) raw_dies) in
      List.map (fun i -> z_of_n ents.(i).d_offset) (sample_indices (Array.length ents))
    end in
  let per_off f = join ";" (List.map (fun o -> spf "%s>%s" (Z.to_string o) (f (n_of_z o))) offsets) in
  let sib_s = per_off (fun o ->
    match r3 (DieRd.entries_at_offset dbg h o) with
    | Error x -> "!" ^ Errnames.name x
    | Ok c ->
      match must (DieRd.next_entry dbg e tbl c) with
      | DieRd.SErr (x, _) -> "!" ^ Errnames.name x
      | DieRd.SOk (false, _) -> "end"
      | DieRd.SOk (true, c1) ->
        if DieRd.current c1 = None then "null" else begin
          let (l, err) = must (DieRd.siblings_all (DieRd.cursor_fuel c1) dbg e tbl c1) in
          with_err "," (List.map (fun d -> sn d.d_offset) l) err
        end) in
  let tree_of off full_die =
    match r3 (DieRd.entries_tree dbg h off) with
    | Error x -> "!" ^ Errnames.name x
    | Ok t ->
      let (ot, err) = must (DieRd.walk_tree dbg e tbl t) in
      let l = match ot with Some t -> flat_dtree t | None -> [] in
      if full_die then with_err ";" (List.map show_die l) err
      else with_err "," (List.map show_od l) err in
  let tree_s = tree_of None true in
  (* partial traversals with the tree iterator: strategy 0 and strategy `key` (Model/TreeWalk.v);
     strategy 0 is also run through the older model function walk_sel, which must agree *)
  let skip_one k =
    match r3 (DieRd.entries_tree dbg h None) with
    | Error x -> "!" ^ Errnames.name x
    | Ok t ->
      let (l, err) = must (TreeWalk.walk_tree_plan dbg e tbl (sel_of_key k) t) in
      let s = with_err "," (List.map show_od l) err in
      if k = 0 then begin
        let (l0, err0) = must (DieRd.walk_tree_sel dbg e tbl DieRd.sel_mod3 t) in
        if with_err "," (List.map show_od l0) err0 <> s then raise (Stop "model-inconsistent walk_sel/walk_plan")
      end;
      s in
  let skip_s = skip_one 0 ^ "|" ^ skip_one key in
  (* the cloned-cursor recursion next_entry-to-first-child + next_sibling: everything, and strategy `key` *)
  let walk_one sel =
    let (l, err) = must (TreeWalk.walk_cursor dbg e tbl sel big_nat (cur0 ())) in
    with_err ";" (List.map show_odt l) err in
  let walk_s = if nav then "" else walk_one sel_all ^ "|" ^ walk_one (sel_of_key key) in
  let at_s = per_off (fun o ->
    match r3 (DieRd.entry_at dbg h tbl o) with
    | Error x -> "!" ^ Errnames.name x | Ok d -> show_die d) in
  let from_s = per_off (fun o ->
    match r3 (DieRd.entries_at_offset dbg h o) with
    | Error x -> "!" ^ Errnames.name x
    | Ok c ->
      let (l, err) = must (DieRd.dfs_all (DieRd.cursor_fuel c) dbg e tbl c) in
      with_err "," (List.map show_od l) err) in
  let sub_s = per_off (fun o -> tree_of (Some o) false) in
  String.concat " "
    ([ tok true "raw" raw_s; tok nav "ent" ent_s; tok nav "dfs" dfs_s; tok nav "sib" sib_s ]
     @ (if nav then [] else [ tok false "walk" walk_s ])
     @ [ tok nav "tree" tree_s; tok nav "skip" skip_s; tok nav "at" at_s; tok nav "from" from_s; tok nav "sub" sub_s ])

(* first token of a result line: `ok`, or `raw!<Error>` when raw reading ended in an error (feeds the
   outcome histogram of the evidence); computed from the text of the `raw=` token on both sides *)
let class_of (line : string) : string =
  let raw = try List.find (fun t -> String.length t > 4 && String.sub t 0 4 = "raw=") (String.split_on_char ' ' line)
    with Not_found -> "raw=" in
  let last = match List.rev (String.split_on_char ';' (String.sub raw 4 (String.length raw - 4))) with x :: _ -> x | [] -> "" in
  (if String.length last > 0 && last.[0] = '!' then "raw" ^ last else "ok") ^ " " ^ line

(* the whole result line for one unit + abbreviation section, from the model *)
let model_line ~nav ~key dbg bigend types (info : Byte0.byte list) (abbrev : Byte0.byte list) : string =
  try
    if info = [] then "nounit" else
    let (h, _) = must (DieRd.parse_unit_header bigend types BinNums.N0 info) in
    let hdr = "hdr=" ^ show_hdr dbg h in
    match r3 (AbbrevRd.abbreviations_at dbg abbrev h.DieRd.u_abbrev) with
    | Error x -> "abbrev!" ^ Errnames.name x ^ " " ^ hdr ^ " abbrev=!" ^ Errnames.name x
    | Ok tbl -> class_of (hdr ^ " " ^ model_styles ~nav ~key dbg h tbl)
  with Stop s -> s

(* ================================================================== generators *)
let p2 k = Z.shift_left Z.one k
let rand_below_z r (m : Z.t) : Z.t =    (* uniform-ish in [0, m), m <= 2^128 *)
  if Z.sign m <= 0 then Z.zero else
  Z.rem (Z.add (Z.shift_left (rand_z64 r) 64) (rand_z64 r)) m
let biased_below r (m : Z.t) : Z.t =
  let c = match rand_int r 8 with
    | 0 -> Z.zero | 1 -> Z.pred m | 2 -> Z.of_int (rand_int r 256) | 3 -> Z.shift_right m 1
    | 4 -> Z.pred (Z.shift_right m 1) | _ -> rand_below_z r m in
  if Z.lt c m && Z.sign c >= 0 then c else Z.zero

let name_pool = [| 3; 2; 0x10; 0x11; 0x12; 0x13; 0x1b; 0x25; 0x31; 0x38; 0x3a; 0x3b; 0x49; 0x55; 0x6e;
                   0x2131; 0xffff; 0x3e; 0x0b; 0x58 |]
let form_pool = [| F_data1; F_data2; F_data4; F_data8; F_udata; F_sdata; F_string; F_block1; F_block;
                   F_block2; F_exprloc; F_flag; F_flag_present; F_implicit_const; F_strp; F_sec_offset;
                   F_ref4; F_ref_udata; F_ref1; F_addr; F_strx1; F_strx3; F_data16; F_ref_sig8;
                   F_line_strp; F_addrx; F_rnglistx; F_ref_addr; F_ref8; F_strx; F_data1; F_string;
                   F_udata; F_flag_present |]
let tag_pool = [| 0x11; 0x2e; 0x34; 0x24; 0x0f; 0x13; 0x0d; 0x05; 0x0b; 0x1d; 0x01; 0x3c; 0x41; 0x4109;
                  0xffff; 0x7f; 0x80 |]

let gen_raw r (e : enc) (f : form) : raw =
  match form_layout f e with
  | LFixed n -> RNum (n_of_z (biased_below r (p2 (8 * int_of_n n))))
  | LUleb -> RNum (n_of_z (boundary_z64 r))
  | LSleb -> RInt (cz_of_z (Z.sub (boundary_z64 r) (p2 63)))
  | LBlock _ -> RBytes (bytes_of_ints (rand_bytes r (rand_int r 10)))
  | LCstring -> RBytes (bytes_of_ints (List.init (rand_int r 7) (fun _ -> 1 + rand_int r 255)))
  | LNone -> RNone
  | LIndirect -> RNone

(* generator IR: a node kind fixes the abbreviation (tag + attribute templates) *)
type tmpl =
  | TA of int * form * int * Z.t        (* name, form, indirect hops, implicit constant *)
  | TS of sibw                          (* correct DW_AT_sibling *)
  | TF of form                          (* nav stream: DW_AT_sibling with an arbitrary value *)
type kind = { ktag : int; ktmpl : tmpl list }
type gdata = GD of raw | GFake of int
type gtree = G of kind * bool * gdata list * gtree list

let gen_kind r ~(sib : int) : kind =
  let na = match rand_int r 8 with 0 -> 0 | 1 | 2 -> 1 | 3 | 4 -> 2 | 5 -> 3 | 6 -> 4 | _ -> 5 + rand_int r 4 in
  let attrs = List.init na (fun _ ->
    let f = pick r form_pool in
    let hops = if f = F_implicit_const then 0 else match rand_int r 10 with 0 -> 1 | 1 -> 2 | _ -> 0 in
    let implicit = if f = F_implicit_const then Z.sub (boundary_z64 r) (p2 63) else Z.zero in
    TA (pick r name_pool, f, hops, implicit)) in
  let w () = pick r [| W4; W4; W4; W8; W2; W1 |] in
  let with_sib = match sib with 0 -> false | 1 -> true | _ -> rand_bool r in
  let tm = if with_sib then begin
      let pos = if rand_int r 3 = 0 then rand_int r (na + 1) else 0 in
      List.filteri (fun i _ -> i < pos) attrs @ [TS (w ())] @ List.filteri (fun i _ -> i >= pos) attrs
    end else attrs in
  { ktag = pick r tag_pool; ktmpl = tm }

let rec gen_node r (e : enc) (kinds : kind array) (flag : bool) (kids : gtree list) : gtree =
  gen_node_of r e (pick r kinds) flag kids
and gen_node_of r (e : enc) (k : kind) (flag : bool) (kids : gtree list) : gtree =
  let data = List.filter_map (function
    | TA (_, f, _, _) -> Some (GD (gen_raw r e f))
    | TS _ -> None
    | TF _ -> Some (GFake (rand_int r 12))) k.ktmpl in
  G (k, flag, data, kids)

(* shapes *)
let rec gen_random r e kinds budget depth : gtree =
  let nk = if !budget <= 0 || depth > 12 then 0 else
    match rand_int r 6 with 0 | 1 | 2 -> 0 | 3 -> 1 | 4 -> 2 | _ -> 1 + rand_int r 5 in
  budget := !budget - nk;
  let kids = List.init nk (fun _ -> gen_random r e kinds budget (depth + 1)) in
  gen_node r e kinds (rand_int r 4 = 0) kids
let rec gen_chain r e kinds d : gtree =
  if d <= 0 then gen_node r e kinds (rand_bool r) []
  else gen_node r e kinds false [gen_chain r e kinds (d - 1)]
let rec gen_comb r e kinds d : gtree =
  if d <= 0 then gen_node r e kinds (rand_bool r) []
  else begin
    let leaf () = gen_node r e kinds (rand_int r 3 = 0) [] in
    let before = List.init (rand_int r 3) (fun _ -> leaf ()) in
    let after = List.init (rand_int r 3) (fun _ -> leaf ()) in
    gen_node r e kinds false (before @ [gen_comb r e kinds (d - 1)] @ after)
  end
let gen_wide r e kinds w : gtree =
  gen_node r e kinds (w = 0 && rand_bool r)
    (List.init w (fun _ ->
       if rand_int r 8 = 0 then gen_node r e kinds false [gen_node r e kinds false []]
       else gen_node r e kinds (rand_int r 5 = 0) []))

(* the shape on which a wrong depth after the DW_AT_sibling fast path of EntriesTree::next shows: an entry A
   with children and WITHOUT sibling pointer (kind kp) whose subtree holds an entry X with children
   and WITH a (forward) sibling pointer (kind kq); A has following siblings; nested several levels.
   A walk that does not descend into A, or leaves A after its first child, makes the parent's
   iterator pass over X. *)
let rec gen_trap r e (kp : kind) (kq : kind) (any : unit -> kind) (d : int) : gtree =
  let leaf () = gen_node_of r e (any ()) (rand_int r 4 = 0) [] in
  let opt p f = if rand_int r p = 0 then [f ()] else [] in
  let inner () = if d > 0 && rand_bool r then [gen_trap r e kp kq any (d - 1)] else [leaf ()] in
  let x () = gen_node_of r e kq false (inner () @ opt 2 leaf) in
  let a () = gen_node_of r e kp false (opt 2 leaf @ [x ()] @ opt 3 x @ opt 2 leaf) in
  let before = List.init (rand_int r 2) (fun _ -> leaf ()) in
  let after = List.init (1 + rand_int r 2) (fun _ ->
    if d > 0 && rand_int r 3 = 0 then gen_trap r e kp kq any (d - 1) else leaf ()) in
  gen_node_of r e kp false (before @ [a ()] @ after)

(* size classes: small (<= ~8 entries, for the exhaustive-offset stream), medium, large (deep chains to
   300, up to 200 siblings) *)
let gen_forest r e kinds ~(size : int) : gtree list * int =
  let small = size = 0 and large = size >= 2 in
  let shape = rand_int r (if small then 5 else 10) in
  let f = match shape with
    | 0 | 1 | 2 -> [gen_random r e kinds (ref (if small then 6 else 4 + rand_int r (if large then 80 else 30))) 0]
    | 3 -> List.init (2 + rand_int r 3) (fun _ -> gen_random r e kinds (ref (rand_int r 6)) 0)
    | 4 -> [gen_comb r e kinds (rand_int r (if small then 3 else if large then 25 else 8))]
    | 5 -> [gen_chain r e kinds (if large then pick r [| 17; 60; 100; 150; 300 |] else pick r [| 1; 2; 3; 5; 8; 13; 17; 30 |])]
    | 6 -> [gen_wide r e kinds (if large then pick r [| 50; 127; 128; 200 |] else pick r [| 0; 1; 2; 7; 20; 33 |])]
    | 7 -> [gen_wide r e kinds (rand_int r (if large then 201 else 40))]
    | 8 -> [gen_node r e kinds true []]
    | _ -> [gen_random r e kinds (ref (10 + rand_int r (if large then 80 else 25))) 0] in
  let pad = match rand_int r 6 with 0 -> 1 | 1 -> 1 + rand_int r 5 | _ -> 0 in
  (f, pad)

(* IR -> Forest.tree. `fake` gives the value of a TF attribute of the node with preorder index i. *)
let to_tree (e : enc) (fake : int -> int -> Z.t) (f : gtree list) : tree list =
  let idx = ref (-1) in
  let rec go (G (k, flag, data, kids)) : tree =
    incr idx;
    let me = !idx in
    let data = ref data in
    let next () = match !data with d :: t -> data := t; d | [] -> GD RNone in
    let items = List.map (function
      | TA (name, f, hops, implicit) ->
          let d = match next () with GD d -> d | GFake _ -> RNone in
          (match resolve e { u_name = n_of_int name; u_implicit = cz_of_z implicit; u_hops = nat_of_int hops;
                             u_form = f; u_data = d } with
           | Some a -> IAttr a | None -> failwith "s_c02: resolve failed")
      | TS w -> ISib w
      | TF f ->
          let c = match next () with GFake c -> c | GD _ -> 0 in
          (match resolve e { u_name = n_of_int 1; u_implicit = BinNums.Z0; u_hops = Datatypes.O; u_form = f;
                             u_data = RNum (n_of_z (fake me c)) } with
           | Some a -> IAttr a | None -> failwith "s_c02: resolve failed (fake)")) k.ktmpl in
    let kids = List.map go kids in
    Node (n_of_int k.ktag, flag, items, kids) in
  List.map go f


(* ---- abbreviation-code assignment ---- *)
let key_of (tag : BinNums.coq_N) (hc : bool) (specs : Attr.aspec list) : string =
  spf "%s|%b|%s" (sn tag) hc
    (String.concat "," (List.map (fun (s : Attr.aspec) ->
       spf "%s/%s/%s" (sn s.Attr.at_name) (sn s.Attr.at_form) (sz s.Attr.at_implicit)) specs))

let shuffle r (a : 'a array) : unit =
  for i = Array.length a - 1 downto 1 do
    let j = rand_int r (i + 1) in
    let t = a.(i) in a.(i) <- a.(j); a.(j) <- t
  done

let sparse_pool = List.map Z.of_string
  [ "1"; "3"; "1000"; "4294967301"; "9223372036854775808"; "18446744073709551615"; "127"; "128";
    "16383"; "16384"; "4294967295"; "4294967296"; "2"; "9223372036854775807"; "2097151"; "2097152";
    "72057594037927936"; "255"; "256"; "65535"; "65536" ]

(* k distinct non-zero u64 codes under a scheme *)
let gen_codes r (scheme : int) (k : int) : Z.t array =
  let seq = Array.init k (fun i -> Z.of_int (i + 1)) in
  match scheme with
  | 0 -> seq
  | 1 -> Array.init k (fun i -> Z.of_int (k - i))
  | 2 -> shuffle r seq; seq
  | 3 ->
    let pool = Array.of_list sparse_pool in
    shuffle r pool;
    let seen = Hashtbl.create 16 in
    Array.init k (fun i ->
      let rec fresh c = if Z.sign c = 0 || Hashtbl.mem seen c then fresh (rand_z64 r) else (Hashtbl.add seen c (); c) in
      fresh (if i < Array.length pool then pool.(i) else rand_z64 r))
  | 4 -> let j = rand_int r (k + 1) in Array.init k (fun i -> Z.of_int (if i < j then i + 1 else i + 2))
  | 5 ->
    let seen = Hashtbl.create 16 in
    Array.init k (fun _ ->
      let rec fresh () = let c = rand_z64 r in if Z.sign c = 0 || Hashtbl.mem seen c then fresh () else (Hashtbl.add seen c (); c) in
      fresh ())
  | 6 -> Array.init k (fun i -> Z.of_int (i + 2))
  | _ -> (* sequential prefix, then sparse *)
    let j = rand_int r (k + 1) in
    Array.init k (fun i -> if i < j then Z.of_int (i + 1) else Z.add (p2 32) (Z.of_int (7 * i)))

let assign_codes r (scheme : int) (f : tree list) : coding * int =
  (* keyed on the structure itself: the extracted encoder asks for the code of a node once per
     ancestor, so the lookup has to be cheap *)
  let keys : (int, (BinNums.coq_N * bool * Attr.aspec list) * int) Hashtbl.t = Hashtbl.create 16 in
  let count = ref 0 in
  let find tag hc specs =
    let k = (tag, hc, specs) in
    let h = Hashtbl.hash_param 40 200 k in
    List.find_opt (fun (k', _) -> k' = k) (Hashtbl.find_all keys h) |> Option.map snd, h, k in
  List.iter (fun t ->
    match find (t_tag t) (has_children t) (t_specs t) with
    | Some _, _, _ -> ()
    | None, h, k -> Hashtbl.add keys h (k, !count); incr count)
    (forest_nodes f);
  let k = !count in
  let cs = gen_codes r scheme k in
  let codes tag hc specs =
    match find tag hc specs with
    | Some i, _, _ -> n_of_z cs.(i)
    | None, _, _ -> BinNums.N0 in
  let cs_n = Array.map n_of_z cs in
  let codes tag hc specs = match find tag hc specs with Some i, _, _ -> cs_n.(i) | None, _, _ -> BinNums.N0 in
  (codes, k)

(* ---- expected values from the specification ---- *)
type ev =
  | E of die * int * Z.t list * (Z.t * int) list   (* entry, depth, following siblings, subtree (off, rel depth) *)
  | Nl of Z.t * int                                (* null entry: offset, reported depth *)

let zadd a b = n_of_z (Z.add (z_of_n a) (z_of_n b))

let rec walk (codes : coding) (off : BinNums.coq_N) (depth : int) (ts : tree list) : ev list =
  match ts with
  | [] -> []
  | t :: rest ->
    let size = tree_size codes t in
    let d = root_die codes off (cz_of_int depth) t in
    let kev = walk codes (kids_off codes off t) (depth + 1) (t_kids t) in
    let next = zadd off size in
    let sibs =
      let rec go o l = match l with [] -> [] | s :: l' -> z_of_n o :: go (zadd o (tree_size codes s)) l' in
      go next rest in
    let sub = (z_of_n off, 0) :: List.filter_map (function
      | E (dd, dep, _, _) -> Some (z_of_n dd.d_offset, dep - depth) | Nl _ -> None) kev in
    (E (d, depth, sibs, sub) :: kev)
    @ (if has_children t then [Nl (Z.pred (z_of_n next), depth + 1)] else [])
    @ walk codes next depth rest

let sibs_fit (codes : coding) (off : BinNums.coq_N) (f : tree list) : bool =
  let ok = ref true in
  let rec go off ts = match ts with
    | [] -> ()
    | t :: rest ->
      let next = zadd off (tree_size codes t) in
      List.iter (function
        | ISib w -> if Z.geq (z_of_n next) (p2 (8 * int_of_nat (sib_len w))) then ok := false
        | IAttr _ -> ()) (t_items t);
      go (kids_off codes off t) (t_kids t);
      go next rest in
  go off f; !ok

let rec widen (t : tree) : tree =
  match t with Node (tag, flag, items, kids) ->
    Node (tag, flag, List.map (function ISib (W1 | W2) -> ISib W4 | it -> it) items, List.map widen kids)

(* a generated unit *)
type unit_case = {
  bigend : bool; types : bool; hdr : uheader; enc : enc; codes : coding; forest : tree list; pad : int;
  info : Byte0.byte list; abbrev : Byte0.byte list; body : Byte0.byte list;
}

let gen_uheader r : uheader * bool =
  let version = 2 + rand_int r 4 in
  let f64 = rand_int r 3 = 0 in
  let w = if f64 then 64 else 32 in
  let asz = pick r [| 1; 2; 4; 8; 4; 8 |] in
  let big () = n_of_z (boundary_z64 r) in
  let woff () = n_of_z (biased_below r (p2 w)) in
  let ut, types =
    if version = 5 then
      (match rand_int r 6 with
       | 0 -> UCompile | 1 -> UType (big (), woff ()) | 2 -> UPartial | 3 -> USkeleton (big ())
       | 4 -> USplitCompile (big ()) | _ -> USplitType (big (), woff ())), rand_int r 8 = 0
    else if rand_int r 3 = 0 then UType (big (), woff ()), true else UCompile, false in
  ({ uh_version = n_of_int version; uh_fmt64 = f64; uh_asize = n_of_int asz; uh_type = ut;
     uh_abbrev_off = n_of_int 0 }, types)

let build_unit r ?(scheme = -1) (h0 : uheader) types bigend (f0 : tree list) pad : unit_case =
  let e = { version = h0.uh_version; fmt64 = h0.uh_fmt64; address_size = h0.uh_asize; be = bigend } in
  let scheme = if scheme >= 0 then scheme else rand_int r 8 in
  let hl = header_len h0 in
  let f, codes =
    let (codes, _) = assign_codes r scheme f0 in
    if sibs_fit codes hl f0 then f0, codes
    else begin
      let f1 = List.map widen f0 in
      let (codes, _) = assign_codes r scheme f1 in f1, codes
    end in
  let decls = Array.of_list (forest_abbrevs codes f) in
  (match rand_int r 3 with 0 -> () | 1 -> shuffle r decls
   | _ -> let n = Array.length decls in let c = Array.copy decls in Array.iteri (fun i x -> decls.(n - 1 - i) <- x) c);
  let junk = bytes_of_ints (rand_bytes r (pick r [| 0; 0; 0; 1; 5; 20 |])) in
  let tail = bytes_of_ints (rand_bytes r (pick r [| 0; 0; 3 |])) in
  let abbrev = junk @ enc_abbrevs (Array.to_list decls) @ tail in
  let h = { h0 with uh_abbrev_off = n_of_int (List.length junk) } in
  let body = enc_forest codes bigend hl f (nat_of_int pad) in
  let info = enc_unit bigend h body in
  { bigend; types; hdr = h; enc = e; codes; forest = f; pad; info; abbrev; body }

(* the expected line of a well-formed unit, from Spec/Forest.v *)
let spec_line ?(key = 0) (u : unit_case) : string =
  let hl = header_len u.hdr in
  let nbuf = List.length u.body in
  let hdr = show_hdr_fields ~off:"0" ~len:(sn (unit_length_of u.bigend u.hdr (n_of_int nbuf)))
      ~ver:(sn u.hdr.uh_version) ~f64:u.hdr.uh_fmt64 ~asz:(sn u.hdr.uh_asize) ~ut:(show_utype u.hdr.uh_type)
      ~aoff:(sn u.hdr.uh_abbrev_off) ~hsize:(sn hl) ~nbuf in
  let evs = walk u.codes hl 0 u.forest in
  (* the raw sequence straight from the specification (entries, list terminators, padding) *)
  let raw_s = join ";" (List.map show_die (raw_seq u.codes hl u.forest (nat_of_int u.pad))) in
  let pre = preorder u.codes hl BinNums.Z0 u.forest in
  let dfs_s = join ";" (List.map show_die pre) in
  let ents = Array.of_list (List.filter_map (function E (d, dep, s, sub) -> Some (d, dep, s, sub) | Nl _ -> None) evs) in
  let n = Array.length ents in
  let idx = sample_indices n in
  let per f = join ";" (List.map (fun i -> let (d, dep, s, sub) = ents.(i) in spf "%s>%s" (sn d.d_offset) (f i d dep s sub)) idx) in
  let sib_s = per (fun _ _ _ s _ -> join "," (List.map Z.to_string s)) in
  (* the cloned-cursor walk: every top-level entry; everything, and the sub-forest selected by `key`
     (Spec/ForestSel.v) *)
  let walk_one sel = join ";" (List.map show_odt (ForestSel.sel_list u.codes sel BinNums.Z0 hl big_nat u.forest)) in
  let walk_all = walk_one sel_all in
  let walk_s = walk_all ^ "|" ^ walk_one (sel_of_key key) in
  if walk_all <> join ";" (List.map show_odt pre) then failwith "s_c02: sel_all is not the preorder";
  let tree_s = match u.forest with
    | t :: _ -> join ";" (List.map show_die (pre_tree u.codes BinNums.Z0 hl t))
    | [] -> "?" in
  (* the tree iterator started at the first entry: the sub-forest selected by strategy 0 and by `key` *)
  let skip_one k = match u.forest with
    | t :: _ -> join "," (List.map show_od (ForestSel.sel_tree u.codes (sel_of_key k) BinNums.Z0 hl t))
    | [] -> "?" in
  let skip_s = skip_one 0 ^ "|" ^ skip_one key in
  let at_s = per (fun _ d _ _ _ -> show_die { d with d_depth = BinNums.Z0 }) in
  let from_s = per (fun i _ dep _ _ ->
    join "," (List.filteri (fun j _ -> j >= i) (Array.to_list ents)
              |> List.map (fun (d, dp, _, _) -> spf "%s:%d" (sn d.d_offset) (dp - dep)))) in
  let sub_s = per (fun _ _ _ _ sub -> join "," (List.map (fun (o, dp) -> spf "%s:%d" (Z.to_string o) dp) sub)) in
  "ok " ^ String.concat " "
    [ "hdr=" ^ hdr; "raw=" ^ raw_s; "ent=" ^ fnv raw_s; "dfs=" ^ fnv dfs_s; "sib=" ^ fnv sib_s;
      "walk=" ^ fnv walk_s; "tree=" ^ fnv tree_s; "skip=" ^ fnv skip_s; "at=" ^ fnv at_s; "from=" ^ fnv from_s; "sub=" ^ fnv sub_s ]

(* drop the harness-only token before comparing with the model *)
let without_walk (s : string) : string =
  String.concat " " (List.filter (fun t -> not (String.length t > 5 && String.sub t 0 5 = "walk=")) (String.split_on_char ' ' s))

let first_diff (a : string) (b : string) : string =
  let ta = String.split_on_char ' ' a and tb = String.split_on_char ' ' b in
  let rec go x y = match x, y with
    | p :: x', q :: y' -> if p = q then go x' y' else (try String.sub p 0 (String.index p '=') with Not_found -> p)
    | _ -> "length" in
  go ta tb

let case_line ?(key = 0) stream bigend types info abbrev =
  spf "%s %d %d %s %s %d" stream (b01 bigend) (b01 types) (hex_of_bytes info) (hex_of_bytes abbrev) key

let gen_wellformed ?(trap = false) r ~(size : int) : unit_case =
  let (h0, types) = gen_uheader r in
  let bigend = rand_bool r in
  let e = { version = h0.uh_version; fmt64 = h0.uh_fmt64; address_size = h0.uh_asize; be = bigend } in
  let sib = rand_int r 3 in
  let kinds = Array.init (1 + rand_int r 6) (fun _ -> gen_kind r ~sib) in
  let (g, pad) =
    if trap then begin
      let kp = gen_kind r ~sib:0 and kq = gen_kind r ~sib:1 in
      let pool = Array.append kinds [| kp; kq |] in
      let t = gen_trap r e kp kq (fun () -> pick r pool) (1 + rand_int r 3) in
      ((if rand_int r 4 = 0 then [t; gen_node r e pool false []] else [t]), (if rand_int r 4 = 0 then 1 + rand_int r 3 else 0))
    end else gen_forest r e kinds ~size in
  let f = to_tree e (fun _ _ -> Z.zero) g in
  build_unit r h0 types bigend f pad

(* ================================================================== streams *)
let corpus_dir () =
  try Sys.getenv "GV_CORPUS" with Not_found ->
    Filename.concat (Filename.dirname Sys.executable_name) "../corpus/sections"

let show_tbl_queries (get : BinNums.coq_N -> abbrev option) (qs : Z.t list) : string =
  join ";" (List.map (fun q -> match get (n_of_z q) with Some a -> show_abbrev a | None -> "-") qs)

let abbrev_model dbg (sec : Byte0.byte list) (off : Z.t) (qs : Z.t list) : string =
  try
    match r3 (AbbrevRd.abbreviations_at dbg sec (n_of_z off)) with
    | Error x -> "err " ^ Errnames.name x
    | Ok tbl -> "ok " ^ show_tbl_queries (AbbrevRd.tbl_get tbl) qs
  with Stop s -> s

let abbrev_case stream sec off qs =
  spf "%s %s %s %s" stream (hex_of_bytes sec) (Z.to_string off) (join "," (List.map Z.to_string qs))

let gen_specs r (n : int) : Attr.aspec list =
  List.init n (fun _ ->
    let f = int_of_n (form_code (pick r form_pool)) in
    let f = if rand_int r 10 = 0 then pick r [| 0x21; 0x16; 0x1f01; 0xffff; 0x2c; 0x2d; 0x7f; 0x80 |] else f in
    { Attr.at_name = n_of_int (if rand_int r 6 = 0 then pick r [| 1; 0x7f; 0x80; 0x3fff; 0x4000; 0xffff |] else pick r name_pool);
      Attr.at_form = n_of_int f;
      Attr.at_implicit = if f = 0x21 then cz_of_z (Z.sub (boundary_z64 r) (p2 63)) else BinNums.Z0 })

let () =
  register "c02.abbrev"
    ~doc:"abbreviation tables written by the spec encoder: 0..40 declarations, code schemes sequential / reversed / permuted / sparse (1, 3, 1000, 2^32+5, 2^63, 2^64-1) / gap / huge / mixed, any declaration order, 0..9 attribute specifications (inline/heap boundary at 5), duplicates; lookups of every declared code and of absent codes (0, neighbours, 2^64-1)"
    (fun ~seed ~n emit0 ->
      let (emit, count) = counting emit0 in
      let result = ref None in
      let one r ?(k = -1) ?(scheme = -1) ?(dup = false) () =
        let k = if k >= 0 then k else (match rand_int r 6 with 0 -> 0 | 1 -> 1 | 2 -> 2 + rand_int r 4 | 3 -> 40 | _ -> rand_int r 14) in
        let scheme = if scheme >= 0 then scheme else rand_int r 8 in
        let cs = gen_codes r scheme k in
        let decls = Array.mapi (fun _ c ->
          { ab_code = n_of_z c; ab_tag = n_of_int (pick r tag_pool); ab_children = rand_bool r;
            ab_specs = gen_specs r (match rand_int r 5 with 0 -> 0 | 1 -> 5 | 2 -> 6 | _ -> rand_int r 10) }) cs in
        (match rand_int r 3 with 0 -> () | _ -> shuffle r decls);
        let decls = Array.to_list decls in
        let decls =
          if dup && k > 0 then begin
            (* re-declare an existing code somewhere later *)
            let i = rand_int r k in
            let d = { (List.nth decls i) with ab_tag = n_of_int (pick r tag_pool) } in
            let pos = i + 1 + rand_int r (k - i) in
            List.filteri (fun j _ -> j < pos) decls @ [d] @ List.filteri (fun j _ -> j >= pos) decls
          end else decls in
        let terminated = rand_int r 4 <> 0 in
        let junk = bytes_of_ints (rand_bytes r (pick r [| 0; 0; 2; 9 |])) in
        let sec = junk @ (if terminated then enc_abbrevs decls @ bytes_of_ints (rand_bytes r (rand_int r 3)) else enc_decls decls) in
        let off = Z.of_int (List.length junk) in
        let declared = List.map (fun a -> z_of_n a.ab_code) decls in
        let qs = List.sort_uniq Z.compare
            (declared @ [Z.zero; Z.one; Z.of_int (k + 1); Z.of_int (k + 2); u64max; p2 63; Z.succ (p2 32)]
             @ List.concat_map (fun c -> [Z.pred c; Z.succ c]) (List.filteri (fun i _ -> i < 4) declared))
                 |> List.filter (fun q -> Z.sign q >= 0 && Z.lt q two64) in
        (* specification: duplicates are rejected, otherwise the declaration carrying the code *)
        let rec has_dup seen = function
          | [] -> false | c :: t -> List.exists (Z.equal c) seen || has_dup (c :: seen) t in
        let spec =
          if has_dup [] declared then "err DuplicateAbbreviationCode"
          else "ok " ^ show_tbl_queries (fun q -> List.find_opt (fun a -> Z.equal (z_of_n a.ab_code) (z_of_n q)) decls) qs in
        result := Some (abbrev_case "c02.abbrev" sec off qs, fun dbg ->
          let m = abbrev_model dbg sec off qs in
          if m = spec then spec else "model-inconsistent " ^ m) in
      let take () = match !result with Some x -> x | None -> failwith "c02.abbrev" in
      (* exhaustive part: every scheme x small sizes, with and without a duplicate *)
      let r = mk_rng seed in
      for scheme = 0 to 7 do
        for k = 0 to 8 do
          one r ~k ~scheme (); (let (c, g) = take () in both emit c g);
          if k > 0 then (one r ~k ~scheme ~dup:true (); let (c, g) = take () in both emit c g)
        done
      done;
      sharded ~start:!count ~seed ~n emit0 (fun _ r -> one r ~dup:(rand_int r 5 = 0) (); take ()));

  register "c02.abbrevbytes"
    ~doc:"abbreviation sections as raw bytes: every byte string of length <= 2, then spec-encoded tables with a field-aware mutation (tag 0, children byte 2..255, name/form zero, code/tag/name LEB over-long or overflowing, truncation at every point, byte flips, missing terminators) and random byte strings"
    (fun ~seed ~n emit ->
      let r = mk_rng seed in
      let fixed_q = List.map Z.of_int [0; 1; 2; 3; 127; 128; 1000] in
      let run sec off =
        let qs = try
            match AbbrevRd.abbreviations_at false sec (n_of_z off) with
            | Res.Ok tbl -> List.sort_uniq Z.compare (fixed_q @ List.map (fun a -> z_of_n a.ab_code) (AbbrevRd.tbl_contents tbl))
            | _ -> fixed_q
          with _ -> fixed_q in
        both emit (abbrev_case "c02.abbrevbytes" sec off qs) (fun dbg -> abbrev_model dbg sec off qs) in
      run [] Z.zero; run [] Z.one;
      for a = 0 to 255 do run (bytes_of_ints [a]) Z.zero done;
      for a = 0 to 255 do for b = 0 to 255 do run (bytes_of_ints [a; b]) Z.zero done done;
      let leb_over = [| [0x80; 0x80; 0x80; 0x80; 0x80; 0x80; 0x80; 0x80; 0x80; 0x02];
                        [0xff; 0xff; 0xff; 0xff; 0xff; 0xff; 0xff; 0xff; 0xff; 0x01];
                        [0x80; 0x80; 0x04]; [0xff; 0xff; 0x03]; [0x81; 0x80; 0x00]; [0x80; 0x00]; [0x80] |] in
      for _ = 1 to n do
        let k = rand_int r 5 in
        let cs = gen_codes r (rand_int r 8) k in
        let decls = Array.to_list (Array.map (fun c ->
          { ab_code = n_of_z c; ab_tag = n_of_int (pick r tag_pool); ab_children = rand_bool r;
            ab_specs = gen_specs r (rand_int r 7) }) cs) in
        let sec = Array.of_list (List.map int_of_byte (enc_abbrevs decls)) in
        let len = Array.length sec in
        let sec = match rand_int r 8 with
          | 0 -> Array.sub sec 0 (rand_int r (len + 1))
          | 1 when len > 0 -> let c = Array.copy sec in c.(rand_int r len) <- rand_int r 256; c
          | 2 when len > 0 -> let c = Array.copy sec in c.(rand_int r len) <- pick r [| 0; 1; 2; 0x80; 0xff |]; c
          | 3 when len > 0 ->
            let i = rand_int r len in
            Array.concat [Array.sub sec 0 i; Array.of_list (pick r leb_over); Array.sub sec i (len - i)]
          | 4 -> Array.of_list (rand_bytes r (rand_int r 12))
          | 5 when len > 0 -> let i = rand_int r len in Array.concat [Array.sub sec 0 i; Array.sub sec (i + 1) (len - i - 1)]
          | 6 -> Array.append sec sec
          | _ -> sec in
        let off = if rand_int r 10 = 0 then Z.of_int (rand_int r (Array.length sec + 3)) else Z.zero in
        run (bytes_of_ints (Array.to_list sec)) off
      done)

(* ---- unit headers ---- *)
let hdr_model dbg bigend types (sec : Byte0.byte list) : string =
  try
    let (l, err) = must (DieRd.units dbg bigend types sec) in
    "ok " ^ with_err ";" (List.map (show_hdr dbg) l) err
  with Stop s -> s

let hdr_case stream bigend types sec = spf "%s %d %d %s" stream (b01 bigend) (b01 types) (hex_of_bytes sec)

let all_utypes_v5 big woff = [ UCompile; UType (big (), woff ()); UPartial; USkeleton (big ());
                               USplitCompile (big ()); USplitType (big (), woff ()) ]

let () =
  register "c02.header"
    ~doc:"sections of 1-3 units written by the spec encoder: version 2-5 x 32/64-bit x address size 1/2/4/8 x byte order x every unit kind (v2-4: compile in .debug_info, type in .debug_types; v5: compile/type/partial/skeleton/split_compile/split_type) with boundary signatures, type offsets, dwo ids, abbreviation offsets and body lengths (exhaustive over that grid, then random)"
    (fun ~seed ~n emit0 ->
      let (emit, count) = counting emit0 in
      let r = mk_rng seed in
      let result = ref None in
      let take () = match !result with Some x -> x | None -> failwith "c02.header" in
      let emit_units bigend types (us : (uheader * Byte0.byte list) list) =
        let sec = List.concat_map (fun (h, body) -> enc_unit bigend h body) us in
        let off = ref Z.zero in
        let spec = "ok " ^ join ";" (List.map (fun (h, body) ->
          let nbuf = List.length body in
          let len = unit_length_of bigend h (n_of_int nbuf) in
          let s = show_hdr_fields ~off:(Z.to_string !off) ~len:(sn len) ~ver:(sn h.uh_version) ~f64:h.uh_fmt64
              ~asz:(sn h.uh_asize) ~ut:(show_utype h.uh_type) ~aoff:(sn h.uh_abbrev_off) ~hsize:(sn (header_len h)) ~nbuf in
          off := Z.add !off (Z.add (z_of_n len) (Z.of_int (if h.uh_fmt64 then 12 else 4)));
          s) us) in
        result := Some (hdr_case "c02.header" bigend types sec, fun dbg ->
          let m = hdr_model dbg bigend types sec in
          if m = spec then spec else "model-inconsistent " ^ m) in
      let emit_now bigend types us = emit_units bigend types us; let (c, g) = take () in both emit c g in
      let mk version f64 asz ut aoff =
        { uh_version = n_of_int version; uh_fmt64 = f64; uh_asize = n_of_int asz; uh_type = ut; uh_abbrev_off = aoff } in
      let body () = bytes_of_ints (rand_bytes r (pick r [| 0; 1; 2; 7; 30 |])) in
      List.iter (fun bigend -> List.iter (fun f64 -> List.iter (fun asz ->
        let w = if f64 then 64 else 32 in
        let big () = n_of_z (boundary_z64 r) and woff () = n_of_z (biased_below r (p2 w)) in
        List.iter (fun version ->
          if version = 5 then
            List.iter (fun types -> List.iter (fun ut ->
              emit_now bigend types [ (mk 5 f64 asz ut (woff ()), body ()) ]) (all_utypes_v5 big woff)) [false; true]
          else begin
            emit_now bigend false [ (mk version f64 asz UCompile (woff ()), body ()) ];
            emit_now bigend true [ (mk version f64 asz (UType (big (), woff ())) (woff ()), body ()) ]
          end) [2; 3; 4; 5]) [1; 2; 4; 8]) [false; true]) [false; true];
      sharded ~start:!count ~seed ~n emit0 (fun _ r ->
        let body () = bytes_of_ints (rand_bytes r (pick r [| 0; 1; 2; 7; 30 |])) in
        let bigend = rand_bool r in
        let types = rand_int r 3 = 0 in
        let nu = 1 + rand_int r 3 in
        let us = List.init nu (fun _ ->
          let rec pick_h () =
            let (h, t) = gen_uheader r in
            (* before DWARF 5 the section fixes the kind *)
            if z_of_n h.uh_version = Z.of_int 5 || t = types then h else pick_h () in
          let h = pick_h () in
          let w = if h.uh_fmt64 then 64 else 32 in
          ({ h with uh_abbrev_off = n_of_z (biased_below r (p2 w)) }, body ())) in
        emit_units bigend types us; take ()));

  register "c02.headerbytes"
    ~doc:"malformed unit sections: every version 0..7 and 0xffff, every unit-type byte 0..8/0x80/0xff, address sizes 0..9/16/255, reserved initial lengths 0xfffffff0..0xfffffffe, lengths shorter than the header / longer than the section / 2^64-1, truncation at every byte, byte flips, random bytes"
    (fun ~seed ~n emit ->
      let r = mk_rng seed in
      let run bigend types sec =
        both emit (hdr_case "c02.headerbytes" bigend types sec) (fun dbg -> hdr_model dbg bigend types sec) in
      let ints = bytes_of_ints in
      let put be v nbytes = let l = List.init nbytes (fun k -> Z.to_int (Z.logand (Z.shift_right v (8 * k)) (Z.of_int 255))) in
        if be then List.rev l else l in
      (* hand-assembled header: length, version, ut, asz, abbrev offset, then `extra` *)
      let asm be f64 ?len version ut asz extra =
        let w = if f64 then 8 else 4 in
        let fields = put be (Z.of_int version) 2
          @ (if version = 5 then [ut; asz] @ put be (Z.of_int 9) w else put be (Z.of_int 9) w @ [asz]) @ extra in
        let len = match len with Some l -> l | None -> Z.of_int (List.length fields) in
        (if f64 then put be (Z.of_string "4294967295") 4 @ put be len 8 else put be len 4) @ fields in
      List.iter (fun be -> List.iter (fun f64 ->
        List.iter (fun v -> run be false (ints (asm be f64 v 1 4 [1; 2; 3]))) [0; 1; 2; 3; 4; 5; 6; 7; 0xffff; 0x0500; 0x0200];
        List.iter (fun ut -> List.iter (fun types ->
          run be types (ints (asm be f64 5 ut 4 (List.init 17 (fun i -> i))));
          run be types (ints (asm be f64 5 ut 4 (List.init 9 (fun i -> i))));
          run be types (ints (asm be f64 5 ut 4 [])))
          [false; true]) [0; 1; 2; 3; 4; 5; 6; 7; 8; 0x80; 0xff];
        List.iter (fun asz -> run be false (ints (asm be f64 4 1 asz [0]));
                              run be false (ints (asm be f64 5 1 asz [0])))
          [0; 1; 2; 3; 4; 5; 6; 7; 8; 9; 16; 255];
        List.iter (fun l -> run be false (ints (asm be f64 ~len:(Z.of_string l) 4 1 4 [0; 0; 0; 0])))
          [ "0"; "1"; "2"; "6"; "7"; "8"; "10"; "11"; "12"; "100"; "4294967279"; "4294967280"; "4294967281"; "4294967294";
            "4294967295"; "4294967296"; "18446744073709551615"; "9223372036854775808" ])
        [false; true]) [false; true];
      List.iter (fun be -> List.iter (fun v ->
        run be false (ints (put be (Z.of_string v) 4 @ List.init 20 (fun i -> i))))
        [ "4294967280"; "4294967281"; "4294967290"; "4294967294"; "4294967295" ]) [false; true];
      for _ = 1 to n do
        let (h, types) = gen_uheader r in
        let bigend = rand_bool r in
        let sec = Array.of_list (List.map int_of_byte
          (enc_unit bigend h (bytes_of_ints (rand_bytes r (rand_int r 6)))
           @ (if rand_bool r then enc_unit bigend (fst (gen_uheader r)) [] else []))) in
        let len = Array.length sec in
        let sec = match rand_int r 6 with
          | 0 | 1 -> Array.sub sec 0 (rand_int r (len + 1))
          | 2 -> let c = Array.copy sec in c.(rand_int r len) <- rand_int r 256; c
          | 3 -> let c = Array.copy sec in c.(rand_int r (min len 24)) <- pick r [| 0; 1; 5; 6; 0xff; 0xf0; 8; 3 |]; c
          | 4 -> Array.of_list (rand_bytes r (rand_int r 30))
          | _ -> sec in
        run bigend (if rand_int r 4 = 0 then not types else types) (bytes_of_ints (Array.to_list sec))
      done)

(* ---- forests ---- *)
let () =
  register "c02.forest"
    ~doc:"well-formed units written by the spec encoder enc_forest: random trees, deep chains (to 300), combs, 0..200 siblings, empty child lists, several top-level entries, null padding; every unit kind / version 2-5 / format / address size / byte order; DW_AT_sibling on none / all / a random subset of abbreviations at any attribute position, widths ref1/2/4/8; abbreviation code schemes sequential, reversed, permuted, sparse, gap, huge; attributes of 30 forms incl. indirect and implicit_const; every fourth unit is the shape on which a wrong depth after the DW_AT_sibling fast path shows (a child without sibling pointer whose subtree holds a has-children entry with one, following siblings, nested up to 4 levels). Expected = preorder of Spec/Forest.v, every navigation style; the partial traversals (tokens skip = tree iterator, walk = cloned cursors) under two selection strategies per unit (skip subtrees / stop after 0, 1, 2 children / the on-purpose ones: do not descend into, or leave after the first child, every entry that has children but no DW_AT_sibling), expected = sel_tree / sel_list of Spec/ForestSel.v"
    (fun ~seed ~n emit ->
      sharded ~seed ~n emit (fun i r ->
        let trap = i mod 4 = 3 in
        let u = gen_wellformed ~trap r ~size:(match rand_int r 8 with 0 | 1 | 2 -> 0 | 3 -> 2 | _ -> 1) in
        (* strategy key: never 0; the on-purpose strategies (1, 2 mod 4) on three quarters of the trap shapes *)
        let key = 1 + rand_int r 1000000 in
        let key = if trap && i mod 16 <> 15 then (key land (lnot 3)) lor (1 + rand_int r 2) else key in
        let spec = lazy (spec_line ~key u) in      (* does not depend on the build mode *)
        (case_line ~key "c02.forest" u.bigend u.types u.info u.abbrev, fun dbg ->
          let spec = Lazy.force spec in
          let m = model_line ~nav:false ~key dbg u.bigend u.types u.info u.abbrev in
          if m = spec then spec else "model-inconsistent " ^ first_diff m spec)));

  register "c02.nav"
    ~doc:"small units with one defect, every navigation style printed in full from every byte offset: DW_AT_sibling values pointing backwards / at the entry itself / mid-entry / past a sibling / out of range / 2^32-1 with forms ref1/2/4/8/ref_addr/data4/udata, abbreviation codes missing from the table, truncated bodies (missing terminators), premature and surplus null entries, byte flips in body, header and abbreviations, empty units, duplicate abbreviation codes"
    (fun ~seed ~n emit ->
      sharded ~seed ~n emit (fun _ r ->
      let result = ref None in
      let run bigend types info abbrev =
        let key = 1 + rand_int r 1000000 in
        result := Some (case_line ~key "c02.nav" bigend types info abbrev, fun dbg ->
          model_line ~nav:true ~key dbg bigend types info abbrev) in
      let mut_bytes (l : Byte0.byte list) : Byte0.byte list =
        let a = Array.of_list (List.map int_of_byte l) in
        let len = Array.length a in
        if len = 0 then l else begin
          (match rand_int r 3 with
           | 0 -> a.(rand_int r len) <- rand_int r 256
           | 1 -> a.(rand_int r len) <- 0
           | _ -> let i = rand_int r len in a.(i) <- a.(i) lxor (1 lsl rand_int r 8));
          bytes_of_ints (Array.to_list a)
        end in
      begin
        let (h0, types) = gen_uheader r in
        let bigend = rand_bool r in
        let e = { version = h0.uh_version; fmt64 = h0.uh_fmt64; address_size = h0.uh_asize; be = bigend } in
        let defect = rand_int r 10 in
        let fake_sib = defect <= 3 in
        let kinds = Array.init (1 + rand_int r 3) (fun _ ->
          let k = gen_kind r ~sib:(if fake_sib then 0 else rand_int r 3) in
          let k = { k with ktmpl = List.filteri (fun i _ -> i < 3) k.ktmpl } in
          if fake_sib && rand_int r 3 <> 0 then
            { k with ktmpl = TF (pick r [| F_ref4; F_ref4; F_ref1; F_ref2; F_ref8; F_ref_addr; F_data4; F_ref4 |]) :: k.ktmpl }
          else k) in
        let (g, pad) = gen_forest r e kinds ~size:0 in
        (* pass 1: layout with placeholder sibling values *)
        let u0 = build_unit r ~scheme:(rand_int r 4) h0 types bigend (to_tree e (fun _ _ -> Z.zero) g) pad in
        let hl = header_len u0.hdr in
        let offs = Array.of_list (List.filter_map (function
          | E (d, _, sibs, sub) -> Some (z_of_n d.d_offset, sibs, sub) | Nl _ -> None) (walk u0.codes hl 0 u0.forest)) in
        let unit_end = Z.add (z_of_n hl) (Z.of_int (List.length u0.body)) in
        let fake i c =
          let (off, sibs, sub) = offs.(i) in
          let after = List.fold_left (fun _ (o, _) -> o) off sub in   (* last entry of the subtree *)
          match c with
          | 0 -> Z.zero | 1 -> off | 2 -> Z.pred off | 3 -> Z.succ off
          | 4 -> (match sibs with s :: _ -> s | [] -> unit_end)           (* plausible: next sibling / end *)
          | 5 -> (match sibs with _ :: s :: _ -> s | _ -> unit_end)       (* skips a sibling *)
          | 6 -> unit_end | 7 -> Z.succ unit_end | 8 -> Z.pred (p2 32)
          | 9 -> Z.succ after                                             (* mid-entry, inside the subtree *)
          | 10 -> if Array.length offs > 0 then (let (o, _, _) = offs.(rand_int r (Array.length offs)) in o) else Z.zero
          | _ -> Z.add off (Z.of_int (rand_int r 40)) in
        let u = if fake_sib then build_unit r ~scheme:0 h0 types bigend (to_tree e fake g) pad else u0 in
        let rebuild body = enc_unit bigend u.hdr body in
        let nb = List.length u.body in
        (match defect with
         | 0 | 1 | 2 | 3 -> run bigend types u.info u.abbrev
         | 4 -> (* truncated body, length fixed *)
           run bigend types (rebuild (List.filteri (fun i _ -> i < rand_int r (nb + 1)) u.body)) u.abbrev
         | 5 -> (* a declaration dropped / abbreviation bytes mutated *)
           if rand_bool r then run bigend types u.info (mut_bytes u.abbrev)
           else begin
             let decls = forest_abbrevs u.codes u.forest in
             let drop = rand_int r (max 1 (List.length decls)) in
             run bigend types (enc_unit bigend { u.hdr with uh_abbrev_off = BinNums.N0 } u.body)
               (enc_abbrevs (List.filteri (fun i _ -> i <> drop) decls))
           end
         | 6 -> run bigend types (rebuild (mut_bytes u.body)) u.abbrev
         | 7 -> (* surplus / premature nulls *)
           let i = rand_int r (nb + 1) in
           let z = bytes_of_ints (List.init (1 + rand_int r 3) (fun _ -> 0)) in
           run bigend types (rebuild (List.filteri (fun j _ -> j < i) u.body @ z @ List.filteri (fun j _ -> j >= i) u.body)) u.abbrev
         | 8 -> (* empty unit, only nulls, header mutated *)
           (match rand_int r 3 with
            | 0 -> run bigend types (rebuild []) u.abbrev
            | 1 -> run bigend types (rebuild (bytes_of_ints (List.init (1 + rand_int r 3) (fun _ -> 0)))) u.abbrev
            | _ -> run bigend types (mut_bytes u.info) u.abbrev)
         | _ -> (* duplicate code in the table *)
           let decls = forest_abbrevs u.codes u.forest in
           run bigend types (enc_unit bigend { u.hdr with uh_abbrev_off = BinNums.N0 } u.body)
             (enc_abbrevs (decls @ (match decls with d :: _ -> [d] | [] -> []))))
      end;
      match !result with Some x -> x | None -> failwith "c02.nav: no case"));

  register "c02.rawnew"
    ~doc:"EntriesRaw::new(input, encoding, abbreviations, offset) with arbitrary start offsets (documented: `offset` may be any value): offsets near 2^64 make `offset + input.len()` overflow — a panic under overflow checks, wrapping otherwise; entries then read with read_entry"
    (fun ~seed ~n emit ->
      sharded ~seed ~n emit (fun i r ->
        let u = gen_wellformed r ~size:0 in
        let nb = List.length u.body in
        let off = match i mod 6 with
          | 0 -> z_of_n (header_len u.hdr) | 1 -> Z.zero | 2 -> u64max
          | 3 -> Z.sub two64 (Z.of_int nb) | 4 -> Z.sub u64max (Z.of_int nb) | _ -> boundary_z64 r in
        let tblbytes = u.abbrev in
        let aoff = u.hdr.uh_abbrev_off in
        (spf "c02.rawnew %d %s %s %s %s %s %s %s" (b01 u.bigend) (sn u.enc.version) (string_of_int (b01 u.enc.fmt64))
                     (sn u.enc.address_size) (Z.to_string off) (hex_of_bytes u.body) (hex_of_bytes tblbytes) (sn aoff),
          fun dbg ->
            try
              let tbl = must (AbbrevRd.abbreviations_at dbg tblbytes aoff) in
              let raw = must (DieRd.raw_new dbg u.body (n_of_z off)) in
              let (l, err) = must (DieRd.raw_loop (S (nat_of_int nb)) dbg u.enc tbl raw) in
              "ok " ^ with_err ";" (List.map show_die l) err
            with Stop s -> s)));

  register "c02.corpus"
    ~doc:"every unit of the compiler-built corpus (gcc/clang, DWARF 2-5, 64-bit, split/dwo, type units): all navigation styles agree with the raw entry sequence (harness oracle); exhaustive over the corpus"
    (fun ~seed:_ ~n:_ emit ->
      let vs = try Sys.readdir (corpus_dir ()) with _ -> [||] in
      Array.sort compare vs;
      Array.iter (fun v -> emit (spf "c02.corpus %s" v) "ok" "ok") vs)

let init () = ()
