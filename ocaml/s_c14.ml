(* s_c14.ml — streams for C14 (write::FrameTable). Model side: extracted CfiWr; the unwind rows in the expected
   column of c14.rows (and of the regression streams) come from the extracted script machine CfaScriptSpec. *)
open Conv
open Streams
module W = CfiWr
module S = CfaEncSpec

(* ---------------- abstract scripts ---------------- *)
type insn =
  | ICfa of int * int | ICfaRegister of int | ICfaOffset of int | ICfaExpr of int list
  | IRestore of int | IUndefined of int | ISameValue of int | IOffset of int * int | IValOffset of int * int
  | IRegister of int * int | IExpr of int * int list | IValExpr of int * int list
  | IRemember | IRestoreState | IArgsSize of int | INegateRa

type addr = Const of Z.t | Sym of int * int

type cie = { fmt64 : bool; ver : int; asz : int; caf : int; daf : int; ra : int;
             pers : (int * addr) option; lsda_enc : int option; fenc : int; sigt : bool; cinsns : insn list }
type fde = { k : int; faddr : addr; flen : int; flsda : addr option; finsns : (int * insn) list }
type op = Cie of cie | Fde of fde
type script = { be : bool; eh : bool; pre : int; vendor : int; ops : op list }

(* ---- tokens ---- *)
let tok_insn = function
  | ICfa (r, o) -> Printf.sprintf "0 %d %d" r o
  | ICfaRegister r -> Printf.sprintf "1 %d" r
  | ICfaOffset o -> Printf.sprintf "2 %d" o
  | ICfaExpr e -> "3 " ^ hex_of_ints e
  | IRestore r -> Printf.sprintf "4 %d" r
  | IUndefined r -> Printf.sprintf "5 %d" r
  | ISameValue r -> Printf.sprintf "6 %d" r
  | IOffset (r, o) -> Printf.sprintf "7 %d %d" r o
  | IValOffset (r, o) -> Printf.sprintf "8 %d %d" r o
  | IRegister (a, b) -> Printf.sprintf "9 %d %d" a b
  | IExpr (r, e) -> Printf.sprintf "10 %d %s" r (hex_of_ints e)
  | IValExpr (r, e) -> Printf.sprintf "11 %d %s" r (hex_of_ints e)
  | IRemember -> "12" | IRestoreState -> "13"
  | IArgsSize n -> Printf.sprintf "14 %d" n
  | INegateRa -> "15"
let tok_addr = function
  | Const v -> "1 " ^ Z.to_string v
  | Sym (s, a) -> Printf.sprintf "2 %d %d" s a
let tok_op = function
  | Cie c ->
      String.concat " " ([ "1"; (if c.fmt64 then "1" else "0"); string_of_int c.ver; string_of_int c.asz;
                           string_of_int c.caf; string_of_int c.daf; string_of_int c.ra;
                           (match c.pers with None -> "0"
                                            | Some (e, Const v) -> Printf.sprintf "1 %d %s" e (Z.to_string v)
                                            | Some (e, Sym (s, a)) -> Printf.sprintf "2 %d %d %d" e s a);
                           (match c.lsda_enc with None -> "0" | Some e -> Printf.sprintf "1 %d" e);
                           string_of_int c.fenc; (if c.sigt then "1" else "0");
                           string_of_int (List.length c.cinsns) ] @ List.map tok_insn c.cinsns)
  | Fde f ->
      String.concat " " ([ "2"; string_of_int f.k; tok_addr f.faddr; string_of_int f.flen;
                           (match f.flsda with None -> "0" | Some a -> tok_addr a);
                           string_of_int (List.length f.finsns) ]
                         @ List.map (fun (o, i) -> string_of_int o ^ " " ^ tok_insn i) f.finsns)
let tok_script name s =
  String.concat " " ([ name; (if s.be then "1" else "0"); (if s.eh then "1" else "0"); string_of_int s.pre;
                       string_of_int s.vendor; string_of_int (List.length s.ops) ] @ List.map tok_op s.ops)

(* ---- to the extracted model ---- *)
let m_insn : insn -> S.cfi = function
  | ICfa (r, o) -> S.Cfa (n_of_int r, cz_of_int o)
  | ICfaRegister r -> S.CfaRegister (n_of_int r)
  | ICfaOffset o -> S.CfaOffset (cz_of_int o)
  | ICfaExpr e -> S.CfaExpression (bytes_of_ints e)
  | IRestore r -> S.Restore (n_of_int r)
  | IUndefined r -> S.Undefined (n_of_int r)
  | ISameValue r -> S.SameValue (n_of_int r)
  | IOffset (r, o) -> S.Offset (n_of_int r, cz_of_int o)
  | IValOffset (r, o) -> S.ValOffset (n_of_int r, cz_of_int o)
  | IRegister (a, b) -> S.Register (n_of_int a, n_of_int b)
  | IExpr (r, e) -> S.Expression (n_of_int r, bytes_of_ints e)
  | IValExpr (r, e) -> S.ValExpression (n_of_int r, bytes_of_ints e)
  | IRemember -> S.RememberState | IRestoreState -> S.RestoreState
  | IArgsSize n -> S.ArgsSize (n_of_int n)
  | INegateRa -> S.NegateRaState
let m_addr = function Const v -> W.AConst (n_of_z v) | Sym (s, a) -> W.ASym (n_of_int s, cz_of_int a)
let m_cie (c : cie) : W.cie =
  { W.c_fmt64 = c.fmt64; c_version = n_of_int c.ver; c_asize = n_of_int c.asz; c_caf = n_of_int c.caf;
    c_daf = cz_of_int c.daf; c_ra = n_of_int c.ra;
    c_pers = (match c.pers with None -> None | Some (e, a) -> Some (n_of_int e, m_addr a));
    c_lsda_enc = (match c.lsda_enc with None -> None | Some e -> Some (n_of_int e));
    c_fde_enc = n_of_int c.fenc; c_sig = c.sigt; c_insns = List.map m_insn c.cinsns }
let m_fde (f : fde) : W.fde =
  { W.f_addr = m_addr f.faddr; f_len = n_of_int f.flen;
    f_lsda = (match f.flsda with None -> None | Some a -> Some (m_addr a));
    f_insns = List.map (fun (o, i) -> (n_of_int o, m_insn i)) f.finsns }
let m_ops ops = List.map (function Cie c -> W.BAddCie (m_cie c) | Fde f -> W.BAddFde (nat_of_int f.k, m_fde f)) ops

let run_model dbg s = W.build_and_write dbg s.be s.eh (n_of_int s.pre) (m_ops s.ops)

let sharp_expected s dbg =
  let nf = List.length (List.filter (function Fde _ -> true | _ -> false) s.ops) in
  show_res (fun ((bs, ids), ncies) ->
      let ids = List.map int_of_nat ids in
      let canon = List.mapi (fun j id ->
          let rec first i = function [] -> j | x :: r -> if x = id then i else first (i + 1) r in
          first 0 ids) ids in
      Printf.sprintf "%s %d %d %s" (hex_of_bytes bs) (int_of_nat ncies) nf
        (if canon = [] then "-" else String.concat "," (List.map string_of_int canon)))
    (run_model dbg s)

(* ---------------- the unwind rows: the EXTRACTED script machine (Spec/CfaScriptSpec.v) ----------------
   Property C14 (rows_by_script_areas / table_rows_read_by_reader) proves that the reader models over the writer
   model's bytes return exactly script_rows_lim; here the same Coq function, extracted, gives the expected rows for
   gimli's own reader over gimli's own bytes. Storage limits: UnwindContext::new() = StoreOnHeap (4 rows, 192 rules). *)
module X = CfaScriptSpec
let heap_caps = { CfaSpec.max_stack = Some (nat_of_int 4); CfaSpec.max_rules = Some (nat_of_int 192) }

let show_xrule = function
  | X.XUndefined -> "u" | X.XSameValue -> "s"
  | X.XOffset o -> "o" ^ string_of_cz o | X.XValOffset o -> "v" ^ string_of_cz o
  | X.XRegister r -> "r" ^ string_of_n r
  | X.XExpression e -> "e" ^ hex_of_bytes e | X.XValExpression e -> "x" ^ hex_of_bytes e
  | X.XConstant c -> "c" ^ string_of_n c
let show_xrow (r : X.xrow) =
  let cfa = match r.X.xr_cfa with
    | X.XCfaRegOff (g, o) -> Printf.sprintf "r%s+%s" (string_of_n g) (string_of_cz o)
    | X.XCfaExpr e -> "e" ^ hex_of_bytes e in
  let rules = List.sort compare (List.map (fun (g, v) -> (int_of_n g, show_xrule v)) r.X.xr_rules) in
  let rs = if rules = [] then "-" else String.concat "," (List.map (fun (g, v) -> Printf.sprintf "%d=%s" g v) rules) in
  Printf.sprintf "%s-%s/%s/%s/%s" (string_of_n r.X.xr_start) (string_of_n r.X.xr_end) cfa rs (string_of_n r.X.xr_args)

let rows_of ~vendor (c : cie) (addr : Z.t) (f : fde) : string =
  let (rows, o) =
    X.script_rows_lim heap_caps (vendor = 1) (n_of_int c.asz) (n_of_z addr) (n_of_int f.flen)
      (List.map m_insn c.cinsns) (List.map (fun (o, i) -> (n_of_int o, m_insn i)) f.finsns) in
  let tail = match o with
    | CfaSpec.Done -> []
    | CfaSpec.Fail e -> [ "!" ^ Errnames.name e ]
    | CfaSpec.Crash -> [ "!panic" ]
    | CfaSpec.Fuel -> [ "!outoffuel" ] in
  String.concat "|" (List.map show_xrow rows @ tail)

let show_ptr enc (a : Z.t) = (if enc land 0x80 <> 0 then "I" else "D") ^ Z.to_string a

(* what a reader must see: each referenced CIE once, before its first FDE; then the FDEs in order *)
let oracle_expected s =
  let asz_mask c = Z.pred (Z.shift_left Z.one (8 * c.asz)) in
  let cies = ref [] (* distinct CIEs in add order *) and ids = ref [] in
  let emitted = ref [] (* table index, in emission order *) in
  let out = Buffer.create 256 in
  Buffer.add_string out "ok";
  List.iter (function
      | Cie c ->
          let rec find i = function [] -> None | x :: r -> if x = c then Some i else find (i + 1) r in
          (match find 0 !cies with
           | Some i -> ids := !ids @ [i]
           | None -> ids := !ids @ [List.length !cies]; cies := !cies @ [c])
      | Fde f ->
          let idx = List.nth !ids f.k in
          let c = List.nth !cies idx in
          if not (List.mem idx !emitted) then begin
            emitted := !emitted @ [idx];
            let aug =
              if c.pers = None && c.lsda_enc = None && not c.sigt && c.fenc = 0 then "-" else
                "z" ^ (match c.lsda_enc with Some e -> Printf.sprintf "L%d" e | None -> "")
                ^ (match c.pers with
                   | Some (e, Const v) -> Printf.sprintf "P%d.%s" e (show_ptr e (Z.logand v (asz_mask c)))
                   | Some (e, Sym _) -> "P?" | None -> "")
                ^ (if c.fenc <> 0 then Printf.sprintf "R%d" c.fenc else "")
                ^ (if c.sigt then "S" else "") in
            Buffer.add_string out (Printf.sprintf " C:%d:v%d:a%d:c%d:d%d:r%d:%s"
                                     (if c.fmt64 then 64 else 32) c.ver c.asz c.caf c.daf c.ra aug)
          end;
          let cpos = let rec p i = function [] -> -1 | x :: r -> if x = idx then i else p (i + 1) r in p 0 !emitted in
          let a = match f.faddr with Const v -> Z.logand v (asz_mask c) | Sym _ -> Z.zero in
          let lsda = match f.flsda, c.lsda_enc with
            | Some (Const v), Some e -> show_ptr e (Z.logand v (asz_mask c))
            | Some (Const v), None -> "D" ^ Z.to_string v        (* what the caller asked for; gimli has no encoding for it *)
            | _ -> "-" in
          Buffer.add_string out (Printf.sprintf " F:%d:%s:%d:%s:%s" cpos (Z.to_string a) f.flen lsda
                                   (rows_of ~vendor:s.vendor c a f))) s.ops;
  Buffer.contents out

let show_class_err r = match r with
  | Res.Ok _ -> "ok" | Res.Err e -> "err " ^ Errnames.name e | Res.Panic -> "panic" | Res.OutOfFuel -> "outoffuel"

(* Every shard process regenerates the whole stream and the driver keeps every nshards-th case: evaluate the
   model (and print the case) only for the cases of this shard; the others are emitted empty and dropped by the
   driver. The counter advances exactly like the driver's. *)
let shard, nshards =
  match Array.to_list Sys.argv with
  | _ :: "gen" :: _ :: _ :: _ :: a :: b :: _ -> (try (int_of_string a, int_of_string b) with _ -> (0, 1))
  | _ -> (0, 1)
let ctr = ref 0
let both_s (emit : emit) (case : unit -> string) (f : bool -> string) =
  let mine = Streams.mine () in
  incr ctr;
  if mine then both emit (case ()) f else emit "" "" ""

let oracle_case emit name s =
  both_s emit (fun () -> tok_script name s) (fun dbg ->
      match run_model dbg s with
      | Res.Ok _ -> oracle_expected s
      | r -> show_class_err r)

(* ---------------- generators ---------------- *)
let cie0 = { fmt64 = false; ver = 1; asz = 4; caf = 1; daf = 1; ra = 16; pers = None; lsda_enc = None; fenc = 0;
             sigt = false; cinsns = [] }
let fde0 = { k = 0; faddr = Const (Z.of_int 0x1000); flen = 0x100; flsda = None; finsns = [] }
let simple ?(be = false) ?(eh = false) ?(pre = 0) ?(vendor = 0) c f = { be; eh; pre; vendor; ops = [ Cie c; Fde f ] }

let i32_min = -2147483648 and i32_max = 2147483647
let i32_bounds = [ i32_min; i32_min + 1; i32_min + 2; -65536; -32768; -129; -128; -65; -64; -63; -2; -1; 0; 1; 2; 63; 64;
                   65; 127; 128; 129; 255; 256; 16383; 16384; 65535; 65536; i32_max - 1; i32_max ]
let regs_bounds = [ 0; 1; 31; 62; 63; 64; 65; 127; 128; 129; 255; 256; 16383; 16384; 65534; 65535 ]
let blobs = [ []; [ 0x9c ]; [ 0x77; 0x08 ]; List.init 127 (fun i -> i); List.init 128 (fun i -> 255 - i);
              List.init 300 (fun i -> (i * 7) land 255) ]

let rand_i32 r =
  match rand_int r 6 with
  | 0 -> List.nth i32_bounds (rand_int r (List.length i32_bounds))
  | 1 -> rand_int r 4096 - 2048
  | 2 -> (rand_int r 512 - 256) * 8
  | 3 -> (rand_int r 65536 - 32768) * 4
  | 4 -> Int64.to_int (Int64.shift_right (next64 r) 32)
  | _ -> rand_int r 257 - 128
let rand_reg r =
  match rand_int r 5 with
  | 0 -> List.nth regs_bounds (rand_int r (List.length regs_bounds))
  | 1 -> rand_int r 65536
  | _ -> rand_int r 40
let rand_blob r =
  match rand_int r 8 with
  | 0 -> List.nth blobs (rand_int r (List.length blobs))
  | _ -> rand_bytes r (rand_int r 6)

let novendor = ref false
let rec rand_insn ?(small = false) r =
  let reg () = if small then (if rand_int r 6 = 0 then List.nth regs_bounds (rand_int r (List.length regs_bounds)) else rand_int r 12) else rand_reg r in
  match rand_int r 19 with
  | 0 -> ICfa (reg (), rand_i32 r) | 1 -> ICfaRegister (reg ()) | 2 -> ICfaOffset (rand_i32 r)
  | 3 -> ICfaExpr (rand_blob r) | 4 -> IRestore (reg ()) | 5 -> IUndefined (reg ()) | 6 -> ISameValue (reg ())
  | 7 | 16 | 17 -> IOffset (reg (), rand_i32 r) | 8 | 18 -> IValOffset (reg (), rand_i32 r)
  | 9 -> IRegister (reg (), reg ()) | 10 -> IExpr (reg (), rand_blob r) | 11 -> IValExpr (reg (), rand_blob r)
  | 12 -> IRemember | 13 -> IRestoreState
  | 14 -> IArgsSize (match rand_int r 4 with 0 -> 0 | 1 -> 4294967295 | 2 -> rand_int r 200 | _ -> Int64.to_int (Int64.shift_right_logical (next64 r) 32))
  | _ -> if small && !novendor && rand_int r 10 > 0 then rand_insn ~small r else INegateRa

(* make the offsets of an instruction representable under the CIE most of the time *)
let align_insn ?(p = 8) r daf i =
  if daf = 0 || rand_int r p = 0 then i else
  let al o = let q = o / daf in let v = q * daf in if v < i32_min || v > i32_max then o else v in
  match i with
  | ICfa (g, o) when o < 0 -> ICfa (g, al o)
  | ICfaOffset o when o < 0 -> ICfaOffset (al o)
  | IOffset (g, o) -> IOffset (g, al o)
  | IValOffset (g, o) -> IValOffset (g, al o)
  | x -> x

let supported_enc = [| 0x00; 0x01; 0x02; 0x03; 0x04; 0x09; 0x0a; 0x0b; 0x0c; 0x10; 0x11; 0x12; 0x13; 0x14; 0x19; 0x1a; 0x1b; 0x1c;
                       0x80; 0x83; 0x8b; 0x90; 0x9b; 0x9c |]
let safe_enc = [| 0x00; 0x01; 0x03; 0x04; 0x09; 0x0b; 0x0c; 0x1b; 0x1c; 0x19; 0x80; 0x9b; 0x8b; 0x11 |]
let rand_enc ?(valid = false) r =
  if valid && rand_int r 6 <> 0 then pick r safe_enc
  else if valid || rand_int r 8 <> 0 then pick r supported_enc
  else pick r [| 0x05; 0x08; 0x0f; 0x20; 0x30; 0x40; 0x50; 0xff; 0x2b; 0x7b; 0x60; 0x70 |]

let rand_addr ?(valid = false) r asz =
  if (not valid) && rand_int r 30 = 0 then Sym (rand_int r 5, rand_int r 100 - 50) else
  let bits = 8 * (if asz = 8 then 8 else if asz >= 4 then 4 else if asz < 1 then 1 else asz) in
  let top = Z.shift_left Z.one bits in
  Const (match rand_int r 8 with
      | 0 -> Z.zero
      | 1 -> Z.pred top
      | 2 -> Z.shift_right top 1
      | 3 | 5 | 6 when valid -> Z.of_int (0x1000 + rand_int r 0x3fffffff)
      | 3 -> Z.logand (rand_z64 r) (Z.pred (Z.shift_left Z.one 64))
      | 4 -> Z.of_int (rand_int r 256)
      | _ -> Z.rem (rand_z64 r) (Z.shift_right top (if valid then 2 else 0)))

(* increasing instruction offsets crossing the advance_loc width boundaries, in units of caf *)
let rand_offsets r caf n ~strict =
  let unit = if caf = 0 then 1 else caf in
  let cur = ref 0 in
  List.init n (fun _ ->
      let d = match rand_int r 12 with
        | 0 | 1 | 2 -> 0
        | 3 -> 0x3f | 4 -> 0x40 | 5 -> 0xff | 6 -> 0x100 | 7 -> if strict then 0x101 else 0xffff
        | 8 -> if strict then 0x41 else 0x10000
        | 9 -> rand_int r 0x120
        | _ -> 1 + rand_int r 8 in
      let step = d * unit + (if (not strict) && rand_int r 25 = 0 then 1 else 0) in
      let next = !cur + step in
      let next = if next > 0xffffffff then !cur else next in
      if (not strict) && rand_int r 40 = 0 && !cur > 0 then (cur := !cur - 1 - rand_int r (min !cur 3)) else cur := next;
      !cur)

let rand_cie ?(valid = false) r ~eh ~asz =
  let fmt64 = rand_int r 3 = 0 in
  let ver = if eh then (if valid || rand_int r 10 <> 0 then 1 else pick r [| 0; 2; 3; 4; 5; 257 |])
    else if valid || rand_int r 10 <> 0 then pick r [| 1; 3; 4 |] else pick r [| 0; 2; 5; 6; 259; 65535 |] in
  let caf = match rand_int r 6 with 0 -> if valid then 1 else 0 | 1 -> 1 | 2 -> 4 | 3 -> 255 | 4 -> 2 | _ -> rand_int r 256 in
  let daf = match rand_int r 7 with 0 -> if valid then -4 else 0 | 1 -> -8 | 2 -> -4 | 3 -> 1 | 4 -> -128 | 5 -> 127 | _ -> rand_int r 256 - 128 in
  let daf = if valid && daf = 0 then 8 else daf in
  let ra = match rand_int r 6 with 0 -> pick r [| 0; 127; 128; 255; 256; 65535 |] | _ -> rand_int r 100 in
  let ra = if valid && ver = 1 && ra >= 256 then ra land 255 else ra in
  let pers = if rand_int r 3 = 0 then Some (rand_enc ~valid r, rand_addr ~valid r asz) else None in
  let lsda_enc = if rand_int r 3 = 0 then Some (rand_enc ~valid r) else None in
  let fenc = if rand_int r 3 = 0 then rand_enc ~valid r else 0 in
  let sigt = rand_int r 4 = 0 in
  let n = match rand_int r 4 with 0 -> 0 | 1 -> 1 | _ -> rand_int r 5 in
  let cinsns = List.init n (fun _ ->
      let i = rand_insn ~small:valid r in
      let i = if valid then (match i with IRestore g -> ISameValue g | IRemember | IRestoreState -> IArgsSize 8 | x -> x) else i in
      align_insn ~p:(if valid then 80 else 8) r daf i) in
  { fmt64; ver; asz; caf; daf; ra; pers; lsda_enc; fenc; sigt; cinsns }

let rand_fde ?(valid = false) r (c : cie) k =
  let n = match rand_int r 5 with 0 -> 0 | 1 -> 1 | _ -> rand_int r 10 in
  let offs = rand_offsets r c.caf n ~strict:valid in
  let depth = ref 0 in
  let finsns = List.map (fun o ->
      let i = align_insn ~p:(if valid then 80 else 8) r c.daf (rand_insn ~small:valid r) in
      let i = if valid then (match i with
          | IRemember -> if !depth >= 2 then IArgsSize 16 else (incr depth; IRemember)
          | IRestoreState -> if !depth = 0 || rand_int r 6 > 0 then (if !depth > 0 then (decr depth; IRestoreState) else ISameValue 3) else IRestoreState
          | x -> x) else i in
      (o, i)) offs in
  let faddr = rand_addr ~valid r c.asz in
  let faddr = if valid then (match faddr with Const v -> Const (Z.shift_right v 1) | x -> x) else faddr in
  let flen = match rand_int r 5 with 0 -> 0 | 1 -> 0x7fff | 2 -> rand_int r 0x10000 | 3 -> if valid then 0x1000 else 0xffffffff | _ -> rand_int r 0x1000 in
  let flsda =
    if valid then (match c.lsda_enc with Some _ -> Some (rand_addr ~valid r c.asz) | None -> None)
    else (match c.lsda_enc, rand_int r 12 with
        | Some _, 0 -> None | Some _, _ -> Some (rand_addr r c.asz)
        | None, 0 -> Some (rand_addr r c.asz) | None, _ -> None) in
  { k; faddr; flen; flsda; finsns }

let rand_table ?(valid = false) r =
  let vendor = if rand_int r 4 = 0 then 1 else 0 in
  novendor := (vendor = 0);
  let eh = rand_int r 3 = 0 in
  let asz = if valid || rand_int r 8 <> 0 then pick r [| 4; 8 |] else pick r [| 1; 2; 3; 5; 16; 32 |] in
  let ncie = 1 + rand_int r 3 in
  let base = Array.init ncie (fun _ -> rand_cie ~valid r ~eh ~asz) in
  let ops = ref [] and calls = ref [] in
  let add_cie c = ops := Cie c :: !ops; calls := !calls @ [c] in
  add_cie base.(0);
  let steps = 1 + rand_int r 6 in
  for _ = 1 to steps do
    match rand_int r 4 with
    | 0 -> add_cie (pick r base)                     (* duplicates and new ones *)
    | _ ->
        let k = rand_int r (List.length !calls) in
        ops := Fde (rand_fde ~valid r (List.nth !calls k) k) :: !ops
  done;
  { be = rand_bool r; eh; pre = (if valid || rand_int r 3 > 0 then 0 else pick r [| 1; 3; 8; 100 |]);
    vendor; ops = List.rev !ops }


(* ---------------- streams ---------------- *)
let sharp emit name s = both_s emit (fun () -> tok_script name s) (sharp_expected s)

let () =
  register "c14.factor" ~doc:"factored_data_offset / factored_code_delta through one-instruction tables: every i8 factor x small offsets x 4 instruction kinds, every u8 factor x small deltas, i32/u32 boundaries"
    (fun ~seed ~n emit ->
      let name = "c14.factor" in
      let kinds o = [ IOffset (3, o); IValOffset (70, o); ICfa (7, o); ICfaOffset o ] in
      for daf = -128 to 127 do
        let c = { cie0 with daf } in
        for o = -20 to 20 do
          List.iteri (fun j i ->
              if j = 0 || o < 0 || daf land 7 = 0 then
                sharp emit name (simple c { fde0 with finsns = [ (0, i) ] })) (kinds o)
        done;
        (* boundaries of i32 and of the quotient *)
        let near = List.concat_map (fun q -> [ q * daf; q * daf + 1; q * daf - 1 ])
            (if daf = 0 then [] else [ i32_max / daf; i32_min / daf; (i32_max / daf) - 1; 16777216 / daf ]) in
        List.iter (fun o ->
            if o >= i32_min && o <= i32_max then begin
              sharp emit name (simple c { fde0 with finsns = [ (0, IOffset (1, o)) ] });
              sharp emit name (simple { c with cinsns = [ ICfa (7, o) ] } fde0)
            end) (i32_bounds @ near)
      done;
      for caf = 0 to 255 do
        let c = { cie0 with caf } in
        for d = 0 to 66 do
          sharp emit name (simple c { fde0 with finsns = [ (d, IRemember) ] })
        done;
        List.iter (fun d ->
            if d >= 0 && d <= 0xffffffff then begin
              sharp emit name (simple c { fde0 with finsns = [ (d, IRemember) ] });
              if d >= 7 then sharp emit name (simple c { fde0 with finsns = [ (7, INegateRa); (d, IRemember) ] })
            end)
          [ 0xffffffff; 0xfffffffe; 0x80000000; 0x7fffffff; 0xffffffff / (max caf 1) * caf; 0xffffffff / (max caf 1) * caf - 1;
            65536 * caf; 65535 * caf + 7; 256 * caf + 7 ]
      done;
      let r = mk_rng seed in
      for _ = 1 to n do
        let daf = rand_int r 256 - 128 and caf = rand_int r 256 in
        let c = { cie0 with daf; caf; fmt64 = rand_bool r } in
        let o = rand_i32 r in
        let o = if daf <> 0 && rand_bool r then (let v = o / daf * daf in if v < i32_min || v > i32_max then o else v) else o in
        let i = List.nth (kinds o) (rand_int r 4) in
        let prev = rand_int r 1000 in
        let d = match rand_int r 3 with 0 -> rand_int r 70 * caf | 1 -> rand_int r 70000 | _ -> rand_int r 300 * caf + rand_int r 2 in
        sharp emit name (simple ~be:(rand_bool r) c { fde0 with finsns = [ (prev, IRestoreState); (prev + d, i) ] })
      done);
  register "c14.advance" ~doc:"write_advance_loc: every u8 code factor x deltas around 0x3f/0x40, 0xff/0x100, 0xffff/0x10000, u32::MAX, on and off alignment, decreasing offsets, both byte orders"
    (fun ~seed ~n emit ->
      let name = "c14.advance" in
      let ds = [ 0; 1; 2; 0x3e; 0x3f; 0x40; 0x41; 0x7f; 0x80; 0xfe; 0xff; 0x100; 0x101; 0x7fff; 0x8000; 0xfffe; 0xffff; 0x10000; 0x10001;
                 0xffffff; 0x1000000 ] in
      for caf = 0 to 255 do
        let c = { cie0 with caf } in
        List.iter (fun d ->
            List.iter (fun prev ->
                List.iter (fun mis ->
                    let off = prev + d * (max caf 1) + mis in
                    if off <= 0xffffffff && (mis = 0 || caf <> 1) then
                      List.iter (fun be ->
                          sharp emit name
                            (simple ~be c { fde0 with finsns = (if prev = 0 then [] else [ (prev, ISameValue 1) ]) @ [ (off, IUndefined 2) ] }))
                        (if d >= 0x100 then [ false; true ] else [ caf land 1 = 0 ])) [ 0; 1 ]) [ 0; 5 * caf ]) ds;
        (* decreasing and equal offsets *)
        sharp emit name (simple c { fde0 with finsns = [ (8 * caf, ISameValue 1); (7 * caf, IUndefined 2) ] });
        sharp emit name (simple c { fde0 with finsns = [ (8 * caf + 1, ISameValue 1); (0, IUndefined 2) ] });
        sharp emit name (simple c { fde0 with finsns = [ (8 * caf, ISameValue 1); (8 * caf, IUndefined 2) ] })
      done;
      let r = mk_rng seed in
      for _ = 1 to n do
        let caf = rand_int r 256 in
        let c = { cie0 with caf; fmt64 = rand_bool r; asz = pick r [| 4; 8 |] } in
        let offs = rand_offsets r caf (1 + rand_int r 6) ~strict:false in
        sharp emit name (simple ~be:(rand_bool r) ~eh:(rand_bool r) c
                           { fde0 with finsns = List.map (fun o -> (o, pick r [| IRemember; ISameValue 5; INegateRa |])) offs })
      done);
  register "c14.insn" ~doc:"CallFrameInstruction::write: every variant x register boundaries (0x3f/0x40, 0x7f/0x80, 0x3fff/0x4000, 0xffff) x i32 offset boundaries x data factors incl. 0; expression blobs of length 0/1/127/128/300; in CIE and FDE position"
    (fun ~seed ~n emit ->
      let name = "c14.insn" in
      let dafs = [ -8; -4; -1; 1; 2; 8; 0; -128; 127 ] in
      let place c i j = if j land 1 = 0 then simple c { fde0 with finsns = [ (0, i) ] } else simple { c with cinsns = [ i ] } fde0 in
      let j = ref 0 in
      List.iter (fun daf ->
          let c = { cie0 with daf } in
          List.iter (fun g ->
              List.iter (fun o ->
                  let os = if daf = 0 then [ o ] else
                      let v = o / daf * daf in if v <> o && v >= i32_min && v <= i32_max then [ o; v ] else [ o ] in
                  List.iter (fun o ->
                      List.iter (fun i -> incr j; sharp emit name (place c i !j))
                        [ ICfa (g, o); IOffset (g, o); IValOffset (g, o) ]) os) i32_bounds) regs_bounds;
          List.iter (fun o -> incr j; sharp emit name (place c (ICfaOffset o) !j)) i32_bounds) dafs;
      List.iter (fun g ->
          List.iter (fun i -> incr j; sharp emit name (place cie0 i !j))
            ([ ICfaRegister g; IRestore g; IUndefined g; ISameValue g ]
             @ List.map (fun h -> IRegister (g, h)) regs_bounds
             @ List.concat_map (fun e -> [ IExpr (g, e); IValExpr (g, e) ]) blobs)) regs_bounds;
      List.iter (fun e -> incr j; sharp emit name (place cie0 (ICfaExpr e) !j)) blobs;
      List.iter (fun i -> incr j; sharp emit name (place cie0 i !j); incr j; sharp emit name (place cie0 i !j))
        ([ IRemember; IRestoreState; INegateRa ] @ List.map (fun k -> IArgsSize k) [ 0; 1; 127; 128; 16383; 16384; 0x7fffffff; 0x80000000; 0xffffffff ]);
      let r = mk_rng seed in
      for _ = 1 to n do
        let daf = if rand_bool r then List.nth dafs (rand_int r 9) else rand_int r 256 - 128 in
        let c = { cie0 with daf; fmt64 = rand_bool r; ver = pick r [| 1; 3; 4 |]; asz = pick r [| 4; 8 |] } in
        let k = 1 + rand_int r 4 in
        let l = List.init k (fun _ -> align_insn r daf (rand_insn r)) in
        sharp emit name (if rand_bool r then simple ~be:(rand_bool r) { c with cinsns = l } fde0
                         else simple ~be:(rand_bool r) c { fde0 with finsns = List.map (fun i -> (0, i)) l })
      done);
  register "c14.entry" ~doc:"CIE/FDE headers: versions 0..5 x both sections x formats x address sizes 1,2,3,4,5,8,16 x instruction bytes 0..9 (padding sweep); all 256 pointer encodings in the personality, LSDA and FDE-address positions; return registers 0..300; symbols; prefilled writer"
    (fun ~seed ~n emit ->
      let name = "c14.entry" in
      List.iter (fun eh ->
          List.iter (fun ver ->
              List.iter (fun fmt64 ->
                  List.iter (fun asz ->
                      for k = 0 to 9 do
                        let ins = List.init k (fun _ -> IRemember) in
                        let c = { cie0 with ver; fmt64; asz; cinsns = ins } in
                        sharp emit name (simple ~eh ~be:(k land 1 = 1) c { fde0 with finsns = List.map (fun i -> (0, i)) (List.tl (IRemember :: ins)) })
                      done) [ 1; 2; 3; 4; 5; 8; 16 ]) [ false; true ]) [ 0; 1; 2; 3; 4; 5 ]) [ false; true ];
      (* every DW_EH_PE byte in each position *)
      List.iter (fun eh ->
          List.iter (fun asz ->
              for e = 0 to 255 do
                let a = Const (Z.of_int (0x12345 + e)) in
                let c = { cie0 with asz; ver = 1 } in
                sharp emit name (simple ~eh { c with pers = Some (e, a) } fde0);
                sharp emit name (simple ~eh { c with lsda_enc = Some e } { fde0 with flsda = Some a });
                sharp emit name (simple ~eh ~be:true { c with fenc = e } fde0);
                if e land 15 = 0 || e land 15 = 11 then
                  sharp emit name (simple ~eh ~pre:9 { c with fenc = e; pers = Some (e, Const Z.one); lsda_enc = Some e; sigt = true; fmt64 = true }
                                     { fde0 with flsda = Some (Const (Z.of_int 3)); faddr = Const (Z.of_int 40) })
              done) [ 4; 8 ]) [ false; true ];
      for ra = 0 to 300 do
        List.iter (fun (eh, ver) -> sharp emit name (simple ~eh { cie0 with ra; ver } fde0)) [ (false, 1); (false, 3); (true, 1) ]
      done;
      List.iter (fun ra -> sharp emit name (simple { cie0 with ra; ver = 4 } fde0)) [ 16383; 16384; 65535 ];
      (* symbols are not supported by the plain writer *)
      sharp emit name (simple cie0 { fde0 with faddr = Sym (1, 2) });
      sharp emit name (simple { cie0 with fenc = 0x1b } { fde0 with faddr = Sym (1, 2) });
      sharp emit name (simple { cie0 with pers = Some (0, Sym (0, 0)) } fde0);
      sharp emit name (simple { cie0 with pers = Some (0xff, Sym (0, 0)) } fde0);
      sharp emit name (simple { cie0 with lsda_enc = Some 0 } { fde0 with flsda = Some (Sym (3, -1)) });
      (* LSDA presence must agree with the CIE: debug_assert in checked builds *)
      sharp emit name (simple { cie0 with lsda_enc = Some 0 } fde0);
      sharp emit name (simple { cie0 with sigt = true } { fde0 with flsda = Some (Const Z.one) });
      sharp emit name (simple cie0 { fde0 with flsda = Some (Const Z.one) });
      (* no FDE: nothing is written *)
      sharp emit name { be = false; eh = false; pre = 0; vendor = 0; ops = [ Cie cie0; Cie { cie0 with ra = 1 }; Cie cie0 ] };
      sharp emit name { be = false; eh = false; pre = 0; vendor = 0; ops = [] };
      let r = mk_rng seed in
      for _ = 1 to n do
        let eh = rand_bool r in
        let asz = pick r [| 4; 8; 4; 8; 1; 2 |] in
        let c = rand_cie r ~eh ~asz in
        let c = { c with cinsns = List.filteri (fun i _ -> i < 2) c.cinsns } in
        let f = rand_fde r c 0 in
        sharp emit name (simple ~eh ~be:(rand_bool r) ~pre:(if rand_int r 4 = 0 then rand_int r 40 else 0) c { f with finsns = List.filteri (fun i _ -> i < 2) f.finsns })
      done);
  register "c14.table" ~doc:"random frame tables built through add_cie/add_fde: duplicate CIEs, several FDEs per CIE, unreferenced CIEs, every instruction variant, all header options, unsupported versions/encodings/address sizes, decreasing offsets, prefilled writer; bytes + returned ids"
    (fun ~seed ~n emit ->
      let r = mk_rng seed in
      for _ = 1 to n do sharp emit "c14.table" (rand_table r) done);
  register "c14.rows" ~doc:"spec: gimli's reader over gimli's bytes = CIE parameters, FDE ranges, personality/LSDA and the unwind rows of the EXTRACTED script machine CfaScriptSpec.script_rows_lim (StoreOnHeap limits, reader vendor); entry sizes, nop-only padding, each referenced CIE once"
    (fun ~seed ~n emit ->
      let name = "c14.rows" in
      (* the instruction list of gimli's own test_frame_instruction, all encodings *)
      let e0 = [ 0x10; 0x00 ] in
      let fi = [ (0, ICfa (7, 0)); (0, ICfa (7, -8)); (2, ICfaRegister 6); (4, ICfaOffset 8); (4, ICfaOffset 0); (4, ICfaOffset (-8));
                 (6, ICfaExpr e0); (8, IRestore 1); (8, IRestore 101); (10, IUndefined 2); (12, ISameValue 3); (14, IOffset (4, 16));
                 (14, IOffset (104, 16)); (16, IValOffset (5, -24)); (16, IValOffset (5, 24)); (18, IRegister (6, 7));
                 (20, IExpr (8, e0)); (22, IValExpr (9, e0)); (24 + 0x80, IRemember); (26 + 0x280, IRestoreState);
                 (28 + 0x20280, IArgsSize 23) ] in
      List.iter (fun (eh, ver) ->
          List.iter (fun asz ->
              List.iter (fun fmt64 ->
                  List.iter (fun be ->
                      List.iter (fun vendor ->
                          let c = { cie0 with ver; asz; fmt64; caf = 2; daf = 8; cinsns = [ ICfa (7, 8); IOffset (16, -8) ] } in
                          oracle_case emit name
                            { be; eh; pre = 0; vendor;
                              ops = [ Cie c; Fde { fde0 with flen = 0x30000; finsns = fi @ (if vendor = 1 then [ (0x30000, INegateRa); (0x30004, INegateRa) ] else []) };
                                      Cie c; Fde { fde0 with k = 1; faddr = Const (Z.of_int 0x50000); finsns = [ (0, INegateRa) ] } ] })
                        [ 0; 1 ]) [ false; true ]) [ false; true ]) [ 4; 8 ])
        [ (false, 1); (false, 3); (false, 4); (true, 1) ];
      (* the reader context's storage limits reached and exceeded by one (script machine's xguard): remember_state
         chains against the number of rules the CIE leaves (0..3: the saved initial rules take a row from 2 on);
         191/192/193 distinct registers in the FDE and in the CIE *)
      List.iter (fun ncie ->
          for depth = 0 to 4 do
            let c = { cie0 with asz = 8; daf = -8; cinsns = List.init ncie (fun j -> IOffset (j + 1, -8 * (j + 1))) } in
            oracle_case emit name
              (simple c { fde0 with finsns = List.init depth (fun j -> (4 * j, IRemember))
                                             @ [ (4 * depth, IRestoreState); (4 * depth + 4, IRestore 1); (4 * depth + 4, IRestore 9) ] })
          done) [ 0; 1; 2; 3 ];
      List.iter (fun nreg ->
          oracle_case emit name (simple { cie0 with asz = 8 } { fde0 with finsns = List.init nreg (fun j -> (j / 64, IUndefined (j + 100))) });
          oracle_case emit name (simple { cie0 with asz = 8; cinsns = List.init nreg (fun j -> ISameValue (j + 100)) } fde0))
        [ 191; 192; 193 ];
      let r = mk_rng seed in
      for _ = 1 to n do oracle_case emit name (rand_table ~valid:true r) done);
  (* ---- regressions of repaired findings, and the open one (see known_findings.txt) ---- *)
  register "c14.ehra" ~doc:"regression (repo 3c6e5b8): .eh_frame CIE with return_address_register >= 128 reads back"
    (fun ~seed:_ ~n:_ emit ->
      List.iter (fun ra ->
          List.iter (fun asz ->
              oracle_case emit "c14.ehra" (simple ~eh:true { cie0 with ra; asz; daf = -8; cinsns = [ ICfa (7, 8) ] }
                                               { fde0 with finsns = [ (4, IOffset (6, -16)) ] }))
            [ 4; 8 ]) [ 0; 16; 127; 128; 200; 255; 256; 1000; 65535 ]);
  register "c14.pad64" ~doc:"regression (repo d2e46aa): 64-bit format entries are padded so that 12 + length is a multiple of the address size"
    (fun ~seed:_ ~n:_ emit ->
      List.iter (fun eh ->
          List.iter (fun asz ->
              List.iter (fun fmt64 ->
                  for k = 0 to 8 do
                    let c = { cie0 with fmt64; asz; ver = (if eh then 1 else 4); cinsns = List.init k (fun _ -> IArgsSize 1) } in
                    oracle_case emit "c14.pad64" (simple ~eh c fde0)
                  done) [ false; true ]) [ 4; 8 ]) [ false; true ]);
  register "c14.lsda" ~doc:"regression (repo a8af08f): an FDE whose LSDA presence disagrees with the lsda_encoding of its CIE is rejected with InvalidAddress"
    (fun ~seed:_ ~n:_ emit ->
      let a = Some (Const (Z.of_int 0x3300)) in
      List.iter (fun eh ->
          oracle_case emit "c14.lsda" (simple ~eh cie0 { fde0 with flsda = a });
          oracle_case emit "c14.lsda" (simple ~eh { cie0 with sigt = true } { fde0 with flsda = a });
          oracle_case emit "c14.lsda" (simple ~eh { cie0 with lsda_enc = Some 0 } { fde0 with flsda = a });
          oracle_case emit "c14.lsda" (simple ~eh { cie0 with lsda_enc = Some 0x1b } fde0)) [ false; true ])

(* regression (repo 768c9da): address sizes that are not 1/2/4/8 are rejected with UnsupportedWordSize; 0 used to
   panic (checked builds) or to append nops without end (release), which the harness's 1 MiB watchdog writer reports *)
let () =
  register "c14.asz" ~doc:"regression (repo 768c9da): address_size 0..255 outside 1/2/4/8 is UnsupportedWordSize; watchdog writer capped at 1 MiB"
    (fun ~seed:_ ~n:_ emit ->
      List.iter (fun eh ->
          for asz = 0 to 255 do
            if asz < 10 || asz land 7 = 0 || asz = 255 then
              List.iter (fun fenc ->
                  let s = simple ~eh { cie0 with asz; ver = (if eh then 1 else 4); fenc } fde0 in
                  both_s emit (fun () -> tok_script "c14.asz" s) (fun dbg ->
                      match run_model dbg s with
                      | Res.Ok ((bs, _), _) -> Printf.sprintf "ok %d" (List.length bs)
                      | r -> show_class_err r))
                [ 0; 0x1b ]
          done) [ false; true ])
let init () = ()
