(* s_c18.ml — streams for C18 (relocation is transparent on the reading and on the writing side).
   Model side: extracted Reloc.  Model streams (c18.wops c18.rprog c18.hdr c18.ranges) print what the
   Gallina mirror of RelocateWriter / RelocateReader computes; the case line also carries the flag that
   says whether the side condition of the transparency theorem holds, so that the harness can evaluate
   the spec-level oracle on gimli itself (`relocwrite-mismatch` / `relocread-mismatch`).
   Oracle streams (c18.write c18.corpus) only choose an abstract script; the harness builds it with
   gimli::write twice and replays the recorded relocations through RelocateReader. *)
open Conv
open Streams
open Reloc

let zs = Z.to_string
let p64 = Z.shift_left Z.one 64
let bit b = if b then "1" else "0"

(* ------------------------------------------------------------------ writer ops *)

type aop =
  | B of int list | At of Z.t * int list | U of Z.t * int | UA of Z.t * Z.t * int
  | AC of Z.t * int | AS of int * Z.t * int
  | O of Z.t * int * int | OA of Z.t * Z.t * int * int
  | EC of Z.t * int * int | ES of int * Z.t * int * int
  | Rf of int * int

let tok_of_op = function
  | B l -> Printf.sprintf "B %s" (hex_of_ints l)
  | At (p, l) -> Printf.sprintf "A %s %s" (zs p) (hex_of_ints l)
  | U (v, s) -> Printf.sprintf "U %s %d" (zs v) s
  | UA (p, v, s) -> Printf.sprintf "UA %s %s %d" (zs p) (zs v) s
  | AC (v, s) -> Printf.sprintf "AC %s %d" (zs v) s
  | AS (y, a, s) -> Printf.sprintf "AS %d %s %d" y (zs a) s
  | O (v, t, s) -> Printf.sprintf "O %s %d %d" (zs v) t s
  | OA (p, v, t, s) -> Printf.sprintf "OA %s %s %d %d" (zs p) (zs v) t s
  | EC (v, e, s) -> Printf.sprintf "EC %s %d %d" (zs v) e s
  | ES (y, a, e, s) -> Printf.sprintf "ES %d %s %d %d" y (zs a) e s
  | Rf (y, s) -> Printf.sprintf "R %d %d" y s

let wop_of = function
  | B l -> WBytes (bytes_of_ints l)
  | At (p, l) -> WAt (n_of_z p, bytes_of_ints l)
  | U (v, s) -> WUdata (n_of_z v, n_of_int s)
  | UA (p, v, s) -> WUdataAt (n_of_z p, n_of_z v, n_of_int s)
  | AC (v, s) -> WAddr (AConst (n_of_z v), n_of_int s)
  | AS (y, a, s) -> WAddr (ASym (n_of_int y, cz_of_z a), n_of_int s)
  | O (v, t, s) -> WOffset (n_of_z v, n_of_int t, n_of_int s)
  | OA (p, v, t, s) -> WOffsetAt (n_of_z p, n_of_z v, n_of_int t, n_of_int s)
  | EC (v, e, s) -> WEhPtr (AConst (n_of_z v), n_of_int e, n_of_int s)
  | ES (y, a, e, s) -> WEhPtr (ASym (n_of_int y, cz_of_z a), n_of_int e, n_of_int s)
  | Rf (y, s) -> WRef (n_of_int y, n_of_int s)

let show_reloc (r : reloc) =
  Printf.sprintf "%s:%s:%s:%s:%s" (string_of_n r.r_off) (string_of_n r.r_size)
    (match r.r_target with TSym s -> "S" ^ string_of_n s | TSect t -> "T" ^ string_of_n t)
    (string_of_cz r.r_addend)
    (match r.r_ehpe with None -> "-" | Some e -> string_of_n e)

let show_wres pr = function
  | Res.Ok a -> "ok " ^ pr a
  | Res.Err e -> "err " ^ Errnames.name e
  | Res.Panic -> "panic"
  | Res.OutOfFuel -> "outoffuel"

(* symbol s has address syms.(s mod |syms|); section t has base sb * (t + 1) (mod 2^64) *)
let env_of (syms : Z.t array) (sb : Z.t) : target -> BinNums.coq_N = function
  | TSym s -> n_of_z syms.(int_of_n s mod Array.length syms)
  | TSect t -> n_of_z (Z.erem (Z.mul sb (Z.succ (z_of_n t))) p64)

let to_i64z (z : Z.t) = let z = Z.erem z p64 in if Z.numbits z > 63 then Z.sub z p64 else z
let norm_op = function
  | AS (y, a, s) -> AS (y, to_i64z a, s)
  | ES (y, a, e, s) -> ES (y, to_i64z a, e, s)
  | o -> o

let wops_case emit be (syms : Z.t array) (sb : Z.t) (ops : aop list) =
  let ops = List.map norm_op ops in
  let ws = List.map wop_of ops in
  let env = env_of syms sb in
  let nc = no_clobber be ws ([], []) in
  let case = Printf.sprintf "c18.wops %s %s %d %s %s %d %s" (bit be) (bit nc) (Array.length syms)
      (String.concat " " (Array.to_list (Array.map zs syms))) (zs sb)
      (List.length ops) (String.concat " " (List.map tok_of_op ops)) in
  both emit case (fun _ ->
    let p = run_plain be (List.map (resolve env) ws) [] in
    let r = run_reloc be ws ([], []) in
    let ps = show_wres hex_of_bytes p in
    let rs = show_wres (fun (b, rl) ->
      Printf.sprintf "%s %d%s" (hex_of_bytes b) (List.length rl)
        (String.concat "" (List.map (fun x -> " " ^ show_reloc x) rl))) r in
    let a = match r with
      | Res.Ok (b, rl) -> hex_of_bytes (apply_relocs env be rl b)
      | _ -> "x" in
    (* the specification of the recorded list is checked on the model for every case *)
    let spec_ok = match r with
      | Res.Ok (_, rl) -> rl = spec_relocs be BinNums.N0 ws
      | _ -> true in
    Printf.sprintf "p %s r %s a %s%s" ps rs a (if spec_ok then "" else " MODEL-SPEC-RELOCS-DIFFER"))

let sizes_good = [| 1; 2; 4; 8 |]
let gen_size r = if rand_int r 12 = 0 then pick r [| 0; 3; 5; 16; 255 |] else pick r sizes_good
let gen_val r size =
  (* mostly representable in `size` bytes *)
  let b = 8 * (max 1 (min size 8)) in
  match rand_int r 8 with
  | 0 -> boundary_z64 r
  | 1 -> Z.pred (Z.shift_left Z.one b)
  | 2 -> Z.zero
  | 3 -> Z.erem (Z.shift_left Z.one b) p64
  | _ -> Z.erem (rand_z64 r) (Z.shift_left Z.one b)
let gen_addend r size =
  let z = gen_val r size in
  match rand_int r 4 with
  | 0 -> Z.neg (Z.of_int (rand_int r 1000))
  | 1 -> if Z.numbits z > 63 then Z.sub z p64 else z
  | _ -> Z.of_int (rand_int r 100000)
let eh_good = [| 0x00; 0x02; 0x03; 0x04; 0x0a; 0x0b; 0x0c; 0x10; 0x1b; 0x13; 0x1c; 0x01; 0x09; 0x11; 0x9b; 0x80 |]
let gen_eh r = if rand_int r 6 = 0 then rand_int r 256 else pick r eh_good

let gen_ops r : aop list =
  let len = ref 0 in   (* approximate current section length *)
  let n = 1 + rand_int r 9 in
  let acc = ref [] in
  let push o l = acc := o :: !acc; len := !len + l in
  for _ = 1 to n do
    let size = gen_size r in
    let pos_in () = Z.of_int (if !len = 0 || rand_int r 10 = 0 then rand_int r (!len + 6) else rand_int r !len) in
    match rand_int r 16 with
    | 0 | 1 -> let k = rand_int r 6 in push (B (rand_bytes r k)) k
    | 2 -> push (U (gen_val r size, size)) size
    | 3 -> push (AC (gen_val r size, size)) size
    | 4 | 5 -> push (AS (rand_int r 4, gen_addend r size, size)) size
    | 6 | 7 -> push (O (gen_val r size, rand_int r 23, size)) size
    | 8 -> (* DebugInfoRef fix-up pattern: placeholder, something, then write_offset_at *)
      let p = !len in
      push (U (Z.zero, size)) size;
      let k = rand_int r 4 in push (B (rand_bytes r k)) k;
      push (OA (Z.of_int p, gen_val r size, 7, size)) 0
    | 9 -> (* initial-length pattern *)
      let p = !len in
      push (U (Z.zero, size)) size;
      let k = rand_int r 5 in push (B (rand_bytes r k)) k;
      push (UA (Z.of_int p, Z.of_int k, size)) 0
    | 10 -> push (OA (pos_in (), gen_val r size, rand_int r 23, size)) 0
    | 11 -> let k = rand_int r 4 in push (At (pos_in (), rand_bytes r k)) 0
    | 12 -> push (UA (pos_in (), gen_val r size, size)) 0
    | 13 -> push (EC (gen_val r size, gen_eh r, size)) size
    | 14 -> push (ES (rand_int r 4, gen_addend r size, gen_eh r, size)) size
    | _ -> if rand_int r 6 = 0 then push (Rf (rand_int r 4, size)) 0 else push (O (gen_val r size, rand_int r 23, size)) size
  done;
  List.rev !acc

let gen_syms r =
  Array.init (1 + rand_int r 3) (fun _ ->
    match rand_int r 4 with 0 -> Z.zero | 1 -> boundary_z64 r | _ -> Z.of_int (0x1000 * (1 + rand_int r 4096)))

(* ------------------------------------------------------------------ reader programs *)

type rop = RU of int | RUleb | RSleb | RSkip of int | RLen | RAddr of int | ROff of bool | RSized of int
         | RWord of bool | RSplit of int * int   (* len, number of following ops that run inside the head *)

let tok_of_rop = function
  | RU n -> Printf.sprintf "u %d" n | RUleb -> "uleb" | RSleb -> "sleb" | RSkip n -> Printf.sprintf "skip %d" n
  | RLen -> "len" | RAddr s -> Printf.sprintf "addr %d" s | ROff f -> Printf.sprintf "off %s" (bit f)
  | RSized s -> Printf.sprintf "soff %d" s | RWord f -> Printf.sprintf "word %s" (bit f)
  | RSplit (l, k) -> Printf.sprintf "split %d %d" l k

let rec take_n k l = if k <= 0 then ([], l) else match l with [] -> ([], []) | x :: t ->
  let (a, b) = take_n (k - 1) t in (x :: a, b)

(* values read so far are accumulated; the final PRet returns them (A = list N) *)
let rec build (ops : rop list) (acc : BinNums.coq_N list) : BinNums.coq_N list prog =
  match ops with
  | [] -> PRet acc
  | o :: rest ->
    let k v = build rest (acc @ [v]) in
    (match o with
     | RU n -> PU (nat_of_int n, k)
     | RUleb -> PUleb k
     | RSleb -> PSleb (fun z -> k (Ints.of_i64 z))
     | RSkip n -> PSkip (n_of_int n, build rest acc)
     | RLen -> PLen k
     | RAddr s -> PAddr (n_of_int s, k)
     | ROff f -> POffset (f, k)
     | RSized s -> PSized (n_of_int s, k)
     | RWord f -> PWord (f, k)
     | RSplit (l, cnt) ->
       let (inner, outer) = take_n cnt rest in
       PSplit (n_of_int l, build inner acc, fun a -> build outer a))

let show_rrel (r : rrel) =
  Printf.sprintf "%s:%s:%s:%s" (string_of_n r.rr_pos) (string_of_n r.rr_w) (bit r.rr_impl) (string_of_n r.rr_add)

let full_out = ref true
let show_out = function
  | Res.Ok ((vals, pos), len) ->
    let v = if vals = [] then "-" else String.concat "," (List.map string_of_n vals) in
    if !full_out then Printf.sprintf "ok %s %s %s" v (string_of_n pos) (string_of_n len)
    else "ok " ^ v
  | Res.Err e -> "err " ^ Errnames.name e
  | Res.Panic -> "panic"
  | Res.OutOfFuel -> "outoffuel"

let show_sites (t : ev list) =
  let l = List.filter_map (function EvRel (pos, _, v) -> Some (string_of_n pos ^ ":" ^ string_of_n v) | _ -> None) t in
  if l = [] then "-" else String.concat "," l

(* run a parser both ways on the model; `owed` = the side condition of parser_reloc holds *)
let model_both ?(full = true) be dbg (rs : rrel list) (bs : Byte0.byte list) (p : BinNums.coq_N list prog) =
  full_out := full;
  let sect = { off = BinNums.N0; win = bs } in
  let (tr, rr) = run_reloc_rd be dbg (map_relocator rs) p (rrd_new sect) in
  let applied = apply_rrels be rs bs in
  let base = { off = BinNums.N0; win = applied } in
  let pr = run_plain_rd be dbg p base in
  let owed = sites_disjointb rs && trace_okb rs tr in
  (owed, show_out (out_reloc rr), show_out (out_plain base pr), show_sites tr)

let rels_tokens rs = Printf.sprintf "%d%s" (List.length rs) (String.concat "" (List.map (fun r -> " " ^ show_rrel r) rs))

let rprog_case emit be (l : int list) (rs : rrel list) (ops : rop list) =
  let bs = bytes_of_ints l in
  let p = build ops [] in
  let (owed, _, _, _) = model_both be true rs bs p in
  let case = Printf.sprintf "c18.rprog %s %s %s %s %d %s" (bit be) (bit owed) (hex_of_ints l) (rels_tokens rs)
      (List.length ops) (String.concat " " (List.map tok_of_rop ops)) in
  both emit case (fun dbg ->
    let (_, r, p', s) = model_both be dbg rs bs p in
    Printf.sprintf "r %s p %s s %s" r p' s)

let mk_rrel pos w impl add = { rr_pos = n_of_int pos; rr_w = n_of_int w; rr_impl = impl; rr_add = n_of_z add }

let gen_addend_u r w =
  match rand_int r 6 with
  | 0 -> boundary_z64 r
  | 1 -> Z.zero
  | 2 -> Z.erem (Z.neg (Z.of_int (1 + rand_int r 300))) p64
  | _ -> Z.erem (rand_z64 r) (Z.shift_left Z.one (8 * w - (if w > 1 then 8 else 1)))

(* a random linear program together with the list of its relocatable sites on the given length *)
let gen_rprog r =
  let n = 1 + rand_int r 7 in
  let pos = ref 0 in
  let sites = ref [] in
  let ops = ref [] in
  let push o = ops := o :: !ops in
  let i = ref 0 in
  while !i < n do
    incr i;
    (match rand_int r 14 with
     | 0 -> let k = pick r [| 1; 2; 4; 8 |] in push (RU k); pos := !pos + k
     | 1 -> push RUleb; pos := !pos + 1
     | 2 -> push RSleb; pos := !pos + 1
     | 3 -> let k = rand_int r 5 in push (RSkip k); pos := !pos + k
     | 4 -> push RLen
     | 5 | 6 | 7 -> let s = if rand_int r 10 = 0 then pick r [| 0; 3; 16 |] else pick r sizes_good in
       sites := (!pos, s) :: !sites; push (RAddr s); pos := !pos + s
     | 8 | 9 -> let f = rand_bool r in let s = if f then 8 else 4 in
       sites := (!pos, s) :: !sites; push (ROff f); pos := !pos + s
     | 10 -> let s = if rand_int r 10 = 0 then pick r [| 0; 3; 16 |] else pick r sizes_good in
       sites := (!pos, s) :: !sites; push (RSized s); pos := !pos + s
     | 11 -> let f = rand_bool r in push (RWord f); pos := !pos + (if f then 8 else 4)
     | _ -> let inner = rand_int r 3 in push (RSplit (rand_int r 12, inner)))
  done;
  (List.rev !ops, List.rev !sites, !pos)

let gen_rels r sites total =
  (* mostly: a subset of the true sites with the right width; sometimes wrong width / misplaced / overlapping *)
  let rs = List.filter_map (fun (p, w) ->
    if rand_int r 3 = 0 then None else
    let w' = if rand_int r 12 = 0 then pick r sizes_good else w in
    let p' = if rand_int r 14 = 0 then max 0 (p + rand_int r 5 - 2) else p in
    Some (mk_rrel p' w' (rand_bool r) (gen_addend_u r (max 1 (min 8 w'))))) sites in
  let extra = if rand_int r 5 = 0 then [mk_rrel (rand_int r (total + 4)) (pick r sizes_good) (rand_bool r) (gen_addend_u r 4)] else [] in
  rs @ extra

(* unit headers: structured bytes through the field layout, then damaged *)
let enc be (v : Z.t) w =
  let l = List.init w (fun i -> Z.to_int (Z.logand (Z.shift_right v (8 * i)) (Z.of_int 255))) in
  if be then List.rev l else l

let gen_header r be =
  let fmt64 = rand_int r 3 = 0 in
  let ver = match rand_int r 10 with 0 -> pick r [| 0; 1; 6; 0xffff |] | 1 | 2 | 3 -> 5 | _ -> 2 + rand_int r 3 in
  let asz = if rand_int r 12 = 0 then pick r [| 0; 3; 16 |] else pick r sizes_good in
  let ut = if rand_int r 12 = 0 then rand_int r 256 else 1 + rand_int r 6 in
  let w = if fmt64 then 8 else 4 in
  let abbrev = enc be (Z.of_int (rand_int r 5000)) w in
  let abbrev_pos = ref 0 and toff_pos = ref (-1) in
  let body =
    if ver = 5 then begin
      let pre = enc be (Z.of_int ver) 2 @ [ut; asz] in
      abbrev_pos := List.length pre;
      let tail = match ut with
        | 2 | 6 -> toff_pos := List.length pre + w + 8; rand_bytes r 8 @ enc be (Z.of_int (rand_int r 200)) w
        | 4 | 5 -> rand_bytes r 8
        | _ -> [] in
      pre @ abbrev @ tail
    end else begin
      abbrev_pos := 2;
      enc be (Z.of_int ver) 2 @ abbrev @ [asz]
    end in
  let dies = rand_bytes r (rand_int r 6) in
  let len = List.length body + List.length dies in
  let len = match rand_int r 10 with 0 -> len + 1 + rand_int r 3 | 1 -> max 0 (len - 1 - rand_int r 4) | _ -> len in
  let il = if fmt64 then enc be (Z.of_string "0xffffffff") 4 @ enc be (Z.of_int len) 8 else enc be (Z.of_int len) 4 in
  let ilen = List.length il in
  let bytes = il @ body @ dies @ rand_bytes r (rand_int r 3) in
  let sites = (ilen + !abbrev_pos, w) :: (if !toff_pos >= 0 then [(ilen + !toff_pos, w)] else []) in
  (bytes, sites)

let damage r l =
  match rand_int r 8 with
  | 0 -> List.filteri (fun i _ -> i < rand_int r (List.length l + 1)) l
  | 1 -> List.mapi (fun i x -> if rand_int r 12 = 0 then rand_int r 256 else x) l
  | _ -> l

let () =
  register "c18.wops" ~doc:"writer-op scripts on EndianVec (symbols resolved) and on a recording RelocateWriter; recorded relocations applied and compared; every eh_pe byte x size x const/symbol exhaustively"
    (fun ~seed ~n emit ->
      let syms = [| Z.of_int 0x401000; Z.of_string "0xfffffffffffffff0" |] in
      (* exhaustive: every pointer encoding byte, sizes, constant and symbolic, after 3 bytes of prefix *)
      List.iter (fun be ->
        for eh = 0 to 255 do
          List.iter (fun size ->
            List.iter (fun v ->
              wops_case emit be syms Z.zero [B [1; 2; 3]; EC (v, eh, size); U (Z.of_int 0x55, 1)];
              wops_case emit be syms Z.zero [B [1; 2; 3]; ES (1, Z.sub v (Z.of_int 5), eh, size); U (Z.of_int 0x55, 1)])
              [Z.of_int 0x7f; Z.of_int 2; Z.of_string "0xffffffffffffff80"; Z.of_int 0x12345])
            [1; 2; 4; 8; 3]
        done;
        (* every size argument for the four relocatable methods *)
        for size = 0 to 255 do
          wops_case emit be syms Z.zero [AS (0, Z.of_int 4, size)];
          wops_case emit be syms Z.zero [O (Z.of_int 0x20, 7, size)];
          wops_case emit be syms (Z.of_int 0x100) [U (Z.zero, 8); OA (Z.of_int 2, Z.of_int 0x21, 19, size)];
          wops_case emit be syms Z.zero [AC (Z.of_int 0x31, size)]
        done) [false; true];
      let r = mk_rng seed in
      for _ = 1 to n do
        let be = rand_bool r in
        let sb = if rand_int r 3 = 0 then Z.of_int (0x10000 * rand_int r 16) else Z.zero in
        wops_case emit be (gen_syms r) sb (gen_ops r)
      done);
  register "c18.rprog" ~doc:"linear reader programs through RelocateReader (relocation-map Relocate) on raw bytes vs a plain reader on pre-applied bytes; sites logged"
    (fun ~seed ~n emit ->
      (* exhaustive small domain: one relocatable read of every kind/size at offsets 0..2, with and without a
         relocation of every width at offsets 0..2 *)
      let bytes = [0x11; 0x22; 0x33; 0x44; 0x55; 0x66; 0x77; 0x88; 0x99; 0xaa; 0xbb] in
      List.iter (fun be ->
        List.iter (fun o ->
          for sk = 0 to 2 do
            for rp = 0 to 2 do
              List.iter (fun rw ->
                List.iter (fun (impl, add) ->
                  rprog_case emit be bytes [mk_rrel rp rw impl add] [RSkip sk; o; RU 1])
                  [(true, Z.of_int 0x10); (false, Z.of_int 0x7b); (true, Z.of_string "0xffffffffffffff00"); (false, Z.of_string "0x1ffffffff")])
                [1; 2; 4; 8]
            done;
            rprog_case emit be bytes [] [RSkip sk; o; RU 1]
          done)
          [RAddr 1; RAddr 2; RAddr 4; RAddr 8; RAddr 3; ROff false; ROff true; RSized 1; RSized 2; RSized 4; RSized 8; RSized 0;
           RWord false; RWord true; RU 4; RUleb])
        [false; true];
      let r = mk_rng seed in
      for _ = 1 to n do
        let be = rand_bool r in
        let (ops, sites, total) = gen_rprog r in
        let len = match rand_int r 5 with 0 -> rand_int r (total + 1) | _ -> total + rand_int r 4 in
        let l = List.init len (fun _ -> match rand_int r 5 with 0 -> 0 | 1 -> 0xff | 2 -> 0x80 | _ -> rand_int r 256) in
        rprog_case emit be l (gen_rels r sites total) ops
      done);
  register "c18.hdr" ~doc:"parse_unit_header (DebugInfo/DebugTypes ::units) through RelocateReader vs the model parser, relocations on the abbrev/type offsets and elsewhere"
    (fun ~seed ~n emit ->
      let r = mk_rng seed in
      for _ = 1 to n do
        let be = rand_bool r in
        let types = rand_int r 4 = 0 in
        let (l, sites) = gen_header r be in
        let l = damage r l in
        let rs = gen_rels r sites (List.length l) in
        let bs = bytes_of_ints l in
        let p = p_unit_header types in
        let (owed, _, _, _) = model_both be true rs bs p in
        let case = Printf.sprintf "c18.hdr %s %s %s %s %s" (bit be) (bit owed) (bit types) (hex_of_ints l) (rels_tokens rs) in
        both emit case (fun dbg ->
          let (_, rr, pr, s) = model_both ~full:false be dbg rs bs p in
          Printf.sprintf "r %s p %s s %s" rr pr s)
      done);
  register "c18.ranges" ~doc:"RawRngListIter over .debug_ranges through RelocateReader vs the model parser, relocations on the address pairs"
    (fun ~seed ~n emit ->
      let r = mk_rng seed in
      for _ = 1 to n do
        let be = rand_bool r in
        let asz = if rand_int r 15 = 0 then pick r [| 0; 3; 16 |] else pick r sizes_good in
        let w = max 1 (min asz 8) in
        let npairs = rand_int r 5 in
        let ones = Z.pred (Z.shift_left Z.one (8 * w)) in
        let pairs = List.init npairs (fun _ ->
          match rand_int r 6 with
          | 0 -> (ones, Z.of_int (rand_int r 60000 land (Z.to_int (Z.min ones (Z.of_int 0xffff)))))
          | 1 -> (Z.zero, Z.zero)
          | _ -> let a = Z.of_int (rand_int r 200) in (Z.erem a (Z.succ ones), Z.erem (Z.add a (Z.of_int (rand_int r 50))) (Z.succ ones))) in
        let body = List.concat_map (fun (a, b) -> enc be a w @ enc be b w) pairs in
        let l = body @ (if rand_int r 4 = 0 then [] else List.init (2 * w) (fun _ -> 0)) @ rand_bytes r (rand_int r 3) in
        let l = damage r l in
        let sites = List.init (2 * npairs + 2) (fun i -> (i * w, w)) in
        let rs = gen_rels r sites (List.length l) in
        let bs = bytes_of_ints l in
        let p = p_raw_ranges (nat_of_int (List.length l + 1)) (n_of_int asz) [] in
        let (owed, _, _, _) = model_both be true rs bs p in
        let case = Printf.sprintf "c18.ranges %s %s %d %s %s" (bit be) (bit owed) asz (hex_of_ints l) (rels_tokens rs) in
        both emit case (fun dbg ->
          let (_, rr, pr, s) = model_both ~full:false be dbg rs bs p in
          Printf.sprintf "r %s p %s s %s" rr pr s)
      done)


(* ------------------------------------------------------------------ oracle streams *)

let corpus_dir () =
  try Sys.getenv "GV_CORPUS" with Not_found ->
    Filename.concat (Filename.dirname Sys.executable_name) "../corpus/sections"

let variants () : string array =
  let a = try Sys.readdir (corpus_dir ()) with _ -> [||] in
  Array.sort compare a; a

(* c18.write be version format address_size seed nunits ndies flags cfi ncie nfde
   flags: 1 root low_pc | 2 strp names | 4 line programs | 8 range lists | 16 location lists |
          32 cross-unit DebugInfoRef | 64 DW_OP_addr in expressions | 128 line_strp (v5) |
          256 supplementary-file refs | 512 macinfo/macro refs
   cfi:   0 none | 1 .debug_frame | 2 .eh_frame absptr | 3 .eh_frame pcrel|sdata4 | 4 .eh_frame absptr + personality/LSDA *)
let write_case emit be ver fmt asz seed nunits ndies flags cfi ncie nfde =
  emit (Printf.sprintf "c18.write %s %d %d %d %d %d %d %d %d %d %d" (bit be) ver fmt asz seed nunits ndies flags cfi ncie nfde) "ok" "ok"

let () =
  register "c18.write" ~doc:"units / line programs / range+location lists / frame tables written twice by gimli::write (EndianVec with constants, recording RelocateWriter with symbols): applied == direct, recorded sites == sites the readers relocate, RelocateReader on raw bytes == plain reader on applied bytes (2 symbol assignments x RELA/REL)"
    (fun ~seed ~n emit ->
      (* grid: every version x format x address size x byte order x frame flavour, all features on *)
      let k = ref 0 in
      List.iter (fun be -> List.iter (fun ver -> List.iter (fun fmt -> List.iter (fun asz -> List.iter (fun cfi ->
        incr k;
        (* the known-finding flavour (3: symbolic pcrel|sdata4 .eh_frame pointers) only once per version x byte order *)
        if cfi <> 3 || (fmt = 4 && asz = 8) then begin
          write_case emit be ver fmt asz (seed * 7919 + !k) 2 4 1023 cfi 2 3;
          write_case emit be ver fmt asz (seed * 7919 + !k) 1 3 (1022 land (lnot 1)) cfi 1 2
        end)
        [0; 1; 2; 3; 4]) [4; 8]) [4; 8]) [2; 3; 4; 5]) [false; true];
      let r = mk_rng seed in
      for i = 1 to n do
        let be = rand_bool r in
        let ver = 2 + rand_int r 4 in
        let fmt = if rand_int r 4 = 0 then 8 else 4 in
        let asz = if rand_int r 3 = 0 then 4 else 8 in
        let flags = match rand_int r 4 with 0 -> 1023 | 1 -> rand_int r 1024 | _ -> rand_int r 1024 lor 4 in
        let cfi = (let x = rand_int r 100 in if x < 15 then 1 else if x = 15 then 3 else if x < 32 then 2 else if x < 45 then 4 else 0) in
        write_case emit be ver fmt asz (seed * 1000003 + i) (1 + rand_int r 3) (rand_int r 9) flags cfi (1 + rand_int r 3) (rand_int r 6)
      done);
  register "c18.corpus" ~doc:"compiler-built corpus sections read through RelocateReader with the identity relocation vs plainly; then a third of the logged address sites perturbed (implicit/explicit addends) and RelocateReader on raw bytes vs plain reader on applied bytes"
    (fun ~seed ~n emit ->
      let vs = variants () in
      if Array.length vs = 0 then emit "c18.corpus missing 0 0" "ok" "ok" else
      for j = 0 to max 0 (n - 1) do
        Array.iter (fun v -> emit (Printf.sprintf "c18.corpus %s %d %d" v (seed * 31 + j) (if n > 4 then 20000 else 1500)) "ok" "ok") vs
      done)

(* c18.secoff be owed version format name form <debug_info hex> <nrel> <rel>
   one unit with one DIE carrying one attribute (name, form) whose field holds a section offset and carries a
   relocation; the harness builds the matching .debug_abbrev.  Model = Reloc.p_attr_word (which uses
   Attr.allow_section_offset) after skipping to the field.  owed = the DWARF standard makes the field a section
   offset (DW_FORM_sec_offset, or data4/data8 of the unit's format for a DWARF 2/3 loclistptr/lineptr/macptr/
   rangelistptr attribute), so that transparency is owed by the property itself. *)
let secoff_names = [ 0x02; 0x10; 0x19; 0x2a; 0x2c; 0x40; 0x43; 0x79; 0x46; 0x48; 0x4a; 0x4d; 0x55; 0x38;
                     (* controls: never a section offset *) 0x3b; 0x0b; 0x12 ]
let dwarf3_list = [ 0x02; 0x10; 0x19; 0x2a; 0x2c; 0x40; 0x43; 0x46; 0x48; 0x4a; 0x4d; 0x55; 0x38 ]

let secoff_case ?(must = false) emit be ver fmt64 name form (v : Z.t) impl (add : Z.t) with_rel =
  let w = if fmt64 then 8 else 4 in
  let fw = if form = 6 then 4 else if form = 7 then 8 else w in
  let field = enc be v fw in
  let body_v24 = enc be (Z.of_int ver) 2 @ enc be Z.zero w @ [8] in
  let body_v5 = enc be (Z.of_int ver) 2 @ [1; 8] @ enc be Z.zero w in
  let body = (if ver >= 5 then body_v5 else body_v24) @ [1] @ field in
  let il = if fmt64 then enc be (Z.of_string "0xffffffff") 4 @ enc be (Z.of_int (List.length body)) 8
           else enc be (Z.of_int (List.length body)) 4 in
  let l = il @ body in
  let foff = List.length l - fw in
  let rs = if with_rel then [mk_rrel foff fw impl add] else [] in
  let bs = bytes_of_ints l in
  let p = PSkip (n_of_int foff, p_attr_word fmt64 (n_of_int ver) (n_of_int name) (n_of_int form)) in
  let owed = form = 0x17 || ((ver = 2 || ver = 3) && List.mem name dwarf3_list && ((form = 6 && not fmt64) || (form = 7 && fmt64))) in
  let (mowed, _, _, _) = model_both ~full:false be true rs bs p in
  (* in the grid (fitting values) the model must grant what the standard owes, or the model itself is wrong;
     in the random part a value that does not fit its field has no pre-applied counterpart *)
  if must && owed && not mowed then failwith "c18.secoff: model does not grant an owed case";
  let owed = owed && mowed in
  let case = Printf.sprintf "c18.secoff %s %s %d %d %d %d %s %s" (bit be) (bit owed) ver (if fmt64 then 8 else 4) name form (hex_of_ints l) (rels_tokens rs) in
  both emit case (fun dbg ->
    let (_, rr, pr, s) = model_both ~full:false be dbg rs bs p in
    Printf.sprintf "r %s p %s s %s" rr pr s)

let () =
  register "c18.secoff" ~doc:"legacy section-offset rule of parse_attribute: versions 2..5 x both formats x every name of allow_section_offset (+controls) x data4/data8/sec_offset, a relocation on the field, RelocateReader vs pre-applied copy vs model"
    (fun ~seed ~n emit ->
      List.iter (fun be -> List.iter (fun ver -> List.iter (fun fmt64 -> List.iter (fun name -> List.iter (fun form ->
        secoff_case ~must:true emit be ver fmt64 name form (Z.of_int 0x34) true (Z.of_int 0x1000) true;
        secoff_case ~must:true emit be ver fmt64 name form Z.zero false (Z.of_int 0x2468) true;
        secoff_case ~must:true emit be ver fmt64 name form (Z.of_int 0x77) false Z.zero false)
        [6; 7; 0x17]) secoff_names) [false; true]) [2; 3; 4; 5]) [false; true];
      let r = mk_rng seed in
      for _ = 1 to n do
        let ver = 2 + rand_int r 4 in
        let name = if rand_int r 4 = 0 then 1 + rand_int r 0x8b else List.nth secoff_names (rand_int r (List.length secoff_names)) in
        let form = pick r [| 6; 7; 0x17 |] in
        let fw = 4 in
        secoff_case emit (rand_bool r) ver (rand_bool r) name form (gen_addend_u r fw) (rand_bool r) (gen_addend_u r fw) (rand_int r 5 <> 0)
      done)


(* ------------------------------------------------------------------ c18.parsers: the real parsers in the monad *)
(* c18.parsers be owed <kind> <params…> <section hex> <nrel> <rel>…
   kinds:  line asz0 | attr ver fmt asz name form implicit foff | rle asz | lle ver asz | locbare asz |
           aranges | pubnames
   Model = RelocPar.<parser>; owed = the (dynamic) side condition of parser_reloc; the static side condition of
   parser_reloc_static (field map of the applied section) is evaluated too and must imply it. *)
open RelocPar

let uleb (v : int) : int list =
  let rec go v = let b = v land 0x7f in let v = v lsr 7 in if v = 0 then [b] else (b lor 0x80) :: go v in go v
let sleb (v : int) : int list =
  let rec go v =
    let b = v land 0x7f in let v' = v asr 7 in
    if (v' = 0 && b land 0x40 = 0) || (v' = -1 && b land 0x40 <> 0) then [b] else (b lor 0x80) :: go v' in go v

let cstr r = List.init (rand_int r 4) (fun _ -> 0x61 + rand_int r 26) @ [0]

(* relocation sets chosen from the parser's own field map on the raw bytes: mostly on relocatable fields, sometimes
   on a plainly read span, plus the perturbations of gen_rels (wrong width, misplaced, overlapping, out of range,
   addends that overflow the field) *)
let gen_rels_for r be (p : BinNums.coq_N list prog) (l : int list) =
  let bs = bytes_of_ints l in
  let tr = field_trace be true BinNums.N0 p bs in
  let rel = List.map (fun (a, b) -> (int_of_n a, int_of_n b)) (field_sites tr) in
  let plain = List.filter_map (function EvPlain (pos, n) when int_of_n n > 0 -> Some (int_of_n pos, int_of_n n) | _ -> None) tr in
  let rs = gen_rels r rel (List.length l) in
  let on_plain =
    if plain <> [] && rand_int r 5 = 0 then
      let (pos, n) = List.nth plain (rand_int r (List.length plain)) in
      let w = pick r sizes_good in
      [mk_rrel (pos + rand_int r n) w (rand_bool r) (gen_addend_u r w)]
    else [] in
  (* a relocated terminator / selector value now and then: explicit small addends *)
  let rs = List.map (fun (x : rrel) -> if rand_int r 9 = 0 then { x with rr_impl = false; rr_add = n_of_int (rand_int r 3) } else x) rs in
  rs @ on_plain

let damage2 r l = if rand_bool r then l else damage r l

let parsers_case emit be kind params (l : int list) (rs : rrel list) (p : BinNums.coq_N list prog) =
  let bs = bytes_of_ints l in
  let (owed, _, _, _) = model_both ~full:false be true rs bs p in
  let st = static_okb be true BinNums.N0 rs p bs in
  if st && not owed then failwith "c18.parsers: static side condition holds but the dynamic one does not";
  let case = Printf.sprintf "c18.parsers %s %s %s%s %s %s" (bit be) (bit owed) kind
      (String.concat "" (List.map (fun x -> " " ^ x) params)) (hex_of_ints l) (rels_tokens rs) in
  both emit case (fun dbg ->
    let (_, rr, pr, s) = model_both ~full:false be dbg rs bs p in
    Printf.sprintf "r %s p %s s %s" rr pr s)

(* ---- .debug_line ---- *)
let gen_line r be =
  let fmt64 = rand_int r 4 = 0 in
  let w = if fmt64 then 8 else 4 in
  let ver = match rand_int r 12 with 0 -> pick r [| 0; 1; 6 |] | 1 | 2 | 3 | 4 -> 5 | _ -> 2 + rand_int r 3 in
  let asz0 = if rand_int r 15 = 0 then pick r [| 1; 2; 3; 0 |] else pick r [| 4; 8 |] in
  let asz = if ver >= 5 then (if rand_int r 15 = 0 then pick r [| 0; 3; 1; 2 |] else pick r [| 4; 8 |]) else asz0 in
  let aw = if List.mem asz [1; 2; 4; 8] then asz else 4 in
  let opcode_base = match rand_int r 6 with 0 -> 10 | 1 -> 14 | 2 -> 15 | _ -> 13 in
  let lens = List.filteri (fun i _ -> i < opcode_base - 1) [0; 1; 1; 1; 1; 0; 0; 0; 1; 0; 0; 1; 2; 1] in
  let pre = [1] @ (if ver >= 4 then [1] else []) @ [rand_int r 2; 0xfb; 14; opcode_base] @ lens in
  let tables =
    if ver <= 4 then
      List.concat (List.init (rand_int r 3) (fun _ -> (0x64 :: cstr r))) @ [0]
      @ List.concat (List.init (rand_int r 3) (fun _ -> (0x66 :: cstr r) @ uleb (rand_int r 3) @ uleb (rand_int r 300) @ uleb (rand_int r 70000))) @ [0]
    else begin
      let strform () = pick r [| 0x08; 0x1f; 0x0e; 0x1d; 0x1f; 0x1f21; 0x25; 0x1a |] in
      let value form = match form with
        | 0x08 -> cstr r
        | 0x1f | 0x0e | 0x1d | 0x1f21 | 0x17 -> enc be (Z.of_int (rand_int r 4000)) w
        | 0x25 | 0x0b | 0x0c -> [rand_int r 256] | 0x05 -> enc be (Z.of_int (rand_int r 60000)) 2
        | 0x1a | 0x0f -> uleb (rand_int r 70000) | 0x0d -> sleb (rand_int r 400 - 200)
        | 0x06 -> enc be (Z.of_int (rand_int r 100000)) 4 | 0x07 -> enc be (rand_z64 r) 8
        | 0x1e -> rand_bytes r 16
        | 0x0a -> let k = pick r [| 16; 3; 0 |] in k :: rand_bytes r k
        | 0x09 -> let k = pick r [| 16; 2 |] in uleb k @ rand_bytes r k
        | _ -> rand_bytes r 2 in
      let dfmt = [(1, strform ())] @ (if rand_int r 4 = 0 then [(rand_int r 7, pick r [| 0x0f; 0x0b; 0x08 |])] else []) in
      let ffmt = [(1, strform ()); (2, pick r [| 0x0f; 0x0b; 0x05; 0x0d |])]
                 @ (if rand_bool r then [(5, pick r [| 0x1e; 0x1e; 0x0a; 0x09; 0x0f |])] else [])
                 @ (if rand_int r 3 = 0 then [(pick r [| 3; 4 |], pick r [| 0x0f; 0x06; 0x07; 0x0a |])] else [])
                 @ (if rand_int r 4 = 0 then [(0x2001, pick r [| 0x1f; 0x08; 0x0e |])] else [])
                 @ (if rand_int r 10 = 0 then [(1, 0x08)] else []) in
      let ffmt = if rand_int r 12 = 0 then List.tl ffmt else ffmt in
      let put fm cnt =
        [List.length fm] @ List.concat_map (fun (ct, f) -> uleb ct @ uleb f) fm @ uleb cnt
        @ List.concat (List.init cnt (fun _ -> List.concat_map (fun (_, f) -> value f) fm)) in
      put dfmt (rand_int r 3) @ put ffmt (rand_int r 3)
    end in
  let header_rest = pre @ tables in
  let instr () = match rand_int r 14 with
    | 0 | 1 | 2 -> [0] @ uleb (1 + aw) @ [2] @ enc be (Z.of_int (0x1000 * rand_int r 100)) aw
    | 3 -> [0; 1; 1]
    | 4 -> [2] @ uleb (rand_int r 300) | 5 -> [3] @ sleb (rand_int r 100 - 50)
    | 6 -> [9] @ enc be (Z.of_int (rand_int r 60000)) 2
    | 7 -> let d = uleb (rand_int r 200) in [0] @ uleb (1 + List.length d) @ [4] @ d
    | 8 -> let body = (0x67 :: cstr r) @ uleb 1 @ uleb 2 @ uleb 3 in [0] @ uleb (1 + List.length body) @ [3] @ body
    | 9 -> let k = rand_int r 4 in [0] @ uleb (1 + k) @ [0x80 + rand_int r 3] @ rand_bytes r k
    | 10 -> [13] @ uleb 5 @ uleb 300 | 11 -> [pick r [| 1; 4; 5; 6; 7; 8; 10; 11; 12 |]] @ uleb (rand_int r 9)
    | 12 -> [0] @ uleb (aw + rand_int r 3) @ [2] @ rand_bytes r (aw + 1)
    | _ -> [20 + rand_int r 200] in
  let prog = List.concat (List.init (rand_int r 7) (fun _ -> instr ())) in
  let hl = List.length header_rest in
  let hl = match rand_int r 14 with 0 -> hl + 1 + rand_int r 3 | 1 -> max 0 (hl - 1 - rand_int r 3) | _ -> hl in
  let body = enc be (Z.of_int ver) 2 @ (if ver >= 5 then [asz; (if rand_int r 20 = 0 then 1 else 0)] else [])
             @ enc be (Z.of_int hl) w @ header_rest @ prog in
  let len = List.length body in
  let len = match rand_int r 14 with 0 -> len + 1 + rand_int r 3 | 1 -> max 0 (len - 1 - rand_int r 4) | _ -> len in
  let il = if fmt64 then enc be (Z.of_string "0xffffffff") 4 @ enc be (Z.of_int len) 8 else enc be (Z.of_int len) 4 in
  (asz0, il @ body @ rand_bytes r (rand_int r 3))

(* ---- attributes ---- *)
let all_forms = [| 0x01; 0x03; 0x04; 0x05; 0x06; 0x07; 0x08; 0x09; 0x0a; 0x0b; 0x0c; 0x0d; 0x0e; 0x0f; 0x10; 0x11; 0x12;
                   0x13; 0x14; 0x15; 0x16; 0x17; 0x18; 0x19; 0x1a; 0x1b; 0x1c; 0x1d; 0x1e; 0x1f; 0x20; 0x21; 0x22; 0x23;
                   0x24; 0x25; 0x26; 0x27; 0x28; 0x29; 0x2a; 0x2b; 0x2c; 0x1f01; 0x1f02; 0x1f20; 0x1f21; 0x02; 0x2d; 0x1f03 |]
let reloc_forms = [| 0x01; 0x0e; 0x10; 0x17; 0x1d; 0x1f; 0x1f20; 0x1f21; 0x06; 0x07 |]

let attr_case emit r be ver fmt64 asz name form implicit (payload : int list) with_rels =
  let w = if fmt64 then 8 else 4 in
  let hdr = if ver >= 5 then enc be (Z.of_int ver) 2 @ [1; asz] @ enc be Z.zero w
            else enc be (Z.of_int ver) 2 @ enc be Z.zero w @ [asz] in
  let body = hdr @ [1] @ payload in
  let il = if fmt64 then enc be (Z.of_string "0xffffffff") 4 @ enc be (Z.of_int (List.length body)) 8
           else enc be (Z.of_int (List.length body)) 4 in
  let l = il @ body in
  let foff = List.length il + List.length hdr + 1 in
  let e = { FormSpec.version = n_of_int ver; fmt64 = fmt64; address_size = n_of_int asz; be = be } in
  let spec = { Attr.at_name = n_of_int name; at_form = n_of_int form; at_implicit = cz_of_int implicit } in
  let p = PSkip (n_of_int foff, p_attr (nat_of_int (List.length l + 2)) e spec) in
  let rs = match with_rels with
    | `Gen -> List.filter (fun (x : rrel) -> int_of_n x.rr_pos >= foff) (gen_rels_for r be p l)
    | `One (wd, impl, add) -> [mk_rrel foff wd impl add]
    | `None -> [] in
  parsers_case emit be "attr" [string_of_int ver; string_of_int w; string_of_int asz; string_of_int name;
                               string_of_int form; string_of_int implicit; string_of_int foff] l rs p

let gen_payload r be form w asz =
  match form with
  | 0x08 -> cstr r @ rand_bytes r 2
  | 0x0a -> let k = rand_int r 4 in (k :: rand_bytes r k) @ [7]
  | 0x03 -> let k = rand_int r 4 in enc be (Z.of_int k) 2 @ rand_bytes r k
  | 0x04 -> let k = rand_int r 4 in enc be (Z.of_int k) 4 @ rand_bytes r k
  | 0x09 | 0x18 -> let k = rand_int r 4 in uleb k @ rand_bytes r k
  | 0x16 -> uleb (pick r (if rand_bool r then reloc_forms else all_forms)) @ enc be (Z.of_int (rand_int r 5000)) 8 @ rand_bytes r 4
  | 0x0d -> sleb (rand_int r 100000 - 50000) @ [1]
  | 0x0f | 0x15 | 0x1a | 0x1b | 0x22 | 0x23 | 0x1f01 | 0x1f02 -> uleb (rand_int r 100000) @ [1]
  | _ ->
    ignore w; ignore asz;
    (* fixed-size forms: a small value in the low bytes of a 16-byte field so that addends fit *)
    (if rand_int r 6 = 0 then rand_bytes r 16 else enc be (Z.of_int (rand_int r 5000)) 8 @ enc be (Z.of_int (rand_int r 9)) 8) @ [3]

(* ---- range / location lists ---- *)
let gen_rle r be asz =
  let aw = if List.mem asz [1; 2; 4; 8] then asz else 4 in
  let addr () = enc be (Z.of_int (rand_int r 250)) aw in
  let entry () = match rand_int r 10 with
    | 0 -> [1] @ uleb (rand_int r 300) | 1 -> [2] @ uleb (rand_int r 300) @ uleb (rand_int r 300)
    | 2 -> [3] @ uleb (rand_int r 300) @ uleb (rand_int r 300) | 3 -> [4] @ uleb (rand_int r 300) @ uleb (rand_int r 300)
    | 4 | 5 -> [5] @ addr () | 6 | 7 -> [6] @ addr () @ addr () | 8 -> [7] @ addr () @ uleb (rand_int r 300)
    | _ -> if rand_int r 4 = 0 then [8 + rand_int r 200] else [6] @ addr () @ addr () in
  List.concat (List.init (rand_int r 5) (fun _ -> entry ())) @ (if rand_int r 5 = 0 then [] else [0]) @ rand_bytes r (rand_int r 3)

let gen_lle r be ver asz =
  let aw = if List.mem asz [1; 2; 4; 8] then asz else 4 in
  let addr () = enc be (Z.of_int (rand_int r 250)) aw in
  let data () = let k = rand_int r 4 in (if ver >= 5 then uleb k else enc be (Z.of_int k) 2) @ rand_bytes r k in
  let entry () = match rand_int r 12 with
    | 0 -> [1] @ uleb (rand_int r 300) | 1 -> [2] @ uleb (rand_int r 300) @ uleb (rand_int r 300) @ data ()
    | 2 -> [3] @ uleb (rand_int r 300) @ (if ver >= 5 then uleb (rand_int r 300) else enc be (Z.of_int (rand_int r 300)) 4) @ data ()
    | 3 -> [4] @ uleb (rand_int r 300) @ uleb (rand_int r 300) @ data () | 4 -> [5] @ data ()
    | 5 | 6 -> [6] @ addr () | 7 | 8 -> [7] @ addr () @ addr () @ data () | 9 | 10 -> [8] @ addr () @ uleb (rand_int r 300) @ data ()
    | _ -> if rand_int r 4 = 0 then [9 + rand_int r 200] else [7] @ addr () @ addr () @ data () in
  List.concat (List.init (rand_int r 5) (fun _ -> entry ())) @ (if rand_int r 5 = 0 then [] else [0]) @ rand_bytes r (rand_int r 3)

let gen_locbare r be asz =
  let aw = if List.mem asz [1; 2; 4; 8] then asz else 4 in
  let ones = Z.pred (Z.shift_left Z.one (8 * aw)) in
  let entry () = match rand_int r 6 with
    | 0 -> enc be ones aw @ enc be (Z.of_int (rand_int r 200)) aw
    | 1 -> enc be Z.zero aw @ enc be Z.zero aw
    | _ -> let k = rand_int r 4 in enc be (Z.of_int (rand_int r 200)) aw @ enc be (Z.of_int (1 + rand_int r 250)) aw @ enc be (Z.of_int k) 2 @ rand_bytes r k in
  List.concat (List.init (rand_int r 4) (fun _ -> entry ())) @ (if rand_int r 4 = 0 then [] else List.init (2 * aw) (fun _ -> 0)) @ rand_bytes r (rand_int r 3)

(* ---- .debug_aranges / .debug_pubnames ---- *)
let gen_aranges r be =
  let fmt64 = rand_int r 4 = 0 in
  let w = if fmt64 then 8 else 4 in
  let ver = if rand_int r 12 = 0 then pick r [| 0; 1; 4; 5 |] else pick r [| 2; 2; 3 |] in
  let asz = if rand_int r 12 = 0 then pick r [| 0; 3; 16; 128 |] else pick r sizes_good in
  let aw = if List.mem asz [1; 2; 4; 8] then asz else 4 in
  let hl = (if fmt64 then 12 else 4) + 2 + w + 2 in
  let pad = if hl mod (2 * aw) = 0 then 0 else 2 * aw - hl mod (2 * aw) in
  let tuples = List.concat (List.init (rand_int r 4) (fun _ ->
    if rand_int r 6 = 0 then List.init (2 * aw) (fun _ -> 0)
    else enc be (Z.of_int (rand_int r 250)) aw @ enc be (Z.of_int (1 + rand_int r 250)) aw)) in
  let body = enc be (Z.of_int ver) 2 @ enc be (Z.of_int (rand_int r 5000)) w @ [asz; (if rand_int r 20 = 0 then 4 else 0)]
             @ List.init pad (fun _ -> 0) @ tuples @ (if rand_int r 4 = 0 then [] else List.init (2 * aw) (fun _ -> 0)) in
  let len = List.length body in
  let len = match rand_int r 12 with 0 -> len + 1 + rand_int r 3 | 1 -> max 0 (len - 1 - rand_int r 4) | _ -> len in
  let il = if fmt64 then enc be (Z.of_string "0xffffffff") 4 @ enc be (Z.of_int len) 8 else enc be (Z.of_int len) 4 in
  il @ body @ rand_bytes r (rand_int r 3)

let gen_pubnames r be =
  let set () =
    let fmt64 = rand_int r 4 = 0 in
    let w = if fmt64 then 8 else 4 in
    let ver = if rand_int r 14 = 0 then pick r [| 0; 1; 3 |] else 2 in
    let entries = List.concat (List.init (rand_int r 3) (fun _ -> enc be (Z.of_int (1 + rand_int r 250)) w @ cstr r)) in
    let body = enc be (Z.of_int ver) 2 @ enc be (Z.of_int (rand_int r 5000)) w @ enc be (Z.of_int (rand_int r 5000)) w
               @ entries @ (if rand_int r 4 = 0 then [] else enc be Z.zero w) in
    let len = List.length body in
    let len = match rand_int r 14 with 0 -> len + 1 + rand_int r 3 | 1 -> max 0 (len - 1 - rand_int r 4) | _ -> len in
    (if fmt64 then enc be (Z.of_string "0xffffffff") 4 @ enc be (Z.of_int len) 8 else enc be (Z.of_int len) 4) @ body in
  List.concat (List.init (1 + rand_int r 2) (fun _ -> set ())) @ (if rand_int r 5 = 0 then rand_bytes r 2 else [])

let () =
  register "c18.parsers" ~doc:"the gimli parsers written in the reader monad (line header + instructions, parse_attribute over the whole form table, rnglists/loclists/.debug_loc entries, aranges, pubnames) through RelocateReader vs plain reader on applied bytes vs the model; relocations drawn from the parser's own field map (relocatable fields, plainly read spans, misplaced/overlapping/out of range, overflowing addends); sites handed to Relocate compared"
    (fun ~seed ~n emit ->
      let r = mk_rng (seed + 77) in
      (* grid: every form x versions x formats, a fitting relocation exactly on the field (width 4 and 8), and none *)
      List.iter (fun be -> List.iter (fun ver -> List.iter (fun fmt64 ->
        Array.iter (fun form ->
          let asz = 8 in
          let pl = gen_payload r be form (if fmt64 then 8 else 4) asz in
          attr_case emit r be ver fmt64 asz 0x11 form 5 pl (`One (4, true, Z.of_int 0x1000));
          attr_case emit r be ver fmt64 asz 0x11 form 5 pl (`One (8, false, Z.of_int 0x2468));
          attr_case emit r be ver fmt64 4 0x02 form (-3) pl `None) all_forms)
        [false; true]) [2; 3; 4; 5]) [false; true];
      for _ = 1 to n do
        let be = rand_bool r in
        match rand_int r 16 with
        | 0 | 1 | 2 | 3 | 4 ->
          let (asz0, l) = gen_line r be in
          let l = damage2 r l in
          let p = p_line (nat_of_int (List.length l + 2)) (n_of_int asz0) in
          parsers_case emit be "line" [string_of_int asz0] l (gen_rels_for r be p l) p
        | 5 | 6 | 7 | 8 ->
          let ver = 2 + rand_int r 4 in
          let fmt64 = rand_int r 3 = 0 in
          let asz = pick r sizes_good in   (* parse_unit_header rejects the others before any attribute is read *)
          let form = if rand_int r 3 = 0 then pick r reloc_forms else pick r all_forms in
          let name = if rand_int r 3 = 0 then List.nth secoff_names (rand_int r (List.length secoff_names)) else 1 + rand_int r 0x8b in
          let pl = gen_payload r be form (if fmt64 then 8 else 4) asz in
          let pl = if rand_int r 10 = 0 then List.filteri (fun i _ -> i < rand_int r (List.length pl + 1)) pl else pl in
          attr_case emit r be ver fmt64 asz name form (rand_int r 200 - 100) pl `Gen
        | 9 | 10 ->
          let asz = if rand_int r 15 = 0 then pick r [| 0; 3; 16 |] else pick r sizes_good in
          let l = damage2 r (gen_rle r be asz) in
          let p = p_rnglist (nat_of_int (List.length l + 2)) (n_of_int asz) [] in
          parsers_case emit be "rle" [string_of_int asz] l (gen_rels_for r be p l) p
        | 11 | 12 ->
          let asz = if rand_int r 15 = 0 then pick r [| 0; 3; 16 |] else pick r sizes_good in
          if rand_int r 3 = 0 then begin
            let l = damage2 r (gen_locbare r be asz) in
            let p = p_loc_bare (nat_of_int (List.length l + 2)) (n_of_int asz) [] in
            parsers_case emit be "locbare" [string_of_int asz] l (gen_rels_for r be p l) p
          end else begin
            let ver = if rand_int r 3 = 0 then 4 else 5 in
            let l = damage2 r (gen_lle r be ver asz) in
            let p = p_loclist (nat_of_int (List.length l + 2)) (n_of_int ver) (n_of_int asz) [] in
            parsers_case emit be "lle" [string_of_int ver; string_of_int asz] l (gen_rels_for r be p l) p
          end
        | 13 | 14 ->
          let l = damage2 r (gen_aranges r be) in
          let p = p_aranges (nat_of_int (List.length l + 2)) in
          parsers_case emit be "aranges" [] l (gen_rels_for r be p l) p
        | _ ->
          let l = damage2 r (gen_pubnames r be) in
          let f = nat_of_int (List.length l + 2) in
          let p = p_pubnames f f [] in
          parsers_case emit be "pubnames" [] l (gen_rels_for r be p l) p
      done)

let init () = ()
