(* s_c05.ml — streams for C05 (CIE/FDE decoding and address lookup).
   Model side: extracted CfiRd; structured inputs are serialised by the extracted CfiSpec encoders. *)
open Conv
open Streams
module M = CfiRd
module S = CfiSpec

exception Panicked
exception Fuel
exception E of Res.error

let get = function
  | Res.Ok a -> a | Res.Panic -> raise Panicked | Res.OutOfFuel -> raise Fuel | Res.Err e -> raise (E e)
let guard f = try f () with Panicked -> "panic" | Fuel -> "outoffuel"

let p2 k = Z.shift_left Z.one k
let mask64 = Z.pred (p2 64)
let zmod64 z = Z.logand z mask64

(* ---- printing, must agree with harness/src/c05.rs ---- *)
let slice_str (r : M.rd) =
  let w = r.M.win in
  let rec take n l = if n = 0 then [] else match l with [] -> [] | x :: t -> x :: take (n - 1) t in
  Printf.sprintf "%d:%s" (List.length w) (hex_of_bytes (take 8 w))
let ptr_str = function M.Direct a -> "D" ^ string_of_n a | M.Indirect a -> "I" ^ string_of_n a
let opt_str f = function None -> "-" | Some x -> f x
let fmt_str b = if b then "64" else "32"

let cie_line (c : M.cie) =
  let aug = match c.M.ci_aug with
    | None -> "-"
    | Some a -> Printf.sprintf "L%sP%sR%sS%d" (opt_str string_of_n a.M.a_lsda)
                  (opt_str (fun (e, p) -> string_of_n e ^ ":" ^ ptr_str p) a.M.a_pers)
                  (opt_str string_of_n a.M.a_fde_enc) (if a.M.a_sig then 1 else 0) in
  Printf.sprintf "C %s %s %s %s %s %s %s %s %s %s" (string_of_n c.M.ci_off) (string_of_n c.M.ci_len)
    (fmt_str c.M.ci_fmt64) (string_of_n c.M.ci_ver) (string_of_n c.M.ci_asz) (string_of_n c.M.ci_caf)
    (string_of_cz c.M.ci_daf) (string_of_n c.M.ci_rar) aug (slice_str c.M.ci_instr)

let fde_line (f : M.fde) =
  Printf.sprintf "ok %s %s %s %s %s %s" (string_of_n f.M.fd_cie.M.ci_off) (string_of_n f.M.fd_init)
    (string_of_n f.M.fd_range) (match f.M.fd_aug with Some _ -> "A" | None -> "N")
    (match f.M.fd_aug with Some (Some p) -> ptr_str p | _ -> "-") (slice_str f.M.fd_instr)

let res_line pr = function
  | Res.Ok a -> pr a | Res.Err e -> "err " ^ Errnames.name e
  | Res.Panic -> raise Panicked | Res.OutOfFuel -> raise Fuel

type cfg = { eh : bool; be : bool; asz : int; bsec : Z.t option; btext : Z.t option; bdata : Z.t option }
let sbases_of (a, b, c) = { M.sb_section = Option.map n_of_z a; M.sb_text = Option.map n_of_z b; M.sb_data = Option.map n_of_z c }
let scfg_of (c : cfg) = { M.sc_eh = c.eh; M.sc_be = c.be; M.sc_asz = n_of_int c.asz; M.sc_bases = sbases_of (c.bsec, c.btext, c.bdata) }
let tok_opt = function None -> "-" | Some z -> Z.to_string z
let b01 b = if b then "1" else "0"
let cfg_toks (c : cfg) = Printf.sprintf "%s %s %d %s %s %s" (b01 c.eh) (b01 c.be) c.asz (tok_opt c.bsec) (tok_opt c.btext) (tok_opt c.bdata)

let dump_model dbg (c : cfg) (sec : Byte0.byte list) : string = guard (fun () ->
  let sc = scfg_of c in
  let (items, e) = get (M.entries_all dbg sc sec) in
  let b = Buffer.create 256 in
  Buffer.add_string b "ok";
  List.iter (fun it ->
    Buffer.add_string b " | ";
    match it with
    | M.ICie ci -> Buffer.add_string b (cie_line ci)
    | M.IFde p ->
        Buffer.add_string b (Printf.sprintf "F %s %s %s %s " (string_of_n p.M.pf_off) (string_of_n p.M.pf_len)
          (fmt_str p.M.pf_fmt64) (string_of_n p.M.pf_cie_off));
        Buffer.add_string b (res_line fde_line (M.fde_parse dbg sc sec p))) items;
  (match e with None -> Buffer.add_string b " | end" | Some e -> Buffer.add_string b (" | err " ^ Errnames.name e));
  Buffer.contents b)

let look_line dbg (r : M.fde Res.res) = res_line (fun f ->
  Printf.sprintf "ok %s %s %s" (string_of_n f.M.fd_off) (string_of_n f.M.fd_init) (string_of_n (get (M.fde_end dbg f)))) r

let look_model dbg (c : cfg) sec (addrs : Z.t list) : string = guard (fun () ->
  let sc = scfg_of c in
  "ok" ^ String.concat "" (List.map (fun a -> " | " ^ look_line dbg (M.fde_for_address dbg sc sec (n_of_z a))) addrs))

(* ---- value pools ---- *)
let fmts = [| 0; 1; 2; 3; 4; 9; 10; 11; 12 |]
let apps = [| 0x00; 0x10; 0x20; 0x30; 0x40; 0x50 |]
let valid_encs = Array.concat (List.map (fun ind -> Array.concat (List.map (fun a -> Array.map (fun f -> f lor a lor ind) fmts) (Array.to_list apps))) [0; 0x80])
let common_encs = [| 0x00; 0x1b; 0x03; 0x0b; 0x9b; 0x10; 0x1c; 0x04; 0x0c; 0x3b; 0x33; 0x01; 0x09; 0x02; 0x0a; 0x2b; 0x4b; 0x43; 0x41; 0x49; 0x50; 0xff; 0x30 |]
let pick_enc r = match rand_int r 10 with
  | 0 | 1 | 2 | 3 -> pick r common_encs
  | 4 -> rand_int r 256
  | _ -> pick r valid_encs

let signed_to_u64 z = zmod64 z
(* a raw value that fits format fmt at address size asz (as the sign-extended u64 the reader returns) *)
let raw_for r fmt asz : Z.t =
  let bits = match fmt with 0 -> 8 * asz | 2 | 10 -> 16 | 3 | 11 -> 32 | _ -> 64 in
  let bits = if bits <= 0 || bits > 64 then 64 else bits in
  let signed = fmt >= 9 in
  if signed then begin
    let lim = p2 (bits - 1) in
    let z = match rand_int r 8 with
      | 0 -> Z.zero | 1 -> Z.minus_one | 2 -> Z.pred lim | 3 -> Z.neg lim
      | 4 -> Z.of_int (rand_int r 4096 - 2048)
      | 5 -> Z.of_int (rand_int r 300)
      | _ -> let x = Z.rem (rand_z64 r) (Z.shift_left lim 1) in Z.sub x lim in
    signed_to_u64 z
  end else begin
    let lim = p2 bits in
    match rand_int r 8 with
    | 0 -> Z.zero | 1 -> Z.one | 2 -> Z.pred lim | 3 -> p2 (bits - 1)
    | 4 -> Z.of_int (rand_int r 4096) |> fun x -> Z.rem x lim
    | 5 -> Z.pred (p2 (bits - 1))
    | _ -> Z.rem (rand_z64 r) lim
  end

let base_pool r asz : Z.t option =
  let lim = p2 (8 * (if asz >= 1 && asz <= 8 then asz else 8)) in
  match rand_int r 9 with
  | 0 -> None
  | 1 -> Some Z.zero
  | 2 -> Some (Z.pred lim)
  | 3 -> Some (Z.pred (p2 64))
  | 4 -> Some (Z.sub lim (Z.of_int (1 + rand_int r 64)) |> Z.max Z.zero)
  | 5 -> Some (Z.of_int (0x1000 * (1 + rand_int r 15)))
  | 6 -> Some (boundary_z64 r)
  | _ -> Some (Z.of_int (rand_int r 0x10000))

let rand_cfg r ~eh : cfg =
  let asz = match rand_int r 12 with 0 -> 4 | 1 -> 2 | 2 -> 1 | 3 -> 4 | _ -> 8 in
  { eh; be = rand_int r 4 = 0; asz; bsec = base_pool r asz; btext = base_pool r asz; bdata = base_pool r asz }

(* ---- structured sections ---- *)
let nops n = List.init n (fun _ -> byte_of_int 0)

let rand_items r asz : bool * S.aug_item list =
  (* every subset of L P R S in a random order; 'z' present unless (rarely) an S-only / bad string *)
  let mask = rand_int r 16 in
  let l = List.filter (fun i -> mask land (1 lsl i) <> 0) [0; 1; 2; 3] in
  let arr = Array.of_list l in
  for i = Array.length arr - 1 downto 1 do
    let j = rand_int r (i + 1) in let t = arr.(i) in arr.(i) <- arr.(j); arr.(j) <- t done;
  let mk = function
    | 0 -> S.AL (n_of_int (pick_enc r))
    | 1 -> let e = pick_enc r in S.AP (n_of_int e, n_of_z (raw_for r (e land 15) asz))
    | 2 -> S.AR (n_of_int (pick_enc r))
    | _ -> S.AS in
  let items = List.map mk (Array.to_list arr) in
  let z = if items = [] then rand_int r 3 = 0 else rand_int r 20 <> 0 in
  (z, items)

let item_kind = function S.AL _ -> 0 | S.AP _ -> 1 | S.AR _ -> 2 | S.AS -> 3

let rand_cie r (c : cfg) ?items () : S.cie_rec =
  let ver = if c.eh then (if rand_int r 6 = 0 then pick r [| 3; 4 |] else 1) else pick r [| 1; 3; 4; 4 |] in
  let casz = match rand_int r 10 with 0 -> 4 | 1 -> 2 | 2 -> 1 | 3 -> 4 | _ -> 8 in
  let asz = if (not c.eh) && ver = 4 then casz else c.asz in
  let (z, items) = match items with Some zi -> zi | None -> rand_items r asz in
  { S.c_fmt64 = rand_int r 5 = 0; c_ver = n_of_int ver; c_z = z; c_items = items; c_asz = n_of_int casz;
    c_caf = n_of_z (match rand_int r 4 with 0 -> Z.one | 1 -> Z.of_int 4 | 2 -> boundary_z64 r | _ -> Z.of_int (rand_int r 200));
    c_daf = cz_of_z (match rand_int r 5 with 0 -> Z.of_int (-8) | 1 -> Z.of_int (-4) | 2 -> Z.neg (p2 63) | 3 -> Z.pred (p2 63) | _ -> Z.of_int (rand_int r 300 - 150));
    c_rar = n_of_int (if ver = 1 then rand_int r 256 else match rand_int r 4 with 0 -> 65535 | 1 -> 16 | _ -> rand_int r 2000);
    c_instr = nops (rand_int r 9) }

let cie_enc_asz (c : cfg) (ci : S.cie_rec) = if (not c.eh) && int_of_n ci.S.c_ver = 4 then int_of_n ci.S.c_asz else c.asz

let rand_fde r (c : cfg) (cies : (int * S.cie_rec) list) : S.fde_rec =
  let (idx, ci) = List.nth cies (rand_int r (List.length cies)) in
  let asz = cie_enc_asz c ci in
  let rfmt = match S.find_R ci.S.c_items with Some e -> int_of_n e land 15 | None -> 0 in
  let lfmt = match S.find_L ci.S.c_items with Some e -> int_of_n e land 15 | None -> 0 in
  { S.f_fmt64 = rand_int r 6 = 0; f_cie = nat_of_int idx;
    f_init = n_of_z (raw_for r rfmt asz); f_range = n_of_z (raw_for r rfmt asz);
    f_lsda = n_of_z (raw_for r lfmt asz);
    f_pad = (if rand_int r 4 = 0 then nops (rand_int r 4) else []);
    f_instr = nops (rand_int r 9) }

(* a random entry list: CIEs and FDEs interleaved in any order, optional zero lengths *)
let rand_entries r (c : cfg) : S.entry list =
  let ncie = 1 + rand_int r 3 in
  let nfde = rand_int r 6 in
  let total = ncie + nfde in
  (* positions of CIEs: in .eh_frame a CIE must precede its FDEs, so put the first CIE first *)
  let kinds = Array.make total false in
  kinds.(0) <- true;
  let placed = ref 1 in
  while !placed < ncie do
    let i = rand_int r total in if not kinds.(i) then (kinds.(i) <- true; incr placed) done;
  let cies = ref [] in
  Array.iteri (fun i k -> if k then cies := (i, rand_cie r c ()) :: !cies) kinds;
  let cies = List.rev !cies in
  let es = List.init total (fun i ->
    if kinds.(i) then S.ECie (List.assoc i cies)
    else begin
      let avail = if c.eh && rand_int r 8 <> 0 then List.filter (fun (j, _) -> j < i) cies else cies in
      S.EFde (rand_fde r c avail)
    end) in
  (* zero-length entries shift indices: insert only after the list is fixed, then re-index *)
  if rand_int r 6 = 0 then begin
    let pos = rand_int r (total + 1) in
    let shift i = if i >= pos then i + 1 else i in
    let es = List.map (function
      | S.EFde f -> S.EFde { f with S.f_cie = nat_of_int (shift (int_of_nat f.S.f_cie)) } | e -> e) es in
    let rec ins k = function l when k = 0 -> S.EZero :: l | [] -> [S.EZero] | x :: t -> x :: ins (k - 1) t in
    ins pos es
  end else es

let sparams_of (c : cfg) = { S.s_eh = c.eh; S.s_be = c.be; S.s_asz = n_of_int c.asz }
let encode (c : cfg) es = S.enc_section (sparams_of c) es

(* all permutations of all subsets of {L,P,R,S} *)
let rec perms = function
  | [] -> [[]]
  | l -> List.concat_map (fun x -> List.map (fun p -> x :: p) (perms (List.filter (( <> ) x) l))) l
let rec subsets = function [] -> [[]] | x :: t -> let s = subsets t in s @ List.map (fun l -> x :: l) s
let all_orders = List.concat_map perms (subsets [0; 1; 2; 3])   (* 65 *)

(* ---- mutation ---- *)
let mutate r (l : int list) : int list =
  let a = Array.of_list l in
  let n = Array.length a in
  if n = 0 then rand_bytes r (rand_int r 6) else
  match rand_int r 8 with
  | 0 -> Array.to_list (Array.sub a 0 (rand_int r n))                       (* truncate *)
  | 1 -> let i = rand_int r n in a.(i) <- rand_int r 256; Array.to_list a   (* random byte *)
  | 2 -> let i = rand_int r n in a.(i) <- pick r [| 0; 0xff; 0x80; 0x7f; 1 |]; Array.to_list a
  | 3 -> let i = rand_int r n in a.(i) <- a.(i) lxor (1 lsl rand_int r 8); Array.to_list a
  | 4 -> let i = rand_int r n in                                             (* make a length/LEB extreme *)
         for k = i to min (n - 1) (i + 3 + rand_int r 8) do a.(k) <- 0xff done; Array.to_list a
  | 5 -> let i = rand_int r (n + 1) in                                       (* splice random bytes *)
         Array.to_list (Array.sub a 0 i) @ rand_bytes r (1 + rand_int r 5) @ Array.to_list (Array.sub a i (n - i))
  | 6 -> let i = rand_int r n in                                             (* delete a byte *)
         Array.to_list (Array.sub a 0 i) @ Array.to_list (Array.sub a (i + 1) (n - i - 1))
  | _ -> let i = rand_int r n in let j = rand_int r n in a.(i) <- a.(j); Array.to_list a

let ints_of_bytes (l : Byte0.byte list) = List.map int_of_byte l

(* field-aware variant: leave the length words of the entries alone (their offsets are given), so
   that the damage lands in ids, versions, augmentation strings/data, LEBs and addresses *)
let mutate_body r (starts : int list) (l : int list) : int list =
  let a = Array.of_list l in
  let n = Array.length a in
  if n = 0 then [] else begin
    let prot i = List.exists (fun s -> i >= s && i < s + 4) starts in
    let rec idx k = let i = rand_int r n in if prot i && k > 0 then idx (k - 1) else i in
    let times = 1 + rand_int r 3 in
    for _ = 1 to times do
      let i = idx 10 in
      if not (prot i) then
        a.(i) <- (match rand_int r 6 with
          | 0 -> rand_int r 256 | 1 -> pick r [| 0; 0xff; 0x80; 0x7f; 1; 4; 8 |]
          | 2 -> a.(i) lxor (1 lsl rand_int r 8) | 3 -> pick r [| 0x7a; 0x4c; 0x50; 0x52; 0x53; 0x65 |]
          | 4 -> pick_enc r | _ -> a.(i) lxor 0x80)
    done;
    Array.to_list a
  end

(* probe addresses around every FDE the model can decode, plus a few random ones *)
let probes r dbg (c : cfg) sec : Z.t list =
  let sc = scfg_of c in
  let acc = ref [] in
  (try
    let (items, _) = get (M.entries_all dbg sc sec) in
    List.iter (function
      | M.IFde p ->
          (match M.fde_parse dbg sc sec p with
           | Res.Ok f ->
               let i = z_of_n f.M.fd_init in
               let e = (match M.fde_end false f with Res.Ok e -> z_of_n e | _ -> i) in
               List.iter (fun z -> acc := zmod64 z :: !acc)
                 [Z.pred i; i; Z.succ i; Z.pred e; e; Z.succ e]
           | _ -> ())
      | _ -> ()) items
  with _ -> ());
  let l = List.rev !acc in
  let l = if List.length l > 18 then List.filteri (fun i _ -> i < 18) l else l in
  l @ [boundary_z64 r; Z.of_int (rand_int r 0x10000)]

(* ---- .eh_frame_hdr ---- *)
let tbl_encs = [| 0x3b; 0x03; 0x0b; 0x04; 0x0c; 0x02; 0x0a; 0x1b; 0x33; 0x13; 0x1c; 0x3c; 0x12; 0x3a; 0x1a; 0x34 |]

let hdr_model dbg be (hasz : int) hb (hbytes : Byte0.byte list) (ec : cfg) esec (addrs : Z.t list) : string = guard (fun () ->
  let hbs = sbases_of hb in
  match M.hdr_parse dbg be hbs (n_of_int hasz) hbytes with
  | Res.Err e -> "err " ^ Errnames.name e
  | Res.Panic -> raise Panicked | Res.OutOfFuel -> raise Fuel
  | Res.Ok h ->
    let b = Buffer.create 256 in
    Buffer.add_string b (Printf.sprintf "ok %s %s" (ptr_str h.M.h_ptr) (slice_str h.M.h_table));
    (match M.hdr_table h with
     | None -> Buffer.add_string b " notable"
     | Some h ->
       let (rows, e) = get (M.tbl_all dbg hbs h) in
       Buffer.add_string b " rows";
       List.iter (fun (x, y) -> Buffer.add_string b (" " ^ ptr_str x ^ ":" ^ ptr_str y)) rows;
       (match e with None -> Buffer.add_string b " end" | Some e -> Buffer.add_string b (" err " ^ Errnames.name e));
       let sc = scfg_of ec in
       List.iter (fun a ->
         let a = n_of_z a in
         Buffer.add_string b " |";
         (match M.hdr_lookup dbg hbs h a with
          | Res.Ok p ->
              Buffer.add_string b (" " ^ ptr_str p);
              (match M.pointer_to_offset dbg h p with
               | Res.Ok o -> Buffer.add_string b (" " ^ string_of_n o)
               | Res.Err e -> Buffer.add_string b (" " ^ Errnames.name e)
               | Res.Panic -> raise Panicked | Res.OutOfFuel -> raise Fuel)
          | Res.Err e -> Buffer.add_string b (" " ^ Errnames.name e)
          | Res.Panic -> raise Panicked | Res.OutOfFuel -> raise Fuel);
         let r = M.hdr_fde_for_address dbg hbs h sc esec a in
         let s = look_line dbg r in
         Buffer.add_string b (" " ^ String.concat ":" (String.split_on_char ' ' s))) addrs);
    Buffer.contents b)

type hcase = { hbe : bool; hasz : int; hb : Z.t option * Z.t option * Z.t option; hbytes : int list;
               ec : cfg; ebytes : int list; wf : bool; addrs : Z.t list }

let hcase_line name (h : hcase) =
  let (a, b, c) = h.hb in
  Printf.sprintf "%s %s %d %s %s %s %s %d %s %s %s %s %s%s" name (b01 h.hbe) h.hasz (tok_opt a) (tok_opt b) (tok_opt c)
    (hex_of_ints h.hbytes) h.ec.asz (tok_opt h.ec.bsec) (tok_opt h.ec.btext) (tok_opt h.ec.bdata)
    (hex_of_ints h.ebytes) (b01 h.wf) (String.concat "" (List.map (fun z -> " " ^ Z.to_string z) h.addrs))

let hcase_model dbg (h : hcase) =
  hdr_model dbg h.hbe h.hasz h.hb (bytes_of_ints h.hbytes) h.ec (bytes_of_ints h.ebytes) h.addrs

(* value v (a target address) as the raw encoded value for (enc at field position pos); None if it does not fit *)
let raw_of_target ~enc ~asz ~(hb : Z.t option * Z.t option * Z.t option) ~pos (target : Z.t) : Z.t option =
  let (bs, bt, bd) = hb in
  let m = p2 (8 * asz) in
  let base = match enc land 0x70 with
    | 0x00 -> Some Z.zero
    | 0x10 -> Option.map (fun s -> Z.rem (Z.add s (Z.of_int pos)) m) bs
    | 0x20 -> bt | 0x30 -> bd | _ -> None in
  match base with
  | None -> None
  | Some base ->
    let d = Z.erem (Z.sub target base) m in            (* offset modulo the address size *)
    let fmt = enc land 15 in
    let signed = fmt >= 9 in
    (* for signed formats prefer the negative representative when the high bit (at address size) is set *)
    let v = if signed && Z.geq d (Z.shift_right m 1) then zmod64 (Z.sub d m) else d in
    if S.value_fits (n_of_int fmt) (n_of_int asz) (n_of_z v) then Some v else None

let field_size enc asz = match enc land 15 with 0 -> asz | 2 | 10 -> 2 | 3 | 11 -> 4 | 4 | 12 -> 8 | _ -> 0

(* a well-formed .eh_frame (disjoint, non-empty FDE ranges, nop instructions) + matching header *)
let gen_wf_hdr ?(instr = fun (_ : bool) (n : int) -> nops n) ?(overlap = false) r ~(nfde : int) : hcase option =
  let be = rand_int r 5 = 0 in
  let easz = pick r [| 8; 8; 4; 4; 2 |] in
  let alim = if easz = 2 then 0x7000 else 0x7fff0000 in
  let esec = Some (Z.of_int (pick r [| 0x1000; 0x2000; 0x400 |])) in
  let ec = { eh = true; be; asz = easz; bsec = esec; btext = Some (Z.of_int 0x100); bdata = Some (Z.of_int 0x300) } in
  (* CIEs: 1..2, FDE address encoding absolute or pcrel fixed-size so that targets can be hit exactly *)
  let renc () = pick r (if easz = 2 then [| 0x00; 0x02; 0x0a; 0x1a; 0x12 |] else [| 0x1b; 0x00; 0x03; 0x0b; 0x1b; 0x13; 0x2b; 0x33 |]) in
  let mk_cie () =
    let e = renc () in
    let items = if e = 0 && rand_bool r then (rand_bool r, []) else (true, (if rand_bool r then [S.AS] else []) @ [S.AR (n_of_int e)]) in
    let items = if fst items = false && snd items <> [] then (true, snd items) else items in
    { (rand_cie r ec ~items ()) with S.c_ver = n_of_int 1; S.c_fmt64 = rand_int r 8 = 0; S.c_instr = instr true (rand_int r 4) } in
  let ncie = 1 + rand_int r 2 in
  let cies = List.init ncie (fun _ -> mk_cie ()) in
  (* layout: CIE0, then FDEs (shuffled order of address), CIE1 somewhere in the middle *)
  let step = max 4 ((alim - 0x100) / (nfde + 1) / 4) in
  let starts = Array.init nfde (fun i -> 0x100 + (i * 4 + rand_int r 3) * step / 1) in
  let lens = Array.init nfde (fun i -> 1 + rand_int r (max 1 ((if overlap then 3 * step else step) - 1))) in
  let order = Array.init nfde (fun i -> i) in
  if rand_bool r then
    for i = nfde - 1 downto 1 do let j = rand_int r (i + 1) in let t = order.(i) in order.(i) <- order.(j); order.(j) <- t done;
  let entries = ref [S.ECie (List.hd cies)] in
  let cie_pos = ref [0] in
  Array.iteri (fun k fi ->
    if ncie = 2 && k = nfde / 2 then begin
      cie_pos := !cie_pos @ [List.length !entries]; entries := !entries @ [S.ECie (List.nth cies 1)] end;
    let ci_idx = rand_int r (List.length !cie_pos) in
    let f = { S.f_fmt64 = rand_int r 8 = 0; f_cie = nat_of_int (List.nth !cie_pos ci_idx);
              f_init = n_of_int 0; f_range = n_of_int lens.(fi); f_lsda = n_of_int 0; f_pad = []; f_instr = instr false (rand_int r 5) } in
    entries := !entries @ [S.EFde f]) order;
  let es0 = !entries in
  (* pass 1: decode with raw init 0 to learn each FDE's base, then hit the targets *)
  let sec0 = encode ec es0 in
  let sc = scfg_of ec in
  let (items, _) = get (M.entries_all false sc sec0) in
  let fdes0 = List.filter_map (function M.IFde p -> Some p | _ -> None) items in
  if List.length fdes0 <> nfde then None else
  let ok = ref true in
  let k = ref 0 in
  let es = List.map (function
    | S.EFde f ->
        let fi = order.(!k) in
        let p = List.nth fdes0 !k in incr k;
        (match M.fde_parse false sc sec0 p with
         | Res.Ok fd ->
             let base0 = z_of_n fd.M.fd_init in
             let ci = fd.M.fd_cie in
             let enc = match ci.M.ci_aug with Some a -> (match a.M.a_fde_enc with Some e -> int_of_n e | None -> 0) | None -> 0 in
             let m = p2 (8 * easz) in
             let d = Z.erem (Z.sub (Z.of_int starts.(fi)) base0) m in
             let fmt = enc land 15 in
             let v = if fmt >= 9 && Z.geq d (Z.shift_right m 1) then zmod64 (Z.sub d m) else d in
             if not (S.value_fits (n_of_int fmt) (n_of_int easz) (n_of_z v)) then ok := false;
             S.EFde { f with S.f_init = n_of_z v }
         | _ -> ok := false; S.EFde f)
    | e -> e) es0 in
  if not !ok then None else
  let sec = encode ec es in
  let (items, _) = get (M.entries_all false sc sec) in
  let fdes = List.filter_map (function M.IFde p -> (match M.fde_parse false sc sec p with Res.Ok f -> Some f | _ -> None) | _ -> None) items in
  if List.length fdes <> nfde then None else
  (* header *)
  let hasz = easz in
  let tenc = if easz = 2 then pick r [| 0x02; 0x0a; 0x3a; 0x1a; 0x12 |] else pick r tbl_encs in
  let hsec = Z.of_int (pick r [| 0x800; 0x3000; 0x100 |]) in
  let hb = (Some hsec, Some (Z.of_int 0x40), Some hsec) in
  let eh_ptr = match esec with Some z -> z | None -> Z.zero in
  let penc = if easz = 2 then pick r [| 0x02; 0x00 |] else pick r [| 0x1b; 0x03; 0x00; 0x3b; 0x0b |] in
  let cenc = if easz = 2 then 0x02 else pick r [| 0x03; 0x03; 0x02; 0x04; 0x00 |] in
  let fs = field_size tenc hasz in
  let psize = field_size penc hasz and csize = field_size cenc hasz in
  let rows = List.sort (fun a b -> compare (z_of_n a.M.fd_init) (z_of_n b.M.fd_init)) fdes in
  let pos0 = 4 + psize + csize in
  let fail = ref false in
  let need = function Some v -> n_of_z v | None -> fail := true; n_of_int 0 in
  let ptr_raw = need (raw_of_target ~enc:penc ~asz:hasz ~hb ~pos:4 eh_ptr) in
  let rows_raw = List.mapi (fun i f ->
    let p1 = pos0 + i * 2 * fs in
    (need (raw_of_target ~enc:tenc ~asz:hasz ~hb ~pos:p1 (z_of_n f.M.fd_init)),
     need (raw_of_target ~enc:tenc ~asz:hasz ~hb ~pos:(p1 + fs) (Z.add eh_ptr (z_of_n f.M.fd_off))))) rows in
  if !fail then None else
  let hrec = { S.h_ptr_enc = n_of_int penc; h_cnt_enc = n_of_int cenc; h_tbl_enc = n_of_int tenc;
               h_ptr_raw = ptr_raw; h_cnt = n_of_int nfde; h_rows = rows_raw } in
  let hbytes = S.enc_hdr be (n_of_int hasz) hrec in
  let addrs = List.concat_map (fun f ->
    let i = z_of_n f.M.fd_init in
    let e = Z.add i (z_of_n f.M.fd_range) in
    List.map zmod64 [Z.pred i; i; Z.succ i; Z.pred e; e; Z.succ e]) rows in
  let addrs = if List.length addrs > 30 then List.filteri (fun i _ -> i < 12 || i mod 5 = 0) addrs else addrs in
  let addrs = addrs @ [Z.zero; Z.of_int (rand_int r alim); Z.pred (p2 64)] in
  Some { hbe = be; hasz; hb; hbytes = ints_of_bytes hbytes; ec; ebytes = ints_of_bytes sec; wf = not overlap; addrs }

let rec gen_wf_hdr_retry ?instr ?overlap r ~nfde k = if k = 0 then None else
  match (try gen_wf_hdr ?instr ?overlap r ~nfde with _ -> None) with Some h -> Some h | None -> gen_wf_hdr_retry ?instr ?overlap r ~nfde (k - 1)

(* perturb a well-formed header case: unsorted table, wrong count, damaged bytes *)
let perturb_hdr r (h : hcase) : hcase =
  let h = { h with wf = false } in
  match rand_int r 6 with
  | 0 -> { h with hbytes = mutate r h.hbytes }
  | 1 -> { h with ebytes = mutate r h.ebytes }
  | 2 -> (* swap two table rows: unsorted *)
      let a = Array.of_list h.hbytes in
      let n = Array.length a in
      if n >= 16 then begin
        let i = n - 8 - rand_int r (n / 2) and j = n - 4 in
        let i = max 8 i in
        for k = 0 to 3 do let t = a.(i + k) in if i + k < n && j + k < n then (a.(i + k) <- a.(j + k); a.(j + k) <- t) done end;
      { h with hbytes = Array.to_list a }
  | 3 -> { h with hb = (let (a, b, c) = h.hb in match rand_int r 3 with 0 -> (None, b, c) | 1 -> (a, b, None) | _ -> (base_pool r h.hasz, b, base_pool r h.hasz)) }
  | 4 -> { h with hasz = pick r [| 1; 2; 4; 8 |] }
  | _ -> { h with addrs = List.map (fun _ -> boundary_z64 r) h.addrs }

(* explicit families that reach the two (formerly unchecked) u64 operations of EhHdrTable *)
let witness_hdrs () : hcase list =
  let ec = { eh = true; be = false; asz = 8; bsec = None; btext = None; bdata = None } in
  let le n v = List.init n (fun i -> Z.to_int (Z.logand (Z.shift_right v (8 * i)) (Z.of_int 255))) in
  let mk ~cenc ~tenc ~count ~table ~addrs =
    { hbe = false; hasz = 8; hb = (None, None, None);
      hbytes = [1; 0x03; cenc; tenc] @ le 4 (Z.of_int 0x100) @ le (if cenc = 4 then 8 else 4) count @ table;
      ec; ebytes = [0; 0; 0; 0]; wf = false; addrs } in
  [ (* mul: fde_count >= 2^61 with 16-byte rows *)
    mk ~cenc:4 ~tenc:4 ~count:(p2 63) ~table:(List.init 16 (fun _ -> 0)) ~addrs:[Z.of_int 5];
    mk ~cenc:4 ~tenc:4 ~count:(p2 61) ~table:(List.init 16 (fun _ -> 0)) ~addrs:[Z.of_int 5];
    mk ~cenc:4 ~tenc:3 ~count:(p2 62) ~table:(List.init 16 (fun _ -> 0)) ~addrs:[Z.of_int 5];
    mk ~cenc:4 ~tenc:2 ~count:(Z.pred (p2 64)) ~table:(List.init 16 (fun _ -> 0)) ~addrs:[Z.of_int 5];
    (* just below the overflow: no panic *)
    mk ~cenc:4 ~tenc:4 ~count:(Z.pred (p2 61)) ~table:(List.init 16 (fun _ -> 0)) ~addrs:[Z.of_int 5];
    (* s1: a table address below eh_frame_ptr *)
    mk ~cenc:3 ~tenc:3 ~count:Z.one ~table:(le 4 (Z.of_int 0x10) @ le 4 (Z.of_int 0xff)) ~addrs:[Z.of_int 0x20];
    mk ~cenc:3 ~tenc:3 ~count:Z.one ~table:(le 4 (Z.of_int 0x10) @ le 4 Z.zero) ~addrs:[Z.zero];
    (* equal: offset 0 *)
    mk ~cenc:3 ~tenc:3 ~count:Z.one ~table:(le 4 (Z.of_int 0x10) @ le 4 (Z.of_int 0x100)) ~addrs:[Z.of_int 0x20] ]

let hdr_cases ~seed ~n ~(raw : bool) (k : hcase -> unit) =
  let r = mk_rng seed in
  if raw then List.iter k (witness_hdrs ());
  (* every fde_count encoding byte (only bare formats are accepted) and every table encoding byte *)
  if raw then begin
    let ec = { eh = true; be = false; asz = 8; bsec = None; btext = None; bdata = None } in
    let body = [0; 0x10; 0; 0;  2; 0; 0; 0; 0; 0; 0; 0;  0x10; 0; 0; 0; 0; 0x10; 0; 0; 0x20; 0; 0; 0; 0; 0x10; 0; 0; 9; 9; 9; 9] in
    for e = 0 to 255 do
      k { hbe = false; hasz = 8; hb = (Some (Z.of_int 0x100), Some (Z.of_int 0x200), Some (Z.of_int 0x300));
          hbytes = [1; 0x03; e; 0x03] @ body; ec; ebytes = [0; 0; 0; 0]; wf = false; addrs = [Z.of_int 0x18] };
      k { hbe = false; hasz = 4; hb = (Some (Z.of_int 0x100), None, Some (Z.of_int 0x300));
          hbytes = [1; 0x03; 0x03; e] @ body; ec; ebytes = [0; 0; 0; 0]; wf = false; addrs = [Z.of_int 0x18; Z.of_int 0x1000] }
    done
  end;
  (* length 0: an omitted / zero fde_count means "no table" *)
  (let ec = { eh = true; be = false; asz = 8; bsec = None; btext = None; bdata = None } in
   List.iter (fun hb ->
     k { hbe = false; hasz = 8; hb = (None, None, None); hbytes = hb; ec; ebytes = [0; 0; 0; 0]; wf = false; addrs = [Z.of_int 5] })
     [ [1; 0x03; 0x03; 0x03; 0; 0x10; 0; 0; 0; 0; 0; 0]; [1; 0x03; 0xff; 0x03; 0; 0x10; 0; 0; 1; 0; 0; 0];
       [1; 0x03; 0x03; 0xff; 0; 0x10; 0; 0; 1; 0; 0; 0]; [1; 0x03; 0x03; 0x03; 0; 0x10; 0; 0; 0; 0; 0; 0; 9; 9; 9; 9; 9; 9; 9; 9] ]);
  (* table lengths 1,2,3 and many, always *)
  List.iter (fun nfde ->
    for _ = 1 to 6 do
      match gen_wf_hdr_retry r ~nfde 20 with
      | Some h -> k (if raw then perturb_hdr r h else h)
      | None -> ()
    done) [1; 2; 3; 4; 5; 7; 8; 16; 33];
  for _ = 1 to n do
    let nfde = match rand_int r 8 with 0 -> 1 | 1 -> 2 | 2 -> 3 | 3 -> 1 + rand_int r 40 | _ -> 1 + rand_int r 9 in
    match gen_wf_hdr_retry r ~nfde 20 with
    | Some h ->
        if raw then begin
          let h = perturb_hdr r h in
          let h = if rand_int r 3 = 0 then perturb_hdr r h else h in
          k h
        end else k h
    | None -> ()
  done;
  if raw then
    for _ = 1 to n / 4 + 1 do
      (* header with a random/extreme count over random bytes *)
      let be = rand_bool r in
      let hasz = pick r [| 8; 4; 2; 1 |] in
      let penc = pick_enc r and cenc = pick r [| 0x03; 0x04; 0x02; 0x01; 0x00; 0xff; 0x0b; 0x09; 0x13 |] and tenc = pick_enc r in
      let body = rand_bytes r (rand_int r 40) in
      let body = if rand_int r 3 = 0 then List.map (fun b -> if rand_int r 3 = 0 then 0xff else b) body else body in
      let ver = if rand_int r 20 = 0 then rand_int r 256 else 1 in
      let ec = rand_cfg r ~eh:true in
      let ec = { ec with be } in
      let es = rand_entries r ec in
      let eb = ints_of_bytes (encode ec es) in
      k { hbe = be; hasz; hb = (base_pool r hasz, base_pool r hasz, base_pool r hasz);
          hbytes = [ver; penc; cenc; tenc] @ body; ec; ebytes = eb; wf = false;
          addrs = [boundary_z64 r; Z.of_int (rand_int r 0x10000); Z.zero] }
    done

(* ---- section case plumbing ---- *)
let sec_case name (c : cfg) (bytes : int list) = Printf.sprintf "%s %s %s" name (cfg_toks c) (hex_of_ints bytes)

let grid_sections (k : cfg -> S.entry list -> unit) =
  (* every order of every subset of L,P,R,S x section kind/version x 32/64-bit x byte order *)
  let r = mk_rng 12345 in
  List.iter (fun order ->
    List.iter (fun (eh, ver) ->
      List.iter (fun fmt64 ->
        List.iter (fun be ->
          let c = { eh; be; asz = (if ver = 4 then 4 else 8); bsec = Some (Z.of_int 0x1000); btext = Some (Z.of_int 0x2000); bdata = Some (Z.of_int 0x3000) } in
          let mk = function
            | 0 -> S.AL (n_of_int (pick r [| 0x1b; 0x00; 0x4b; 0x03; 0x9b |]))
            | 1 -> let e = pick r [| 0x9b; 0x00; 0x1b; 0x03; 0x01; 0x09; 0x30 |] in S.AP (n_of_int e, n_of_z (raw_for r (e land 15) 8))
            | 2 -> S.AR (n_of_int (pick r [| 0x1b; 0x00; 0x03; 0x0b; 0x1c; 0x01; 0x09; 0x2b; 0x33 |]))
            | _ -> S.AS in
          let items = List.map mk order in
          let ci = { (rand_cie r c ~items:(true, items) ()) with S.c_ver = n_of_int ver; S.c_fmt64 = fmt64; S.c_asz = n_of_int 8 } in
          let f1 = rand_fde r c [(0, ci)] and f2 = rand_fde r c [(0, ci)] in
          k c [S.ECie ci; S.EFde f1; S.EFde { f2 with S.f_fmt64 = fmt64 }]) [false; true]) [false; true])
      [(true, 1); (false, 1); (false, 3); (false, 4)]) all_orders

let () =
  register "c05.pe" ~doc:"DwEhPe::{is_valid_encoding,format,application,is_absent,is_indirect}: all 256 encoding bytes" (fun ~seed:_ ~n:_ emit ->
    for e = 0 to 255 do
      let en = n_of_int e in
      both emit (Printf.sprintf "c05.pe %d" e) (fun _ ->
        Printf.sprintf "ok %d %s %s %d %d" (if M.pe_is_valid en then 1 else 0) (string_of_n (M.pe_format en))
          (string_of_n (M.pe_application en)) (if M.pe_is_absent en then 1 else 0) (if M.pe_is_indirect en then 1 else 0))
    done);
  register "c05.ptr" ~doc:"parse_pointer_encoding + parse_encoded_pointer through the eh_frame_ptr field: all 256 bytes x address sizes x bases present/absent; boundary values for every valid encoding" (fun ~seed ~n emit ->
    let case be enc asz (hb : Z.t option * Z.t option * Z.t option) (bytes : int list) =
      let (a, b, c) = hb in
      let cs = Printf.sprintf "c05.ptr %s %d %d %s %s %s %s" (b01 be) enc asz (tok_opt a) (tok_opt b) (tok_opt c) (hex_of_ints bytes) in
      both emit cs (fun dbg -> guard (fun () ->
        let sec = bytes_of_ints ([1; enc; 0xff; 0xff] @ bytes) in
        res_line (fun h -> Printf.sprintf "ok %s %s" (ptr_str h.M.h_ptr) (slice_str h.M.h_table))
          (M.hdr_parse dbg be (sbases_of hb) (n_of_int asz) sec))) in
    let all_b = (Some (Z.of_int 0x1000), Some (Z.of_int 0x2000), Some (Z.of_int 0x3000)) and no_b = (None, None, None) in
    let sample = [0x10; 0x32; 0x54; 0x76; 0x98; 0xba; 0xdc; 0xfe; 0x01; 0x23; 0x45] in
    (* exhaustive accept/reject: every encoding byte x address size 0..9,16,32,255 x bases present/absent *)
    for enc = 0 to 255 do
      List.iter (fun asz ->
        List.iter (fun hb -> case false enc asz hb sample) [all_b; no_b];
        case true enc asz all_b sample) [0; 1; 2; 3; 4; 5; 6; 7; 8; 9; 16; 32; 255]
    done;
    (* boundary values for every valid encoding x sizes x bases *)
    let r = mk_rng seed in
    Array.iter (fun enc ->
      List.iter (fun asz ->
        List.iter (fun be ->
          let fmt = enc land 15 in
          let vals = [Z.zero; Z.one; Z.pred (p2 (8 * asz)); p2 (8 * asz - 1); Z.pred (p2 (8 * asz - 1)); mask64; p2 63; Z.pred (p2 63);
                      Z.of_int 0x7fff; Z.of_int 0x8000; zmod64 (Z.of_int (-0x8000)); zmod64 (Z.of_int (-0x8001));
                      Z.of_int 0x7fffffff; Z.of_int 0x80000000; zmod64 (Z.neg (p2 31)); zmod64 Z.minus_one; Z.of_int 0xffff; Z.of_int 0xffffffff] in
          List.iter (fun v ->
            if S.value_fits (n_of_int fmt) (n_of_int asz) (n_of_z v) then begin
              let bytes = ints_of_bytes (S.enc_value (n_of_int fmt) (n_of_int asz) be (n_of_z v)) @ [0xaa; 0xbb] in
              let m = p2 (8 * asz) in
              List.iter (fun hb -> case be enc asz hb bytes)
                [all_b; no_b; (Some (Z.pred m), Some (Z.pred m), Some (Z.pred m)); (Some mask64, Some mask64, Some (Z.sub m (Z.of_int 4)))]
            end) vals) [false; true]) [1; 2; 4; 8]) valid_encs;
    (* LEB extremes *)
    List.iter (fun enc ->
      List.iter (fun l -> case false enc 8 all_b l)
        [ List.init 9 (fun _ -> 0xff) @ [0x01]; List.init 9 (fun _ -> 0xff) @ [0x7f]; List.init 9 (fun _ -> 0x80) @ [0x00];
          List.init 9 (fun _ -> 0xff) @ [0x02]; List.init 10 (fun _ -> 0xff); List.init 9 (fun _ -> 0x80) @ [0x7f; 0x01]; [0x80]; [] ])
      [0x01; 0x09; 0x11; 0x19; 0x81];
    for _ = 1 to n do
      let enc = pick_enc r in
      let asz = match rand_int r 10 with 0 -> rand_int r 12 | 1 -> 4 | 2 -> 2 | 3 -> 1 | _ -> 8 in
      let hb = (base_pool r asz, base_pool r asz, base_pool r asz) in
      let be = rand_bool r in
      let fmt = enc land 15 in
      let aszv = if asz >= 1 && asz <= 8 then asz else 8 in
      let bytes = if rand_int r 5 = 0 then rand_bytes r (rand_int r 12)
        else ints_of_bytes (S.enc_value (n_of_int fmt) (n_of_int aszv) be (n_of_z (raw_for r fmt aszv))) @ rand_bytes r (rand_int r 3) in
      let bytes = if rand_int r 8 = 0 then List.filteri (fun i _ -> i < rand_int r (List.length bytes + 1)) bytes else bytes in
      case be enc asz hb bytes
    done);
  let ent_gen name ~raw = fun ~seed ~n emit ->
    let case (c : cfg) (bytes : int list) =
      let sec = bytes_of_ints bytes in
      both emit (sec_case name c bytes) (fun dbg -> dump_model dbg c sec) in
    let r = mk_rng seed in
    if not raw then grid_sections (fun c es -> case c (ints_of_bytes (encode c es)))
    else begin
      (* tiny inputs, exhaustive-ish: every 1-byte section, zero lengths, reserved lengths *)
      List.iter (fun eh ->
        let c = { eh; be = false; asz = 8; bsec = None; btext = None; bdata = None } in
        case c [];
        for b = 0 to 255 do case c [b] done;
        List.iter (fun l -> case c l; case { c with be = true } l)
          [ [0;0;0;0]; [0;0;0;0;0;0;0;0]; [0xff;0xff;0xff;0xff]; [0xff;0xff;0xff;0xff;0;0;0;0;0;0;0;0];
            [0xff;0xff;0xff;0xff;0;0;0;0;0;0;0;0;1;0;0;0;0]; [0xf0;0xff;0xff;0xff]; [0xef;0xff;0xff;0xff]; [4;0;0;0;0;0;0;0];
            [4;0;0;0;0xff;0xff;0xff;0xff]; [1;0;0;0;0]; [0;0;0;0;4;0;0;0;0;0;0;0];
            [0;0;0;0;0;0;0;0;0;0;0;0;0;0;0;0;0;0;0;0;0;0;0;0;0;0;0;1];
            (* a zero length followed by 1..3 stray bytes (shorter than any length word) *)
            [0;0;0;0;1]; [0;0;0;0;1;2]; [0;0;0;0;1;2;3]; [0;0;0;0;0]; [0;0;0;0;0;0;0;0;5;6];
            [0xff;0xff;0xff;0xff;0;0;0;0;0;0;0;0;7]; [0xff;0xff;0xff;0xff;0;0;0;0;0;0;0;0;0;0] ]) [false; true]
    end;
    for _ = 1 to n do
      let c = rand_cfg r ~eh:(rand_bool r) in
      let c = if raw && rand_int r 10 = 0 then { c with asz = rand_int r 20 } else c in
      let es = rand_entries r c in
      let bytes = ints_of_bytes (encode c es) in
      let starts = List.map int_of_n (S.offsets (sparams_of c) es) in
      let bytes = if raw then (if rand_int r 3 <> 0 then mutate_body r starts bytes
                               else (let b = mutate r bytes in if rand_int r 3 = 0 then mutate r b else b)) else bytes in
      let bytes = if raw && rand_int r 15 = 0 then rand_bytes r (rand_int r 48) else bytes in
      (* trailing garbage / a trailing zero length with stray bytes *)
      let bytes = if raw && rand_int r 8 = 0 then
          bytes @ (if rand_bool r then [0; 0; 0; 0] else []) @ rand_bytes r (1 + rand_int r 3) else bytes in
      case c bytes
    done in
  register "c05.ent" ~doc:"CfiEntriesIter + PartialFDE::parse over well-formed sections from the spec encoder: every order of every subset of zLPRS x eh_frame/debug_frame v1,3,4 x 32/64-bit x endianness, then random entry lists (shared/interleaved CIEs, zero lengths)" (ent_gen "c05.ent" ~raw:false);
  register "c05.raw" ~doc:"the same observation on mutated/truncated/random sections and arbitrary address sizes" (ent_gen "c05.raw" ~raw:true);
  let look_gen name ~raw = fun ~seed ~n emit ->
    let r = mk_rng seed in
    let case (c : cfg) (bytes : int list) nopsflag (addrs : Z.t list) =
      let sec = bytes_of_ints bytes in
      let cs = Printf.sprintf "%s %s%s" (sec_case name c bytes) (b01 nopsflag) (String.concat "" (List.map (fun z -> " " ^ Z.to_string z) addrs)) in
      both emit cs (fun dbg -> look_model dbg c sec addrs) in
    if not raw then begin
      (* every other grid section (the full grid is decoded by c05.ent); all of them when n is large *)
      let k = ref 0 in
      grid_sections (fun c es ->
        incr k;
        if n >= 5000 || !k mod 2 = 0 then begin
          let sec = encode c es in case c (ints_of_bytes sec) true (probes r false c sec) end)
    end;
    for _ = 1 to n do
      let c = rand_cfg r ~eh:(rand_bool r) in
      let es = rand_entries r c in
      let sec = encode c es in
      let bytes = ints_of_bytes sec in
      if raw then begin
        let starts = List.map int_of_n (S.offsets (sparams_of c) es) in
        let b = if rand_int r 3 <> 0 then mutate_body r starts bytes else mutate r bytes in
        let b = if rand_int r 4 = 0 then mutate r b else b in
        case c b false (probes r false c (bytes_of_ints b))
      end else case c bytes true (probes r false c sec)
    done in
  register "c05.look" ~doc:"UnwindSection::fde_for_address at start-1,start,start+1,end-1,end,end+1 of every FDE + random addresses; harness oracle: = exhaustive scan over entries(), unwind_info_for_address agrees" (look_gen "c05.look" ~raw:false);
  register "c05.lraw" ~doc:"fde_for_address on mutated sections (error propagation order, no panic)" (look_gen "c05.lraw" ~raw:true);
  register "c05.hdr" ~doc:"EhFrameHdr::parse, table iteration, lookup, pointer_to_offset, EhHdrTable::fde_for_address on well-formed headers (sdata4/udata4/sdata8/udata8/sdata2/udata2 rows; absolute, pcrel, datarel, textrel; lengths 1,2,3..40) over disjoint FDEs; oracle: all lookup paths = exhaustive scan" (fun ~seed ~n emit ->
    hdr_cases ~seed ~n ~raw:false (fun h -> both emit (hcase_line "c05.hdr" h) (fun dbg -> hcase_model dbg h)));
  register "c05.hraw" ~doc:"the same on unsorted/damaged/random headers and extreme fde_count values (overflowing (len/2)*row_size -> UnexpectedEof, table address below eh_frame_ptr -> OffsetOutOfBounds)" (fun ~seed ~n emit ->
    hdr_cases ~seed ~n ~raw:true (fun h -> both emit (hcase_line "c05.hraw" h) (fun dbg -> hcase_model dbg h)));
  register "c05.nopanic" ~doc:"oracle (theorems hdr_fde_for_address_total, table_iter_total): with a valid address size no header, table, section or address makes parse/iterate/lookup/fde_for_address panic, in either build mode; includes the extreme fde_count and below-section-pointer families" (fun ~seed ~n emit ->
    hdr_cases ~seed:(seed + 77) ~n ~raw:true (fun h ->
      if List.mem h.hasz [1; 2; 4; 8] && List.mem h.ec.asz [1; 2; 4; 8] then
        emit ("c05.nopanic any " ^ hcase_line "c05.hraw" h) "nopanic" "nopanic"))

(* ================================================================== unwind_info_for_address (C05 x C06) *)
module U = CfiUwi
module RN = CfiRun

(* instruction blobs from C06's wire encoder; [clean] streams evaluate without error for long.
   No DW_CFA_set_loc here: its operand depends on the CIE's address encoding (stream c05.setloc). *)
let wire_blob r ~(be : bool) ~(asz : int) ~(in_cie : bool) ~(clean : bool) ~(init : Z.t) (n : int) : Byte0.byte list =
  let c = { S_c06.base_cfg with S_c06.be = be; asize = asz; caf = Z.one; daf = Z.of_int (-8); init; aarch64 = false } in
  let loc = ref init in
  S_c06.start_stream r ~in_cie ~clean;
  let ws = S_c06.rand_wires r c loc n in
  let ws = List.filter (function CfaSpec.WSetLoc _ -> false | CfaSpec.WNegateRaState -> false | _ -> true) ws in
  bytes_of_ints (S_c06.enc_wires c ws)

let pr_uwi_one (x : RN.row Res.res) = match x with
  | Res.Ok rw -> "ok " ^ S_c06.pr_row rw
  | Res.Err e -> "err " ^ Errnames.name e
  | Res.Panic -> raise Panicked | Res.OutOfFuel -> raise Fuel

(* every parsed FDE of the section, as the model sees it *)
let model_fdes dbg (c : cfg) sec : M.fde list =
  let sc = scfg_of c in
  match M.entries_all dbg sc sec with
  | Res.Ok (items, _) ->
      List.filter_map (function M.IFde p -> (match M.fde_parse dbg sc sec p with Res.Ok f -> Some f | _ -> None) | _ -> None) items
  | _ -> []

(* the model is exact only where no encoded DW_CFA_set_loc is reached *)
let all_setloc_plain (c : cfg) aarch64 sec =
  List.for_all (fun f -> U.setloc_plain true c.be aarch64 f) (model_fdes true c sec)

let uwi_probes r (c : cfg) aarch64 storage sec : Z.t list =
  let caps = S_c06.caps_of_storage storage in
  let acc = ref [] in
  List.iter (fun (f : M.fde) ->
    let i = z_of_n f.M.fd_init in
    let e = (match M.fde_end false f with Res.Ok e -> z_of_n e | _ -> i) in
    acc := [Z.pred i; i; Z.pred e; e] @ !acc;
    (match RN.new_ctx caps with
     | Res.Ok cx ->
         let ((rows, _), _) = RN.fde_rows false caps (U.fde_in_of c.be aarch64 f) cx in
         List.iteri (fun k (rw : RN.row) -> if k < 5 then
           acc := [z_of_n rw.RN.r_start; Z.pred (z_of_n rw.RN.r_end)] @ !acc) rows
     | _ -> ())) (model_fdes false c sec);
  let l = List.sort_uniq Z.compare (List.map zmod64 !acc) in
  let l = if List.length l > 16 then List.filteri (fun i _ -> i mod (1 + List.length l / 16) = 0) l else l in
  l @ [Z.of_int (rand_int r 0x10000)]

let uwi_model_lin dbg storage aarch64 (c : cfg) sec (addrs : Z.t list) : string = guard (fun () ->
  let caps = S_c06.caps_of_storage storage in
  match RN.new_ctx caps with
  | Res.Ok cx0 ->
      let cx = ref cx0 in
      "ok" ^ String.concat "" (List.map (fun a ->
        let (x, cx') = U.unwind_info_for_address dbg caps (scfg_of c) aarch64 sec !cx (n_of_z a) in
        cx := cx'; " | " ^ pr_uwi_one x) addrs)
  | _ -> "panic")

let uwi_model_hdr dbg storage aarch64 (h : hcase) : string = guard (fun () ->
  let caps = S_c06.caps_of_storage storage in
  let hbs = sbases_of h.hb in
  match M.hdr_parse dbg h.hbe hbs (n_of_int h.hasz) (bytes_of_ints h.hbytes) with
  | Res.Err e -> "err " ^ Errnames.name e
  | Res.Panic -> raise Panicked | Res.OutOfFuel -> raise Fuel
  | Res.Ok hd ->
    (match M.hdr_table hd with
     | None -> "ok notable"
     | Some hd ->
       (match RN.new_ctx caps with
        | Res.Ok cx0 ->
            let cx = ref cx0 in
            let sec = bytes_of_ints h.ebytes in
            "ok" ^ String.concat "" (List.map (fun a ->
              let (x, cx') = U.hdr_unwind_info_for_address dbg caps hbs hd (scfg_of h.ec) aarch64 sec !cx (n_of_z a) in
              cx := cx'; " | " ^ pr_uwi_one x) h.addrs)
        | _ -> "panic")))

(* sections for the lookup: CIEs with instruction blobs, FDEs (possibly overlapping) with blobs *)
let uwi_section r ~(clean : bool) : cfg * S.entry list =
  let c = rand_cfg r ~eh:(rand_bool r) in
  let c = { c with asz = pick r [| 8; 8; 4; 4; 2 |]; bsec = Some (Z.of_int 0x1000); btext = Some (Z.of_int 0x100); bdata = Some (Z.of_int 0x300) } in
  let alim = if c.asz = 2 then 0x6000 else 0x400000 in
  let ncie = 1 + rand_int r 2 in
  let mk_cie () =
    let enc = pick r (if c.asz = 2 then [| -1; 0x00; 0x02 |] else [| -1; -1; 0x00; 0x03; 0x04; 0x1b; 0x0b |]) in
    let items = if enc < 0 then (if rand_int r 4 = 0 then (false, [S.AS]) else (false, []))
      else (true, (if rand_bool r then [S.AS] else []) @ [S.AR (n_of_int enc)]) in
    let ci = rand_cie r c ~items () in
    let asz = cie_enc_asz c ci in
    { ci with S.c_caf = n_of_int (pick r [| 1; 1; 2; 4 |]); S.c_daf = cz_of_int (pick r [| -8; -4; 1; 8 |]);
              S.c_instr = wire_blob r ~be:c.be ~asz ~in_cie:true ~clean ~init:Z.zero (rand_int r 4) } in
  let cies = List.init ncie (fun i -> (i, mk_cie ())) in
  let nfde = 1 + rand_int r 4 in
  let overlap = rand_int r 3 = 0 in
  let fdes = List.init nfde (fun k ->
    let (idx, ci) = List.nth cies (rand_int r ncie) in
    let asz = cie_enc_asz c ci in
    let lim = min alim (if asz = 1 then 200 else if asz = 2 then 0x6000 else alim) in
    let start = if overlap then 0x40 + rand_int r (lim / 4) else 0x40 + k * (lim / 5) + rand_int r 16 in
    let len = if overlap then 1 + rand_int r (lim / 3) else 1 + rand_int r (lim / 6) in
    let fmt = match S.find_R ci.S.c_items with Some e -> int_of_n e land 15 | None -> 0 in
    let pcrel = (match S.find_R ci.S.c_items with Some e -> int_of_n e land 0x70 = 0x10 | None -> false) in
    let init_raw = if pcrel then zmod64 (Z.of_int (start - 0x1000)) else Z.of_int start in
    ignore fmt;
    S.EFde { S.f_fmt64 = rand_int r 8 = 0; f_cie = nat_of_int idx; f_init = n_of_z init_raw; f_range = n_of_int len;
             f_lsda = n_of_int 0; f_pad = [];
             f_instr = wire_blob r ~be:c.be ~asz ~in_cie:false ~clean ~init:(Z.of_int start) (rand_int r 10) }) in
  (c, List.map (fun (_, ci) -> S.ECie ci) cies @ fdes)

let () =
  register "c05.uwi" ~doc:"UnwindSection::unwind_info_for_address and EhHdrTable::unwind_info_for_address through gimli::UnwindContext (one context reused for all probes of a case; heap and custom storages): sections whose CIEs/FDEs carry C06 wire-form instruction blobs, FDE ranges disjoint or overlapping, probes at every FDE and row boundary; model = CfiRd lookup + adapter fde_in_of + CfiRun table; harness oracle: the row = own scan + fde.rows() walk" (fun ~seed ~n emit ->
    let lin storage aarch64 (c : cfg) (bytes : int list) (addrs : Z.t list) =
      let sec = bytes_of_ints bytes in
      let cs = Printf.sprintf "c05.uwi L %d %s %s %s%s" storage (b01 aarch64) (cfg_toks c) (hex_of_ints bytes)
                 (String.concat "" (List.map (fun z -> " " ^ Z.to_string z) addrs)) in
      both emit cs (fun dbg -> uwi_model_lin dbg storage aarch64 c sec addrs) in
    let hdrc storage aarch64 (h : hcase) =
      let cs = Printf.sprintf "c05.uwi H %d %s %s" storage (b01 aarch64)
                 (let l = hcase_line "x" h in String.sub l 2 (String.length l - 2)) in
      both emit cs (fun dbg -> uwi_model_hdr dbg storage aarch64 h) in
    (* the grid of c05.ent (nop instruction blobs): every augmentation order x kind x format *)
    let k = ref 0 in
    grid_sections (fun c es ->
      incr k;
      if n >= 3000 || !k mod 8 = 0 then begin
        if Streams.mine () then begin
          let sec = encode c es in
          lin 0 false c (ints_of_bytes sec) (uwi_probes (mk_rng (seed + !k)) c false 0 sec)
        end else Streams.skip ()
      end);
    (* every case has its own generator state, so a shard only builds the cases it owns *)
    for i = 1 to n do
      if not (Streams.mine ()) then Streams.skip () else begin
        let r = mk_rng (seed * 1000003 + i) in
        let clean = rand_int r 4 <> 0 in
        let (c, es) = uwi_section r ~clean in
        let storage = pick r [| 0; 0; 0; 5; 2; 1; 4 |] in
        let bytes0 = ints_of_bytes (encode c es) in
        let bytes = if rand_int r 6 = 0 then mutate_body r (List.map int_of_n (S.offsets (sparams_of c) es)) bytes0 else bytes0 in
        let bytes = if all_setloc_plain c false (bytes_of_ints bytes) then bytes else bytes0 in
        lin storage false c bytes (uwi_probes r c false storage (bytes_of_ints bytes))
      end
    done;
    (* header path: well-formed and overlapping *)
    for i = 1 to n / 4 + 4 do
      if not (Streams.mine ()) then Streams.skip () else begin
        let r = mk_rng (seed * 7000003 + i) in
        let instr in_cie k = wire_blob r ~be:false ~asz:8 ~in_cie ~clean:true ~init:(Z.of_int 0x100) (if in_cie then min k 2 else k) in
        match gen_wf_hdr_retry ~instr ~overlap:(i mod 3 = 0) r ~nfde:(1 + rand_int r 6) 10 with
        | Some h -> hdrc (pick r [| 0; 0; 5; 2 |]) false h
        | None -> Streams.skip ()
      end
    done);
  register "c05.setloc" ~doc:"the operand of DW_CFA_set_loc as the first FDE instruction, read through fde.instructions(): every valid FDE address encoding (and none) x address sizes x bases present/absent x boundary values; mutated tails" (fun ~seed ~n emit ->
    let r = mk_rng seed in
    let case (c : cfg) (bytes : int list) =
      let sec = bytes_of_ints bytes in
      both emit (sec_case "c05.setloc" c bytes) (fun dbg -> guard (fun () ->
        let sc = scfg_of c in
        let (items, _) = get (M.entries_all dbg sc sec) in
        "ok" ^ String.concat "" (List.filter_map (function
          | M.IFde p ->
              (match M.fde_parse dbg sc sec p with
               | Res.Ok f ->
                   Some (" " ^ (match U.first_set_loc dbg sc f with
                     | Res.Ok None -> "n"
                     | Res.Ok (Some (a, _)) -> "S" ^ string_of_n a
                     | Res.Err e -> "E" ^ Errnames.name e
                     | Res.Panic -> raise Panicked | Res.OutOfFuel -> raise Fuel))
               | _ -> Some " p")
          | _ -> None) items))) in
    let mk (c : cfg) enc raw tail =
      let items = if enc < 0 then (false, []) else (true, [S.AR (n_of_int enc)]) in
      let ci = { (rand_cie r c ~items ()) with S.c_ver = n_of_int 1; S.c_fmt64 = false; S.c_instr = [] } in
      let fmt = if enc < 0 then 0 else enc land 15 in
      let operand = S.enc_value (n_of_int fmt) (n_of_int c.asz) c.be (n_of_z raw) in
      let f = { S.f_fmt64 = false; f_cie = nat_of_int 0; f_init = n_of_int 64; f_range = n_of_int 64; f_lsda = n_of_int 0; f_pad = [];
                f_instr = byte_of_int 1 :: (operand @ bytes_of_ints tail) } in
      ints_of_bytes (encode c [S.ECie ci; S.EFde f]) in
    (* every valid encoding (absolute init fields need the base of the application too) *)
    Array.iter (fun enc ->
      List.iter (fun asz ->
        List.iter (fun bases ->
          let (a, b, d) = bases in
          let c = { eh = true; be = false; asz; bsec = a; btext = b; bdata = d } in
          let fmt = enc land 15 in
          List.iter (fun v -> if S.value_fits (n_of_int fmt) (n_of_int asz) (n_of_z v) then begin
              case c (mk c enc v [0; 0]); case { c with be = true } (mk { c with be = true } enc v [])
            end)
            [Z.zero; Z.one; Z.of_int 0x7f; Z.of_int 0x80; Z.of_int 0x7fff; Z.of_int 0x8000; Z.pred (p2 (8 * asz)); p2 (8 * asz - 1);
             zmod64 Z.minus_one; zmod64 (Z.of_int (-0x8000)); zmod64 (Z.neg (p2 31)); Z.pred (p2 31); mask64; p2 63])
          [ (Some (Z.of_int 0x1000), Some (Z.of_int 0x2000), Some (Z.of_int 0x3000)); (None, None, None);
            (Some (Z.pred (p2 (8 * asz))), Some mask64, Some (Z.pred (p2 (8 * asz)))) ]) [8; 4; 2; 1]) valid_encs;
    (* no encoding: plain address *)
    List.iter (fun asz -> List.iter (fun eh ->
      let c = { eh; be = false; asz; bsec = None; btext = None; bdata = None } in
      List.iter (fun v -> case c (mk c (-1) v [0])) [Z.zero; Z.one; Z.pred (p2 (8 * asz)); p2 (8 * asz - 1)]) [true; false]) [8; 4; 2; 1];
    for _ = 1 to n do
      let c = rand_cfg r ~eh:(rand_int r 4 <> 0) in
      let enc = if rand_int r 6 = 0 then -1 else pick_enc r in
      let fmt = if enc < 0 then 0 else enc land 15 in
      let aszv = if c.asz >= 1 && c.asz <= 8 then c.asz else 8 in
      let bytes = mk { c with asz = aszv } enc (raw_for r fmt aszv) (rand_bytes r (rand_int r 3)) in
      let bytes = if rand_int r 5 = 0 then mutate r bytes else bytes in
      case { c with asz = aszv } bytes
    done)

(* ================================================================== table evaluation THROUGH encoded DW_CFA_set_loc *)
module SL = CfiRunSetLoc

(* an FDE program: set_loc to an absolute target, or raw instruction bytes *)
type slins = SetLoc of Z.t | Rawi of int list | SetLocRaw of Z.t   (* SetLocRaw: the operand value as given *)

let app_base (c : cfg) enc pos : Z.t =
  match enc land 0x70 with
  | 0x10 -> Z.add (match c.bsec with Some b -> b | None -> Z.zero) (Z.of_int pos)
  | 0x20 -> (match c.btext with Some b -> b | None -> Z.zero)
  | 0x30 -> (match c.bdata with Some b -> b | None -> Z.zero)
  | _ -> Z.zero

(* the operand bytes of a set_loc at section offset pos reaching target t under enc (None: plain address) *)
let setloc_operand (c : cfg) asz enc pos (t : Z.t) ~(raw : bool) : Byte0.byte list =
  let fmt = if enc < 0 then 0 else enc land 15 in
  let bits = match fmt with 0 -> 8 * asz | 2 | 10 -> 16 | 3 | 11 -> 32 | _ -> 64 in
  let v = if raw || enc < 0 then t else Z.sub t (app_base c enc pos) in
  let v = if fmt >= 9 then
      (* signed formats: the value as sign-extended u64, reduced into the format's range *)
      let m = p2 bits in let x = Z.erem v m in zmod64 (if Z.geq x (p2 (bits - 1)) then Z.sub x m else x)
    else Z.erem v (p2 bits) in
  S.enc_value (n_of_int fmt) (n_of_int asz) c.be (n_of_z v)

let assemble (c : cfg) asz enc ~(instr_off : int) (prog : slins list) : Byte0.byte list =
  let cur = ref 0 in
  List.concat_map (fun i ->
    let bs = match i with
      | Rawi l -> bytes_of_ints l
      | SetLoc t -> byte_of_int 1 :: setloc_operand c asz enc (instr_off + !cur + 1) t ~raw:false
      | SetLocRaw v -> byte_of_int 1 :: setloc_operand c asz enc (instr_off + !cur + 1) v ~raw:true in
    cur := !cur + List.length bs; bs) prog

(* scenarios relative to the FDE's actual start s0, length len, code alignment caf *)
let sl_scenarios = 12
let sl_prog r k (s0 : Z.t) (len : int) (caf : int) : slins list =
  let at d = Z.add s0 (Z.of_int d) in
  let cfao n = Rawi [0x0e; n] and offs g q = Rawi [0x80 lor g; q] and adv d = Rawi [0x40 lor d] in
  match k with
  | 0 -> [ SetLoc (at 8); cfao 16; SetLoc (at 24); offs 3 2 ]
  | 1 -> [ SetLoc s0; cfao 24; SetLoc (at 8); offs 6 1 ]                       (* to the row's own start: empty row *)
  | 2 -> [ SetLoc (at 8); cfao 16; SetLoc (at 8); cfao 32 ]                     (* the same address twice *)
  | 3 -> [ adv 4; cfao 16; SetLoc (at (4 * caf - 1)); cfao 32 ]                 (* one below the current row's start: InvalidCfiSetLoc *)
  | 4 -> [ SetLoc (at len); cfao 16 ]                                           (* exactly the FDE's end *)
  | 5 -> [ SetLoc (at (len + 16)); cfao 16 ]                                    (* beyond the end *)
  | 6 -> [ SetLoc (Z.sub s0 Z.one); cfao 16 ]                                   (* below the FDE's start *)
  | 7 -> [ SetLoc (at 8); cfao 16; Rawi [0x01; 0x05] ]                          (* truncated operand at the end of the FDE *)
  | 8 -> [ adv 2; offs 5 1; SetLoc (at (2 * caf)); cfao 8; adv 1; SetLoc (at (3 * caf + 1)); Rawi [0x0a]; SetLoc (at (len - 1)); Rawi [0x0b] ]
  | 9 -> [ cfao 8; SetLoc (at 4); SetLoc (at 3) ]                               (* backwards after a forward set_loc *)
  | 10 -> [ SetLocRaw (pick r [| Z.zero; Z.one; Z.of_int 0x7f; Z.of_int 0x80; Z.of_int 0x7fff; Z.of_int 0xffff; Z.pred (p2 31); p2 31; Z.pred (p2 32); mask64; p2 63 |]); cfao 16 ]
  | _ ->
      let n = 1 + rand_int r 6 in
      let loc = ref 0 in
      List.init n (fun _ ->
        match rand_int r 6 with
        | 0 | 1 -> let d = match rand_int r 6 with 0 -> 0 | 1 -> -1 - rand_int r 3 | _ -> 1 + rand_int r 12 in
                   loc := max 0 (!loc + d); SetLoc (at !loc)
        | 2 -> let d = 1 + rand_int r 5 in loc := !loc + d * caf; adv d
        | 3 -> cfao (rand_int r 100)
        | 4 -> offs (rand_int r 20) (rand_int r 8)
        | _ -> Rawi (pick r [| [0x0a]; [0x0b]; [0x00]; [0x07; 0x09]; [0x2e; 0x10] |]))

(* a section CIE(R enc) + FDEs whose programs are built once the FDEs' actual start addresses and instruction
   offsets are known (first pass with placeholder programs of the same size) *)
let sl_section r (c : cfg) enc ~(fmt64 : bool) ~(caf : int) (specs : (int * int * int) list) (* (start, len, scenario) *)
  : int list =
  let items = if enc < 0 then (false, []) else (true, [S.AR (n_of_int enc)]) in
  let ci = { (rand_cie r c ~items ()) with S.c_ver = n_of_int (if c.eh then 1 else 3); S.c_fmt64 = fmt64; S.c_caf = n_of_int caf;
             S.c_daf = cz_of_int (-8); S.c_rar = n_of_int 16; S.c_instr = bytes_of_ints [0x0c; 7; 8; 0x90; 1] } in
  let asz = c.asz in
  let pcrel = enc >= 0 && enc land 0x70 = 0x10 in
  let mk_fde start len instr =
    let init_raw = if enc < 0 then Z.of_int start else
        let fmt = enc land 15 in
        let bits = match fmt with 0 -> 8 * asz | 2 | 10 -> 16 | 3 | 11 -> 32 | _ -> 64 in
        let v = Z.sub (Z.of_int start) (if pcrel then (match c.bsec with Some b -> b | None -> Z.zero) else app_base c enc 0) in
        if fmt >= 9 then (let m = p2 bits in let x = Z.erem v m in zmod64 (if Z.geq x (p2 (bits - 1)) then Z.sub x m else x)) else Z.erem v (p2 bits) in
    S.EFde { S.f_fmt64 = fmt64; f_cie = nat_of_int 0; f_init = n_of_z init_raw; f_range = n_of_int len; f_lsda = n_of_int 0;
             f_pad = []; f_instr = instr } in
  let progs0 = List.map (fun (start, len, k) -> (start, len, k, mk_rng (start * 31 + k))) specs in
  let build (known : (Z.t * int) list option) =
    encode c (S.ECie ci :: List.mapi (fun j (start, len, k, r0) ->
      let r1 = { s = r0.s } in
      let (s0, ioff) = match known with Some l -> List.nth l j | None -> (Z.of_int start, 0) in
      mk_fde start len (assemble c asz enc ~instr_off:ioff (sl_prog r1 k s0 len caf))) progs0) in
  let pass1 = build None in
  let fds = model_fdes false c pass1 in
  if List.length fds <> List.length specs then ints_of_bytes pass1 else
  let known = List.map (fun (f : M.fde) -> (z_of_n f.M.fd_init, int_of_n f.M.fd_instr.M.off)) fds in
  ints_of_bytes (build (Some known))

let sl_probes (c : cfg) aarch64 sec : Z.t list =
  let caps = S_c06.caps_of_storage 0 in
  let acc = ref [] in
  List.iter (fun (f : M.fde) ->
    let i = z_of_n f.M.fd_init in
    let e = (match M.fde_end false f with Res.Ok e -> z_of_n e | _ -> i) in
    acc := [Z.pred i; i; Z.pred e; e] @ !acc;
    (match RN.new_ctx caps with
     | Res.Ok cx ->
         let ((rows, _), _) = SL.fde_rows_sl false caps (scfg_of c) aarch64 f cx in
         List.iteri (fun k (rw : RN.row) -> if k < 6 then
           acc := [z_of_n rw.RN.r_start; Z.pred (z_of_n rw.RN.r_end); z_of_n rw.RN.r_end] @ !acc) rows
     | _ -> ())) (model_fdes false c sec);
  let l = List.sort_uniq Z.compare (List.map zmod64 !acc) in
  if List.length l > 20 then List.filteri (fun i _ -> i mod (1 + List.length l / 20) = 0) l else l

let sl_model dbg storage aarch64 (c : cfg) sec (addrs : Z.t list) : string = guard (fun () ->
  let caps = S_c06.caps_of_storage storage in
  match RN.new_ctx caps with
  | Res.Ok cx0 ->
      let cx = ref cx0 in
      "ok" ^ String.concat "" (List.map (fun a ->
        let (x, cx') = SL.unwind_info_for_address_sl dbg caps (scfg_of c) aarch64 sec !cx (n_of_z a) in
        cx := cx'; " | " ^ pr_uwi_one x) addrs)
  | _ -> "panic")

let () =
  register "c05.setloctab" ~doc:"UnwindSection::unwind_info_for_address THROUGH DW_CFA_set_loc operands under the CIE's FDE address encoding: .eh_frame 'R' encodings (absptr, pcrel, textrel, datarel x udata2/4/8, sdata2/4/8, uleb/sleb, indirect, funcrel, aligned) and none (.debug_frame / no augmentation) x address sizes 4/8 x both byte orders x bases present/absent x 12 scenarios (forward, to the row's own start, same address twice, one below the row start -> InvalidCfiSetLoc, at / beyond the FDE end, below the FDE start, truncated operand, mixed with advance_loc and remember/restore, boundary operand values); probes at every FDE and row boundary; one UnwindContext reused; model = CfiRunSetLoc.unwind_info_for_address_sl" (fun ~seed ~n emit ->
    let case storage (c : cfg) (bytes : int list) =
      if not (Streams.mine ()) then Streams.skip () else begin
        let sec = bytes_of_ints bytes in
        let addrs = sl_probes c false sec in
        let cs = Printf.sprintf "c05.setloctab L %d 0 %s %s%s" storage (cfg_toks c) (hex_of_ints bytes)
                   (String.concat "" (List.map (fun z -> " " ^ Z.to_string z) addrs)) in
        both emit cs (fun dbg -> sl_model dbg storage false c sec addrs)
      end in
    let r = mk_rng seed in
    let encs = [ -1; 0x00; 0x1b; 0x10; 0x1c; 0x13; 0x0b; 0x03; 0x02; 0x04; 0x0c; 0x33; 0x3b; 0x23; 0x30; 0x01; 0x09; 0x31; 0x9b; 0x80; 0x43; 0x50; 0x1a ] in
    List.iter (fun enc ->
      List.iter (fun asz ->
        List.iter (fun be ->
          for k = 0 to sl_scenarios - 1 do
            let c = { eh = true; be; asz; bsec = Some (Z.of_int 0x1000); btext = Some (Z.of_int 0x100); bdata = Some (Z.of_int 0x300) } in
            let start = if enc >= 0 && enc land 15 = 2 then 0x2000 else 0x20000 in
            case 0 c (sl_section r c enc ~fmt64:false ~caf:(if k land 1 = 0 then 1 else 4) [ (start, 64, k); (start + 0x100, 40, (k + 5) mod sl_scenarios) ])
          done) [ false; true ]) [ 8; 4 ]) encs;
    (* missing bases, .debug_frame (plain operand), address near the top of the address space *)
    List.iter (fun enc ->
      for k = 0 to sl_scenarios - 1 do
        let c = { eh = true; be = false; asz = 8; bsec = None; btext = None; bdata = None } in
        case 0 c (sl_section r c enc ~fmt64:false ~caf:1 [ (0x20000, 64, k) ])
      done) [ 0x1b; 0x33; 0x23; 0x00 ];
    List.iter (fun asz ->
      for k = 0 to sl_scenarios - 1 do
        let c = { eh = false; be = (k land 1 = 1); asz; bsec = Some (Z.of_int 0x1000); btext = None; bdata = None } in
        case 0 c (sl_section r c (-1) ~fmt64:(k land 2 = 2) ~caf:2 [ (0x4000, 64, k) ]);
        let top = if asz = 4 then 0x7fffffc0 * 2 else 0x7fffffc0 in
        let c = { eh = true; be = false; asz; bsec = Some (Z.of_int 0x1000); btext = None; bdata = None } in
        case 0 c (sl_section r c 0x00 ~fmt64:false ~caf:1 [ (top, 64, k) ])
      done) [ 4; 8 ];
    for _ = 1 to n do
      let asz = pick r [| 8; 4; 8; 4; 2 |] in
      let c = { eh = rand_int r 8 <> 0; be = rand_bool r; asz; bsec = (if rand_int r 8 = 0 then None else Some (Z.of_int 0x1000));
                btext = (if rand_int r 3 = 0 then None else Some (Z.of_int 0x100)); bdata = (if rand_int r 3 = 0 then None else Some (Z.of_int 0x300)) } in
      let enc = if not c.eh then -1 else match rand_int r 10 with 0 -> -1 | 1 -> pick_enc r | _ -> pick r [| 0x00; 0x1b; 0x10; 0x0b; 0x03; 0x33; 0x23; 0x1c; 0x02; 0x01; 0x09; 0x04 |] in
      let lim = if asz = 2 || (enc >= 0 && (enc land 15 = 2 || enc land 15 = 10)) then 0x3000 else 0x100000 in
      let nf = 1 + rand_int r 3 in
      let specs = List.init nf (fun j -> (0x1800 + j * (lim / 4) + rand_int r 64, 8 + rand_int r 120, if rand_int r 3 = 0 then 11 else rand_int r sl_scenarios)) in
      let bytes = sl_section r c enc ~fmt64:(rand_int r 8 = 0) ~caf:(pick r [| 1; 1; 2; 4 |]) specs in
      let bytes = if rand_int r 10 = 0 then mutate r bytes else bytes in
      case (pick r [| 0; 0; 0; 5; 2; 1 |]) c bytes
    done)

(* ================================================================== EhHdrTableIter histories *)
type hop = HNext | HNth of Z.t | HHint
let hop_tok = function HNext -> "n" | HNth k -> "k" ^ Z.to_string k | HHint -> "h"
let hop_model = function HNext -> M.ONext | HNth k -> M.ONth (n_of_z k) | HHint -> M.OHint

let hiter_model dbg be hasz hb (hbytes : int list) (ops : hop list) : string = guard (fun () ->
  let hbs = sbases_of hb in
  match M.hdr_parse dbg be hbs (n_of_int hasz) (bytes_of_ints hbytes) with
  | Res.Err e -> "err " ^ Errnames.name e
  | Res.Panic -> raise Panicked | Res.OutOfFuel -> raise Fuel
  | Res.Ok hd ->
    (match M.hdr_table hd with
     | None -> "ok notable"
     | Some hd ->
       let obs = M.tbl_run dbg hbs hd (M.tbl_iter hd) (List.map hop_model ops) in
       "ok" ^ String.concat "" (List.map (function
         | M.BItem None -> " N"
         | M.BItem (Some (a, b)) -> " S" ^ ptr_str a ^ ":" ^ ptr_str b
         | M.BErr e -> " E" ^ Errnames.name e
         | M.BHint (lo, hi) -> " H" ^ string_of_n lo ^ ":" ^ (match hi with Some x -> string_of_n x | None -> "-")
         | M.BPanic -> raise Panicked | M.BFuel -> raise Fuel) obs)))

let () =
  register "c05.hiter" ~doc:"EhHdrTableIter as a state machine: histories of next / nth k / size_hint on one iterator; tables of 0..6 rows x field sizes 2/4/8 (signed and unsigned) x 0/half-row/one-row/five-and-a-bit rows of trailing bytes x {nth k for every k in 0..len+1 then drain, interleaved next/nth, nth after the end, claimed count above/below the real one, huge k}; size_hint after every op; harness oracle: every yielded row is row i+k of a fresh full scan" (fun ~seed ~n emit ->
    let le w v = List.init w (fun i -> (v lsr (8 * i)) land 255) in
    let be_ w v = List.rev (le w v) in
    let case ~be ~tenc ~count ~nrows ~pad (ops : hop list) =
      let size = match tenc land 15 with 2 | 10 -> 2 | 3 | 11 -> 4 | _ -> 8 in
      let w = if be then be_ else le in
      let rows = List.concat (List.init nrows (fun i -> w size (0x100 * (i + 1)) @ w size (0x1000 + 0x10 * i))) in
      let hbytes = [1; 0x03; 0x03; tenc] @ w 4 0x1000 @ w 4 count @ rows @ pad in
      let cs = Printf.sprintf "c05.hiter %s 8 - - - %s%s" (b01 be) (hex_of_ints hbytes)
                 (String.concat "" (List.map (fun o -> " " ^ hop_tok o) ops)) in
      both emit cs (fun dbg -> hiter_model dbg be 8 (None, None, None) hbytes ops) in
    let drain k = List.concat (List.init k (fun _ -> [HNext; HHint])) in
    let zi = Z.of_int in
    List.iter (fun tenc ->
      let size = match tenc land 15 with 2 | 10 -> 2 | 3 | 11 -> 4 | _ -> 8 in
      List.iter (fun pad ->
        for len = 0 to 6 do
          (* nth k for every k, then drain *)
          for k = 0 to len + 1 do
            case ~be:false ~tenc ~count:len ~nrows:len ~pad ([HHint; HNth (zi k); HHint] @ drain (len + 2))
          done;
          (* interleaved *)
          case ~be:false ~tenc ~count:len ~nrows:len ~pad [HNext; HHint; HNth Z.one; HHint; HNext; HNth Z.zero; HHint; HNth (zi 2); HHint; HNext; HNext; HHint];
          case ~be:(len mod 2 = 1) ~tenc ~count:len ~nrows:len ~pad [HNth Z.zero; HNth Z.zero; HHint; HNth Z.one; HNth Z.one; HHint; HNext; HNth (zi 3); HHint; HNext];
          (* nth after the end *)
          case ~be:false ~tenc ~count:len ~nrows:len ~pad (drain (len + 1) @ [HNth Z.zero; HHint; HNth Z.one; HNth (zi 5); HNext; HHint; HNth Z.zero]);
          (* claimed count differs from the rows present *)
          case ~be:false ~tenc ~count:(len + 2) ~nrows:len ~pad ([HNth (zi (max 0 (len - 1))); HHint] @ drain 4 @ [HNth Z.zero; HHint]);
          if len >= 2 then case ~be:false ~tenc ~count:(len - 1) ~nrows:len ~pad ([HNth Z.one; HHint] @ drain (len + 1) @ [HNth Z.zero]);
          (* k so large that k * row_size overflows, or only the saturating subtraction matters *)
          case ~be:false ~tenc ~count:len ~nrows:len ~pad [HNth (p2 61); HHint; HNext; HNth (Z.pred (p2 64)); HHint; HNext; HNth (p2 32); HHint]
        done)
        [ []; List.init size (fun _ -> 0x55); List.init (2 * size) (fun i -> i + 1); List.init (10 * size + 1) (fun i -> 0xa0 + (i land 15)) ])
      [0x02; 0x0a; 0x03; 0x0b; 0x04; 0x0c];
    (* variable-size and other encodings: nth refuses, next works *)
    List.iter (fun tenc ->
      case ~be:false ~tenc ~count:2 ~nrows:2 ~pad:[1; 2; 3] [HHint; HNth Z.zero; HHint; HNext; HNth Z.one; HNext; HHint; HNext])
      [0x01; 0x09; 0x00; 0x1b; 0x3b; 0x83; 0xff];
    let r = mk_rng seed in
    for _ = 1 to n do
      let tenc = pick r [| 0x02; 0x0a; 0x03; 0x0b; 0x04; 0x0c; 0x1b; 0x3b; 0x01 |] in
      let nrows = rand_int r 7 in
      let count = match rand_int r 6 with 0 -> nrows + rand_int r 3 | 1 -> max 0 (nrows - 1) | _ -> nrows in
      let pad = rand_bytes r (pick r [| 0; 0; 3; 8; 16; 40 |]) in
      let ops = List.init (1 + rand_int r 12) (fun _ ->
        match rand_int r 6 with 0 | 1 -> HNext | 2 -> HHint | 3 -> HNth Z.zero | 4 -> HNth (zi (rand_int r 4)) | _ -> HNth (zi (rand_int r 9))) in
      case ~be:(rand_int r 4 = 0) ~tenc ~count ~nrows ~pad ops
    done)

(* ================================================================== mixed-operation histories of the other iterators *)
(* c05.hist <kind> ...
     E <cfg> <bytes> <j>*        CfiEntriesIter: clone the iterator after j items; every clone must continue exactly
                                 like the original (expected = the plain traversal, as c05.ent)
     I <cfg> <bytes> <j>         CallFrameInstructionIter of the first FDE that parses (CIE then FDE stream):
                                 clone after j items, resume; expected = number of instructions and how each stream ends
     T <cfg> <bytes> <j>         UnwindTable of the first FDE that parses: next_row j times, then into_current_row
     L <hdr case> <j> <a>        EhHdrTable: iterate j rows, lookup(a) in between, drain; expected = rows, lookup result *)
let first_fde dbg (c : cfg) sec : M.fde option =
  match model_fdes dbg c sec with f :: _ -> Some f | [] -> None

let count_items (items : CfaSpec.item list) : string =
  let rec go n = function
    | [] -> Printf.sprintf "%d:ok" n
    | CfaSpec.It _ :: r -> go (n + 1) r
    | CfaSpec.Bad e :: _ -> Printf.sprintf "%d:%s" n (Errnames.name e)
    | CfaSpec.BadPanic :: _ -> raise Panicked
    | CfaSpec.BadFuel :: _ -> raise Fuel in
  go 0 items

let hist_I_model dbg (c : cfg) sec : string = guard (fun () ->
  match first_fde dbg c sec with
  | None -> "ok nofde"
  | Some f ->
      let fi = U.fde_in_of c.be false f in
      let d = RN.f_dparams fi in
      "ok c" ^ count_items (RN.decode dbg d fi.RN.f_cie_off fi.RN.f_cie)
      ^ " f" ^ count_items (RN.decode dbg d fi.RN.f_fde_off fi.RN.f_fde))

let hist_T_model dbg (c : cfg) sec (j : int) : string = guard (fun () ->
  match first_fde dbg c sec with
  | None -> "ok nofde"
  | Some f ->
      let fi = U.fde_in_of c.be false f in
      let caps = S_c06.caps_of_storage 0 in
      (match RN.new_ctx caps with
       | Res.Ok cx ->
           if not (RN.valid_asize fi.RN.f_asize) then "err UnsupportedAddressSize" else
           (match RN.table_new dbg caps fi cx with
            | Res.Err e -> "err " ^ Errnames.name e
            | Res.Panic -> raise Panicked | Res.OutOfFuel -> raise Fuel
            | Res.Ok t0 ->
                let d = RN.f_dparams fi in
                let b = Buffer.create 64 in
                Buffer.add_string b "ok";
                let t = ref t0 and it = ref { RN.it_off = fi.RN.f_fde_off; it_bytes = fi.RN.f_fde } in
                let stop = ref false in
                for _ = 1 to j do
                  if not !stop then begin
                    let (r, (t', it')) = RN.next_row dbg caps d !t !it in
                    t := t'; it := it';
                    (match r with
                     | Res.Ok (Some rw) -> Buffer.add_string b (Printf.sprintf " %s-%s" (string_of_n rw.RN.r_start) (string_of_n rw.RN.r_end))
                     | Res.Ok None -> Buffer.add_string b " none"
                     | Res.Err e -> Buffer.add_string b (" E" ^ Errnames.name e); stop := true
                     | Res.Panic -> raise Panicked | Res.OutOfFuel -> raise Fuel)
                  end
                done;
                (* into_current_row *)
                (if !t.RN.t_cur_valid then
                   (match RN.top !t.RN.t_ctx with
                    | Res.Ok rw -> Buffer.add_string b (" cur=" ^ S_c06.pr_row rw)
                    | _ -> raise Panicked)
                 else Buffer.add_string b " cur=none");
                Buffer.contents b)
       | _ -> "panic"))

let hist_L_model dbg (h : hcase) (j : int) (a : Z.t) : string = guard (fun () ->
  let hbs = sbases_of h.hb in
  match M.hdr_parse dbg h.hbe hbs (n_of_int h.hasz) (bytes_of_ints h.hbytes) with
  | Res.Err e -> "err " ^ Errnames.name e
  | Res.Panic -> raise Panicked | Res.OutOfFuel -> raise Fuel
  | Res.Ok hd ->
    (match M.hdr_table hd with
     | None -> "ok notable"
     | Some hd ->
       let (rows, e) = get (M.tbl_all dbg hbs hd) in
       let b = Buffer.create 64 in
       Buffer.add_string b "ok rows";
       List.iter (fun (x, y) -> Buffer.add_string b (" " ^ ptr_str x ^ ":" ^ ptr_str y)) rows;
       (match e with None -> Buffer.add_string b " end" | Some e -> Buffer.add_string b (" err " ^ Errnames.name e));
       ignore j;
       Buffer.add_string b (" | " ^ (match M.hdr_lookup dbg hbs hd (n_of_z a) with
         | Res.Ok p -> ptr_str p | Res.Err e -> Errnames.name e
         | Res.Panic -> raise Panicked | Res.OutOfFuel -> raise Fuel));
       Buffer.contents b))

let () =
  register "c05.hist" ~doc:"mixed-operation histories of the other public iterators of read/cfi.rs: CfiEntriesIter clone+resume at every position; CallFrameInstructionIter clone+resume; UnwindTable next_row x j then into_current_row (valid exactly after a delivered row); EhHdrTable::lookup between two halves of a table iteration" (fun ~seed ~n emit ->
    let r = mk_rng seed in
    let secs = ref [] in
    grid_sections (fun c es -> if List.length !secs < 40 || rand_int r 12 = 0 then secs := (c, ints_of_bytes (encode c es)) :: !secs);
    (* E: every grid section kept, clones at all positions 0..4 *)
    List.iter (fun ((c : cfg), bytes) ->
      both emit (Printf.sprintf "c05.hist E %s %s 0 1 2 3 4" (cfg_toks c) (hex_of_ints bytes))
        (fun dbg -> dump_model dbg c (bytes_of_ints bytes))) !secs;
    for i = 1 to n do
      if not (Streams.mine ()) then Streams.skip () else begin
        let r = mk_rng (seed * 3000017 + i) in
        let clean = rand_int r 3 <> 0 in
        let (c, es) = uwi_section r ~clean in
        let bytes0 = ints_of_bytes (encode c es) in
        let bytes = if rand_int r 5 = 0 then mutate_body r (List.map int_of_n (S.offsets (sparams_of c) es)) bytes0 else bytes0 in
        let bytes = if all_setloc_plain c false (bytes_of_ints bytes) then bytes else bytes0 in
        let sec = bytes_of_ints bytes in
        let j = rand_int r 8 in
        match i mod 3 with
        | 0 -> both emit (Printf.sprintf "c05.hist E %s %s %d %d" (cfg_toks c) (hex_of_ints bytes) j (j + 2))
                 (fun dbg -> dump_model dbg c sec)
        | 1 -> both emit (Printf.sprintf "c05.hist I %s %s %d" (cfg_toks c) (hex_of_ints bytes) j)
                 (fun dbg -> hist_I_model dbg c sec)
        | _ -> both emit (Printf.sprintf "c05.hist T %s %s %d" (cfg_toks c) (hex_of_ints bytes) j)
                 (fun dbg -> hist_T_model dbg c sec j)
      end
    done;
    for i = 1 to n / 3 + 6 do
      if not (Streams.mine ()) then Streams.skip () else begin
        let r = mk_rng (seed * 9000011 + i) in
        match gen_wf_hdr_retry r ~nfde:(1 + rand_int r 8) 10 with
        | Some h ->
            let h = if rand_int r 4 = 0 then perturb_hdr r h else h in
            let j = rand_int r 6 in
            let a = List.nth h.addrs (rand_int r (List.length h.addrs)) in
            let l = hcase_line "x" { h with addrs = [] } in
            both emit (Printf.sprintf "c05.hist L %s %d %s" (String.sub l 2 (String.length l - 2)) j (Z.to_string a))
              (fun dbg -> hist_L_model dbg h j a)
        | None -> Streams.skip ()
      end
    done)
let init () = ()
