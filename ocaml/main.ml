(* main.ml — gv-model: `gv-model gen <stream> <seed> <n> [shard nshards]` prints
   case<TAB>expected_debug<TAB>expected_release, one line per case.
   `gv-model list` prints the stream names. *)
let () =
  Conv.self_check ();
  (* force linking of stream modules *)
  S_c09.init ();
  match Array.to_list Sys.argv |> List.tl with
  | ["list"] ->
      Hashtbl.iter (fun k (_, doc) -> Printf.printf "%s\t%s\n" k doc) Streams.table
  | "gen" :: stream :: seed :: n :: rest ->
      let shard, nshards = match rest with
        | [a; b] -> int_of_string a, int_of_string b | _ -> 0, 1 in
      let (g, _) = try Hashtbl.find Streams.table stream with Not_found ->
        prerr_endline ("unknown stream " ^ stream); exit 2 in
      let i = ref 0 in
      let out = Buffer.create (1 lsl 16) in
      let emit case d r =
        if !i mod nshards = shard then begin
          Buffer.add_string out case; Buffer.add_char out '\t';
          Buffer.add_string out d; Buffer.add_char out '\t';
          Buffer.add_string out r; Buffer.add_char out '\n';
          if Buffer.length out > 60000 then (print_string (Buffer.contents out); Buffer.clear out)
        end;
        incr i in
      g ~seed:(int_of_string seed) ~n:(int_of_string n) emit;
      print_string (Buffer.contents out)
  | _ -> prerr_endline "usage: gv-model list | gen <stream> <seed> <n> [shard nshards]"; exit 2
