(* s_c17g.ml — stream c17.unitglue: the glue of src/read/dwarf.rs (Unit::new, attr_string, attr_address, make_dwo,
   copy_relocated_attributes, dwo_name, unit_ranges) against the extracted Model/UnitGlue.v.
   The generator writes the bytes of every section (unit, abbreviations, strings, offset tables, line programs,
   range lists); the model side parses the same bytes with the extracted C02/C03/C04/C08 reader models. *)
open Conv
open Streams
module G = UnitGlue
module D = DieRd

exception MPanic
exception MFuel
let ename = Errnames.name
let sn = string_of_n
let rs pr = function
  | Res.Ok a -> pr a | Res.Err e -> "E:" ^ ename e | Res.Panic -> raise MPanic | Res.OutOfFuel -> raise MFuel
let guard f = try f () with MPanic -> "panic" | MFuel -> "outoffuel"
let opt pr = function None -> "none" | Some x -> pr x
let shex (l : Byte0.byte list) = "s" ^ hex_of_bytes l
let cat = String.concat

(* ------------------------------------------------------------------ byte builders (int lists) *)
let p2 k = Z.shift_left Z.one k
let zi = Z.of_int
let rec uleb (v : Z.t) =
  let b = Z.to_int (Z.logand v (zi 127)) in
  let r = Z.shift_right v 7 in
  if Z.sign r = 0 then [b] else (b lor 128) :: uleb r
let ulebi i = uleb (zi i)
let rec sleb (v : Z.t) =
  let b = Z.to_int (Z.logand v (zi 127)) in
  let r = Z.shift_right v 7 in
  if (Z.sign r = 0 && b land 64 = 0) || (Z.equal r Z.minus_one && b land 64 <> 0) then [b] else (b lor 128) :: sleb r
let enc_le w (v : Z.t) = List.init w (fun i -> Z.to_int (Z.logand (Z.shift_right v (8 * i)) (zi 255)))
let enc be w v = let l = enc_le w v in if be then List.rev l else l
let cstr s = List.init (String.length s) (fun i -> Char.code s.[i]) @ [0]

type cfg = { ver : int; f64 : bool; asz : int; be : bool; ut : int; types : bool; dwo : bool }
let wsz c = if c.f64 then 8 else 4
let word c v = enc c.be (wsz c) v
let init_len c (n : int) = if c.f64 then enc c.be 4 (Z.pred (p2 32)) @ enc c.be 8 (zi n) else enc c.be 4 (zi n)
let wmax c = Z.pred (p2 (8 * wsz c))

(* ------------------------------------------------------------------ sections *)
type env = {
  str : int list; str_offs : int list;            (* .debug_str and the offsets of its strings *)
  line_str : int list; lstr_offs : int list;
  sup : int list option; sup_offs : int list;
  stroffs : int list; sob : int; nstr : int;       (* .debug_str_offsets, where its entries start, entry count *)
  addr : int list; ab : int; naddr : int;
  line : int list; line_offs : int list;
  ranges : int list; ranges_offs : int list;
  rnglists : int list; rlb : int; nrl : int }

let strtab prefix pad (names : string list) drop_nul =
  let b = ref (cstr pad) and offs = ref [] in
  List.iter (fun s -> offs := List.length !b :: !offs; b := !b @ cstr (prefix ^ s)) names;
  let l = !b in
  let l = if drop_nul then List.filteri (fun i _ -> i < List.length l - 1) l else l in
  (l, List.rev !offs)

let line_program c ver ~asz =
  let std = [0; 1; 1; 1; 1; 0; 0; 0; 1; 0; 0; 1] in
  let after_hl =
    [1] @ (if ver >= 4 then [1] else []) @ [1; 0xfb; 14; 13] @ std @
    (if ver <= 4 then cstr "inc" @ [0] @ cstr "f.c" @ [0; 0; 0] @ [0]
     else [1; 1; 8] @ [1] @ cstr "d5" @ [2; 1; 8; 2; 15] @ [1] @ cstr "f5" @ [0]) in
  let program = [0; 1; 1] in
  let after_len = enc c.be 2 (zi ver) @ (if ver >= 5 then [asz; 0] else []) @ word c (zi (List.length after_hl))
                  @ after_hl @ program in
  init_len c (List.length after_len) @ after_len

let mk_env r c : env =
  let names = ["main.c"; "/comp/dir"; "x.dwo"; ""; "producer"] in
  let drop = rand_int r 12 = 0 in
  let (str, str_offs) = strtab "" "pad" names drop in
  let (line_str, lstr_offs) = strtab "l:" "LS" names false in
  let (sup, sup_offs) = strtab "s:" "SUPP" names false in
  let has_sup = rand_int r 3 <> 0 in
  (* .debug_str_offsets: a DWARF 5 header (or none: GNU) followed by the offsets of the strings, and one
     entry pointing outside .debug_str *)
  let headered = if rand_int r 8 = 0 then c.ver < 5 else c.ver >= 5 in
  let entries = List.concat_map (fun o -> word c (zi o)) str_offs @ word c (zi (List.length str + 3)) in
  let hdr = if headered then init_len c (4 + List.length entries) @ enc c.be 2 (zi 5) @ [0; 0] else [] in
  let stroffs = hdr @ entries in
  let stroffs = if rand_int r 10 = 0 then (let cut = List.length stroffs - 1 - rand_int r 3 in List.filteri (fun i _ -> i < cut) stroffs) else stroffs in
  (* .debug_addr *)
  let amax = Z.pred (p2 (8 * c.asz)) in
  let addrs = [zi 0x10; zi 0x20; amax; Z.zero; Z.pred amax; zi 0x44] in
  let aentries = List.concat_map (fun a -> enc c.be c.asz (Z.logand a amax)) addrs in
  let ahdr = if (c.ver >= 5) <> (rand_int r 8 = 0) then enc c.be 4 (zi (4 + List.length aentries)) @ enc c.be 2 (zi 5) @ [c.asz; 0] else [] in
  let addr = ahdr @ aentries in
  let addr = if rand_int r 10 = 0 then List.filteri (fun i _ -> i < List.length addr - 1) addr else addr in
  (* .debug_line: two programs separated by a junk byte *)
  let lv = if rand_int r 4 = 0 then 2 + rand_int r 4 else c.ver in
  let lp1 = line_program c lv ~asz:c.asz in
  let lp2 = line_program c (2 + rand_int r 4) ~asz:(if rand_bool r then 8 else 4) in
  let line = lp1 @ [0x77] @ lp2 in
  let line = if rand_int r 10 = 0 then (let cut = List.length line - 1 - rand_int r 30 in List.filteri (fun i _ -> i < cut) line) else line in
  (* .debug_ranges: two lists *)
  let a v = enc c.be c.asz (Z.logand (zi v) amax) in
  let l1 = a 0x10 @ a 0x20 @ a 0x30 @ a 0x44 @ a 0 @ a 0 in
  let l2 = a 1 @ a 2 @ a 0 @ a 0 in
  let ranges = l1 @ l2 in
  (* .debug_rnglists: header, two offsets, two lists *)
  let rl1 = [4; 1; 2; 7] @ a 0x50 @ [4; 0] and rl2 = [3; 0; 6; 6] @ a 0x60 @ a 0x70 @ [0] in
  let offs = word c (zi (2 * wsz c)) @ word c (zi (2 * wsz c + List.length rl1)) in
  let body = enc c.be 2 (zi 5) @ [c.asz; 0] @ enc c.be 4 (zi 2) @ offs @ rl1 @ rl2 in
  let rhdr = init_len c (List.length body) in
  let rnglists = rhdr @ body in
  let rlb = List.length rhdr + 8 in
  { str; str_offs; line_str; lstr_offs; sup = (if has_sup then Some sup else None); sup_offs;
    stroffs; sob = List.length hdr; nstr = List.length str_offs + 1;
    addr; ab = List.length ahdr; naddr = List.length addrs;
    line; line_offs = [0; List.length lp1 + 1];
    ranges; ranges_offs = [0; List.length l1];
    rnglists; rlb; nrl = 2 }

(* ------------------------------------------------------------------ attributes *)
type attr = { name : int; form : int; implicit : Z.t option; data : int list }

let at_name = 3 and at_low_pc = 17 and at_high_pc = 18 and at_comp_dir = 27 and at_stmt_list = 16
and at_sob = 114 and at_addr_base = 115 and at_rnglists_base = 116 and at_dwo_name = 118 and at_loclists_base = 140
and at_gnu_dwo_name = 0x2130 and at_gnu_dwo_id = 0x2131 and at_gnu_ranges_base = 0x2132 and at_gnu_addr_base = 0x2133
and at_ranges = 85 and at_producer = 37 and at_entry_pc = 82 and at_language = 19

let plain name form data = { name; form; implicit = None; data }
let indirect (a : attr) = if a.form = 33 then a else { a with form = 22; data = ulebi a.form @ a.data }

(* boundary-biased pick around a list of good values and a limit *)
let pick_off r (good : int list) (limit : int) (maxv : Z.t) : Z.t =
  match rand_int r 12 with
  | 0 -> zi limit | 1 -> zi (limit + 1) | 2 -> zi (max 0 (limit - 1)) | 3 -> maxv | 4 -> Z.zero
  | 5 -> zi (rand_int r (limit + 2))
  | _ -> (match good with [] -> Z.zero | _ -> zi (List.nth good (rand_int r (List.length good))))
let pick_idx r (n : int) (maxv : Z.t) : Z.t =
  match rand_int r 10 with
  | 0 -> zi n | 1 -> zi (n + 1) | 2 -> maxv | 3 -> Z.div maxv (zi 4) | _ -> zi (rand_int r (max 1 n))

(* an index form: uleb or fixed width; the value is truncated to the width *)
let idx_form c r (forms : (int * int) list) (v : Z.t) : int * int list =
  let (f, w) = List.nth forms (rand_int r (List.length forms)) in
  if w = 0 then (f, uleb (Z.logand v (Z.pred (p2 64)))) else (f, enc c.be w (Z.logand v (Z.pred (p2 (8 * w)))))

let strx_forms = [(26, 0); (37, 1); (38, 2); (39, 3); (40, 4); (0x1f02, 0)]
let addrx_forms = [(27, 0); (41, 1); (42, 2); (43, 3); (44, 4); (0x1f01, 0)]

let gen_string c e r name : attr =
  match rand_int r 9 with
  | 0 -> plain name 8 (cstr (pick r [| "inl"; ""; "a/b.c"; "\xc3\xa9" |]))
  | 1 | 2 -> plain name 14 (word c (pick_off r e.str_offs (List.length e.str) (wmax c)))
  | 3 | 4 | 5 -> let (f, d) = idx_form c r strx_forms (pick_idx r e.nstr (Z.pred (p2 64))) in plain name f d
  | 6 -> plain name 31 (word c (pick_off r e.lstr_offs (List.length e.line_str) (wmax c)))
  | 7 -> plain name (if rand_bool r then 29 else 0x1f21) (word c (pick_off r e.sup_offs (match e.sup with Some s -> List.length s | None -> 20) (wmax c)))
  | _ -> (match rand_int r 3 with 0 -> plain name 11 [7] | 1 -> plain name 10 [2; 0x61; 0] | _ -> plain name 12 [1])

let gen_address c e r name : attr =
  let amax = Z.pred (p2 (8 * c.asz)) in
  match rand_int r 8 with
  | 0 | 1 | 2 -> plain name 1 (enc c.be c.asz (match rand_int r 4 with 0 -> Z.zero | 1 -> amax | 2 -> Z.pred amax | _ -> Z.logand (rand_z64 r) amax))
  | 3 | 4 | 5 | 6 -> let (f, d) = idx_form c r addrx_forms (pick_idx r e.naddr (Z.pred (p2 64))) in plain name f d
  | _ -> (match rand_int r 3 with 0 -> plain name 6 (enc c.be 4 (zi 0x1234)) | 1 -> plain name 15 (ulebi 9) | _ -> plain name 8 (cstr "a"))

(* a section offset class attribute: sec_offset / data4 / data8 / udata / others *)
let gen_secoff c r name (good : int list) (limit : int) : attr =
  let v = pick_off r good limit (wmax c) in
  match rand_int r 10 with
  | 0 | 1 | 2 | 3 | 4 -> plain name 23 (word c v)
  | 5 -> plain name 6 (enc c.be 4 (Z.logand v (Z.pred (p2 32))))
  | 6 -> plain name 7 (enc c.be 8 v)
  | 7 -> plain name 15 (uleb v)
  | 8 -> plain name 11 [Z.to_int (Z.logand v (zi 255))]
  | _ -> { name; form = 33; implicit = Some v; data = [] }

let gen_const c r name : attr =
  let v = boundary_z64 r in
  match rand_int r 9 with
  | 0 | 1 | 2 -> plain name 7 (enc c.be 8 v)
  | 3 -> plain name 11 [Z.to_int (Z.logand v (zi 255))]
  | 4 -> plain name 6 (enc c.be 4 (Z.logand v (Z.pred (p2 32))))
  | 5 -> plain name 15 (uleb v)
  | 6 -> plain name 13 (sleb (Z.sub (Z.logand v (Z.pred (p2 63))) (if rand_bool r then p2 62 else Z.zero)))
  | 7 -> { name; form = 33; implicit = Some (Z.sub (Z.logand v (Z.pred (p2 63))) (if rand_bool r then p2 62 else Z.zero)); data = [] }
  | _ -> plain name 8 (cstr "id")

let gen_attr c e r name : attr =
  let a =
    if name = at_name || name = at_comp_dir || name = at_dwo_name || name = at_gnu_dwo_name || name = at_producer
    then gen_string c e r name
    else if name = at_low_pc || name = at_entry_pc then gen_address c e r name
    else if name = at_high_pc then (if rand_bool r then gen_address c e r name else gen_const c r name)
    else if name = at_stmt_list then gen_secoff c r name e.line_offs (List.length e.line)
    else if name = at_sob then gen_secoff c r name [e.sob; 0; 8; 16] (List.length e.stroffs)
    else if name = at_addr_base || name = at_gnu_addr_base then gen_secoff c r name [e.ab; 0; 8] (List.length e.addr)
    else if name = at_rnglists_base then gen_secoff c r name [e.rlb; 0; 12; 20] (List.length e.rnglists)
    else if name = at_gnu_ranges_base then gen_secoff c r name e.ranges_offs (List.length e.ranges)
    else if name = at_loclists_base then gen_secoff c r name [0; 12; 20] 40
    else if name = at_gnu_dwo_id then gen_const c r name
    else if name = at_ranges then
      (if rand_int r 3 = 0 then plain name 35 (uleb (pick_idx r e.nrl (Z.pred (p2 64))))
       else gen_secoff c r name (e.ranges_offs @ [e.rlb + 2 * wsz c]) (List.length e.ranges))
    else gen_const c r name in
  if rand_int r 12 = 0 then indirect a else a

let all_names = [at_name; at_comp_dir; at_low_pc; at_high_pc; at_stmt_list; at_sob; at_addr_base; at_gnu_addr_base;
                 at_rnglists_base; at_gnu_ranges_base; at_loclists_base; at_gnu_dwo_id; at_dwo_name; at_gnu_dwo_name;
                 at_ranges; at_producer; at_entry_pc; at_language]

(* ------------------------------------------------------------------ unit + abbreviation bytes *)
let build_abbrev ~code ~tag ~children (attrs : attr list) =
  ulebi code @ ulebi tag @ [if children then 1 else 0]
  @ List.concat_map (fun a -> ulebi a.name @ ulebi a.form @ (match a.implicit with Some z when a.form = 33 -> sleb z | _ -> [])) attrs
  @ [0; 0] @ [0]

let build_unit c ~abbrev_off ~(id : Z.t) ~nulls ~code ~children (attrs : attr list) =
  let tspec =
    if c.ver >= 5 then
      (match c.ut with
       | 4 | 5 -> enc c.be 8 id
       | 2 | 6 -> enc c.be 8 id @ word c (zi 30)
       | _ -> [])
    else if c.types then enc c.be 8 id @ word c (zi 30) else [] in
  let hdr = enc c.be 2 (zi c.ver)
            @ (if c.ver >= 5 then [c.ut; c.asz] @ word c (zi abbrev_off) else word c (zi abbrev_off) @ [c.asz])
            @ tspec in
  let die = List.init nulls (fun _ -> 0) @ ulebi code @ List.concat_map (fun a -> a.data) attrs
            @ (if children then [0] else []) in
  let body = hdr @ die in
  init_len c (List.length body) @ body

let tag_of c = match c.ut with 4 -> 0x4a | 2 | 6 -> 0x41 | 3 -> 0x3c | _ -> 0x11

(* ------------------------------------------------------------------ model evaluation *)
let mk_dwarf ~be ~dwo ~info ~types_sec ~abbrev ~str ~stroffs ~line_str ~addr ~line ~ranges ~rnglists ~sup : G.dwarf =
  let b = bytes_of_ints in
  { G.dw_be = be; dw_abbrev = b abbrev; dw_addr = b addr; dw_aranges = []; dw_info = b info; dw_line = b line;
    dw_line_str = b line_str; dw_macinfo = []; dw_macro = []; dw_names = []; dw_str = b str;
    dw_str_offsets = b stroffs; dw_types = b types_sec; dw_loc = []; dw_loclists = []; dw_ranges = b ranges;
    dw_rnglists = b rnglists; dw_dwo = dwo; dw_sup = (match sup with Some s -> Some (b s) | None -> None) }

let show_lp (p : G.line_prog) =
  let h = p.G.lp_header in
  let old = Z.leq (z_of_n h.LineSpec.h_version) (zi 4) in
  Printf.sprintf "%s.%s.%s.%s.%s.%s.%s" (sn p.G.lp_offset) (sn h.LineSpec.h_version) (sn h.LineSpec.h_addr_size)
    (sn h.LineSpec.h_header_length) (sn h.LineSpec.h_unit_length)
    (if old then opt shex p.G.lp_comp_dir else "x") (if old then opt shex p.G.lp_comp_name else "x")

let show_events (l : (BinNums.coq_N * BinNums.coq_N) ListsRd.ev list) =
  "ok" ^ cat "" (List.map (function
    | ListsRd.EvItem (b, e) -> Printf.sprintf " r %s %s" (sn b) (sn e)
    | ListsRd.EvErr x -> " e " ^ ename x) l)

let show_unit dbg (d : G.dwarf) (u : G.unit_t) =
  let h = u.G.un_header in
  let e = h.D.u_enc in
  let fields = Printf.sprintf "hdr=%s,%d,%s,%s name=%s dir=%s low=%s sob=%s ab=%s llb=%s rlb=%s id=%s lp=%s"
      (sn e.FormSpec.version) (if e.FormSpec.fmt64 then 8 else 4) (sn e.FormSpec.address_size)
      (sn (Forest.ut_code h.D.u_type))
      (opt shex u.G.un_name) (opt shex u.G.un_comp_dir) (sn u.G.un_low_pc) (sn u.G.un_str_offsets_base)
      (sn u.G.un_addr_base) (sn u.G.un_loclists_base) (sn u.G.un_rnglists_base) (opt sn u.G.un_dwo_id)
      (opt show_lp u.G.un_line_program) in
  let dwon = match G.dwo_name dbg u with
    | Res.Ok None -> "none"
    | Res.Ok (Some v) -> "S" ^ rs shex (G.attr_string d u v)
    | r -> rs (fun _ -> "") r in
  let probes = match G.root_dfs dbg h u.G.un_abbrevs with
    | Res.Ok root ->
        cat ";" (List.map (fun (sp, raw) ->
          let v = Attr.attr_normalise sp.Attr.at_name raw in
          Printf.sprintf "%s,%s,%s" (rs shex (G.attr_string d u v)) (rs shex (G.attr_line_string d v))
            (rs (opt sn) (G.attr_address d u v))) root.Forest.d_attrs)
    | _ -> "noroot" in
  let ur = rs show_events (G.unit_ranges_all dbg d u) in
  Printf.sprintf "%s dwon=%s probes=%s ranges=%s" fields dwon probes ur

let show_plumbing (d : G.dwarf) =
  Printf.sprintf "dwo=%d addr=%s ranges=%s sup=%s" (if d.G.dw_dwo then 1 else 0) (hex_of_bytes d.G.dw_addr)
    (hex_of_bytes d.G.dw_ranges) (opt hex_of_bytes d.G.dw_sup)

let eval dbg (d : G.dwarf) ~types (parent : G.dwarf option) =
  guard (fun () ->
    match G.first_header d types with
    | Res.Err e -> "hdr-err " ^ ename e
    | Res.Panic -> "panic" | Res.OutOfFuel -> "outoffuel"
    | Res.Ok None -> "nounit"
    | Res.Ok (Some h) ->
        (match parent with
         | None ->
             (match G.unit_new dbg d h with
              | Res.Ok u -> "ok " ^ show_unit dbg d u
              | Res.Err e -> "err " ^ ename e
              | Res.Panic -> "panic" | Res.OutOfFuel -> "outoffuel")
         | Some pd ->
             (match G.first_header pd false with
              | Res.Ok (Some ph) ->
                  (match G.unit_new dbg pd ph with
                   | Res.Ok sk ->
                       (match G.load_dwo_unit dbg d pd sk h with
                        | Res.Ok (d', u) -> "ok " ^ show_plumbing d' ^ " " ^ show_unit dbg d' u
                        | Res.Err e -> "err " ^ ename e
                        | Res.Panic -> "panic" | Res.OutOfFuel -> "outoffuel")
                   | Res.Err e -> "parent-err " ^ ename e
                   | Res.Panic -> "panic" | Res.OutOfFuel -> "outoffuel")
              | Res.Ok None -> "parent-nounit"
              | Res.Err e -> "parent-hdr-err " ^ ename e
              | Res.Panic -> "panic" | Res.OutOfFuel -> "outoffuel")))

(* ------------------------------------------------------------------ cases *)
type parent = { pinfo : int list; pabbrev : int list; paddr : int list; pranges : int list; psup : int list option }

let emit_case emit c (e : env) ~unit_bytes ~abbrev (p : parent option) =
  let h = hex_of_ints in
  let (info, types_sec) = if c.types then ([], unit_bytes) else (unit_bytes, []) in
  let case = Printf.sprintf "c17.unitglue %d %d %d %d %s %s %s %s %s %s %s %s %s %d %s%s"
      (if c.be then 1 else 0) (if c.dwo then 1 else 0) (if c.types then 1 else 0) (if p = None then 0 else 1)
      (h unit_bytes) (h abbrev) (h e.str) (h e.stroffs) (h e.line_str) (h e.addr) (h e.line) (h e.ranges) (h e.rnglists)
      (if e.sup = None then 0 else 1) (match e.sup with Some s -> h s | None -> "-")
      (match p with
       | None -> ""
       | Some p -> Printf.sprintf " %s %s %s %s %d %s" (h p.pinfo) (h p.pabbrev) (h p.paddr) (h p.pranges)
                     (if p.psup = None then 0 else 1) (match p.psup with Some s -> h s | None -> "-")) in
  both emit case (fun dbg ->
    let d = mk_dwarf ~be:c.be ~dwo:c.dwo ~info ~types_sec ~abbrev ~str:e.str ~stroffs:e.stroffs ~line_str:e.line_str
        ~addr:e.addr ~line:e.line ~ranges:e.ranges ~rnglists:e.rnglists ~sup:e.sup in
    let pd = match p with
      | None -> None
      | Some p -> Some (mk_dwarf ~be:c.be ~dwo:false ~info:p.pinfo ~types_sec:[] ~abbrev:p.pabbrev ~str:[] ~stroffs:[]
                          ~line_str:[] ~addr:p.paddr ~line:[] ~ranges:p.pranges ~rnglists:[] ~sup:p.psup) in
    eval dbg d ~types:c.types pd)

let unit_case emit c e ?(nulls = 0) ?(children = false) ?(abbrev_pad = 0) ?(id = Z.of_string "0x1122334455667788") ?parent
    (attrs : attr list) =
  let abbrev = List.init abbrev_pad (fun _ -> 0) @ build_abbrev ~code:1 ~tag:(tag_of c) ~children attrs in
  let unit_bytes = build_unit c ~abbrev_off:abbrev_pad ~id ~nulls ~code:1 ~children attrs in
  emit_case emit c e ~unit_bytes ~abbrev parent

(* a skeleton unit in a parent file *)
let mk_parent r c (e : env) : parent =
  let pc = { c with ut = (if c.ver >= 5 then 4 else 1); types = false; dwo = false } in
  let amax = Z.pred (p2 (8 * c.asz)) in
  let paddr = (if c.ver >= 5 then enc c.be 4 (zi (4 + 3 * c.asz)) @ enc c.be 2 (zi 5) @ [c.asz; 0] else [])
              @ enc c.be c.asz (zi 0x7000) @ enc c.be c.asz (zi 0x7100) @ enc c.be c.asz amax in
  let pab = if c.ver >= 5 then 8 else 0 in
  let a v = enc c.be c.asz (Z.logand (zi v) amax) in
  let pranges = a 0x100 @ a 0x200 @ a 0 @ a 0 @ a 0x300 @ a 0x400 @ a 0 @ a 0 in
  let pe = { e with addr = paddr; ab = pab; naddr = 3; ranges = pranges; ranges_offs = [0; 4 * c.asz]; str = []; str_offs = [];
                    stroffs = []; line = []; line_offs = [] } in
  let names = List.filter (fun _ -> rand_int r 3 <> 0)
      [at_addr_base; at_gnu_addr_base; at_low_pc; at_gnu_ranges_base; at_rnglists_base; at_gnu_dwo_id; at_sob; at_loclists_base] in
  let attrs = List.map (fun n ->
      if n = at_low_pc && rand_bool r then plain n 1 (a (0x5000 + rand_int r 16)) else
      if (n = at_addr_base || n = at_gnu_addr_base) && rand_int r 4 <> 0 then plain n 23 (word c (zi pab)) else
      gen_attr pc pe r n) names in
  let pabbrev = build_abbrev ~code:1 ~tag:(tag_of pc) ~children:false attrs in
  let pinfo = build_unit pc ~abbrev_off:0 ~id:(Z.of_string "0x0a0b0c0d0e0f1011") ~nulls:0 ~code:1 ~children:false attrs in
  { pinfo; pabbrev; paddr; pranges; psup = (if rand_bool r then Some (cstr "PS" @ cstr "s:parent") else None) }

let cfgs_all () =
  List.concat_map (fun ver -> List.concat_map (fun f64 -> List.concat_map (fun dwo ->
    let uts = if ver >= 5 then [(1, false); (2, false); (3, false); (4, false); (5, false); (6, false)]
      else [(1, false); (2, true)] in
    List.map (fun (ut, types) -> { ver; f64; asz = 8; be = false; ut; types; dwo }) uts)
    [false; true]) [false; true]) [2; 3; 4; 5]

let typical c e name : attr =
  (* the form a producer of this version would use *)
  if name = at_name then (if c.ver >= 5 then plain name 37 [0] else plain name 14 (word c (zi (List.nth e.str_offs 0))))
  else if name = at_comp_dir then (if c.ver >= 5 then plain name 31 (word c (zi (List.nth e.lstr_offs 1))) else plain name 8 (cstr "/cd"))
  else if name = at_low_pc then (if c.ver >= 5 then plain name 27 [1] else plain name 1 (enc c.be c.asz (zi 0x4000)))
  else if name = at_stmt_list then plain name (if c.ver >= 4 then 23 else if c.f64 then 7 else 6) (word c Z.zero)
  else if name = at_sob then plain name 23 (word c (zi e.sob))
  else if name = at_addr_base || name = at_gnu_addr_base then plain name 23 (word c (zi e.ab))
  else if name = at_rnglists_base then plain name 23 (word c (zi e.rlb))
  else if name = at_gnu_ranges_base then plain name 23 (word c (zi (List.nth e.ranges_offs 1)))
  else if name = at_loclists_base then plain name 23 (word c (zi 12))
  else if name = at_gnu_dwo_id then plain name 7 (enc c.be 8 (Z.of_string "0xfeedfacecafebeef"))
  else if name = at_dwo_name || name = at_gnu_dwo_name then plain name 14 (word c (zi (List.nth e.str_offs 2)))
  else if name = at_ranges then (if c.ver >= 5 then plain name 35 [1] else plain name (if c.ver >= 4 then 23 else if c.f64 then 7 else 6) (word c Z.zero))
  else if name = at_high_pc then plain name 15 [0x20]
  else if name = at_producer then plain name 14 (word c (zi (List.nth e.str_offs 4)))
  else if name = at_entry_pc then plain name 1 (enc c.be c.asz (zi 0x4010))
  else plain name 11 [12]

let rec perms = function
  | [] -> [[]]
  | l -> List.concat_map (fun x -> List.map (fun p -> x :: p) (perms (List.filter (fun y -> y != x) l))) l

let gen ~seed ~n emit =
  let r0 = mk_rng (seed * 7919 + 17) in
  (* 1. every version x format x unit type x file type (with a supplementary file): the typical unit, its
        attributes in forward and in reverse order, alone and under a skeleton *)
  List.iter (fun c ->
    let e = mk_env (mk_rng 5) c in
    let e = { e with sup = Some (match e.sup with Some s -> s | None -> cstr "SUPP" @ cstr "s:main.c") } in
    let names = [at_name; at_comp_dir; at_low_pc; at_high_pc; at_stmt_list;
                 (if c.ver >= 5 then at_addr_base else at_gnu_addr_base);
                 (if c.ver >= 5 then at_rnglists_base else at_gnu_ranges_base);
                 at_gnu_dwo_id; (if c.ver >= 5 then at_dwo_name else at_gnu_dwo_name); at_producer] in
    let names = if c.dwo then names else at_sob :: at_loclists_base :: names in
    let attrs = List.map (typical c e) names in
    unit_case emit c e attrs;
    unit_case emit c e (List.rev attrs);
    unit_case emit { c with be = true; asz = 4 } (mk_env (mk_rng 6) { c with be = true; asz = 4 })
      (List.map (typical { c with be = true; asz = 4 } (mk_env (mk_rng 6) { c with be = true; asz = 4 })) names);
    if not c.types then begin
      let p = mk_parent (mk_rng (c.ver * 10 + c.ut)) c e in
      unit_case emit c e ~parent:p (List.map (typical c e) [at_name; at_low_pc; at_ranges; at_gnu_dwo_id; at_high_pc]);
      unit_case emit c e ~parent:p (List.map (typical c e) [at_ranges])
    end) (cfgs_all ());
  (* 2. order dependence and duplicates: every permutation of (indexed attribute, its base, a second base) *)
  List.iter (fun ver -> List.iter (fun f64 -> List.iter (fun dwo ->
    let c = { ver; f64; asz = 8; be = false; ut = 1; types = false; dwo } in
    let e = mk_env (mk_rng 9) c in
    let trip1 = [plain at_low_pc 27 [1]; plain at_addr_base 23 (word c (zi e.ab)); plain at_gnu_addr_base 23 (word c (zi (e.ab + c.asz)))] in
    let trip2 = [plain at_name 26 [0]; plain at_sob 23 (word c (zi e.sob)); plain at_sob 23 (word c (zi (e.sob + wsz c)))] in
    let trip3 = [plain at_name 14 (word c (zi (List.nth e.str_offs 0))); plain at_name 8 (cstr "second"); plain at_name 11 [3]] in
    let trip4 = [plain at_gnu_dwo_id 7 (enc c.be 8 (zi 111)); plain at_gnu_dwo_id 8 (cstr "x"); plain at_gnu_dwo_id 15 (ulebi 222)] in
    let trip5 = [plain at_stmt_list 23 (word c (zi (List.nth e.line_offs 1))); plain at_stmt_list 15 [0]; plain at_stmt_list 23 (word c Z.zero)] in
    let trip6 = [plain at_low_pc 1 (enc c.be 8 (zi 0x99)); plain at_low_pc 15 [5]; plain at_comp_dir 8 (cstr "cd")] in
    let trip7 = [plain at_rnglists_base 23 (word c (zi e.rlb)); plain at_gnu_ranges_base 23 (word c (zi 4)); plain at_ranges (if ver >= 5 then 35 else 23) (if ver >= 5 then [0] else word c Z.zero)] in
    let trip8 = [plain at_loclists_base 23 (word c (zi 12)); plain at_loclists_base 6 (enc c.be 4 (zi 5)); plain at_loclists_base 23 (word c (zi 44))] in
    List.iter (fun t -> List.iter (fun p -> unit_case emit c e p) (perms t)) [trip1; trip2; trip3; trip4; trip5; trip6; trip7; trip8];
    (* v5 skeleton / split units: header id vs attribute id *)
    if ver = 5 then List.iter (fun ut -> unit_case emit { c with ut } e [plain at_gnu_dwo_id 7 (enc c.be 8 (zi 333))]) [1; 3; 4; 5; 2; 6])
    [false; true]) [false; true]) [2; 3; 4; 5];
  (* 3. each designated attribute alone, every form, boundary values; root position variants *)
  List.iter (fun ver -> List.iter (fun f64 ->
    let c = { ver; f64; asz = (if f64 then 8 else 4); be = f64; ut = 1; types = false; dwo = (ver mod 2 = 0) } in
    let e = mk_env (mk_rng 11) c in
    List.iter (fun name -> for _ = 1 to 14 do unit_case emit c e [gen_attr c e r0 name] done) all_names;
    unit_case emit c e [];
    unit_case emit c e ~nulls:1 [typical c e at_name; typical c e at_gnu_dwo_name; typical c e at_dwo_name];
    unit_case emit c e ~nulls:3 ~children:true [typical c e at_low_pc];
    unit_case emit c e ~abbrev_pad:2 [typical c e at_name];
    emit_case emit c e ~unit_bytes:[] ~abbrev:[] None) [false; true]) [2; 3; 4; 5];
  (* 4. random: subsets in random order with random forms and values, random configuration; a malformed share *)
  S_c17.for_random ~seed:(seed + 424243) ~n (fun r ->
    let ver = 2 + rand_int r 4 in
    let ut = if ver >= 5 then 1 + rand_int r 6 else if rand_int r 5 = 0 then 2 else 1 in
    let c = { ver; f64 = rand_bool r; asz = pick r [| 1; 2; 4; 8; 8; 4 |]; be = rand_bool r; ut;
              types = (ver < 5 && ut = 2); dwo = rand_bool r } in
    let e = mk_env r c in
    let k = rand_int r 9 in
    let names = List.init k (fun _ -> List.nth all_names (rand_int r (List.length all_names))) in
    let attrs = List.map (fun nm -> if rand_int r 3 = 0 then typical c e nm else gen_attr c e r nm) names in
    let parent = if not c.types && rand_int r 4 = 0 then Some (mk_parent r c e) else None in
    let nulls = if rand_int r 15 = 0 then 1 + rand_int r 2 else 0 in
    let children = rand_int r 6 = 0 in
    let id = if rand_int r 4 = 0 then Z.zero else rand_z64 r in
    match rand_int r 8 with
    | 0 ->
        (* malformed: mutate the unit or the abbreviation bytes *)
        let abbrev = build_abbrev ~code:1 ~tag:(tag_of c) ~children attrs in
        let unit_bytes = build_unit c ~abbrev_off:0 ~id ~nulls ~code:1 ~children attrs in
        if rand_bool r then emit_case emit c e ~unit_bytes:(S_c17.mutate r unit_bytes) ~abbrev parent
        else emit_case emit c e ~unit_bytes ~abbrev:(S_c17.mutate r abbrev) parent
    | _ -> unit_case emit c e ~nulls ~children ~id ?parent attrs)

(* ================================================================== c17.lookup: Dwarf::lookup_offset_id
   All sections (main and supplementary) are sub-slices of ONE buffer of L bytes, so a ReaderOffsetId is
   buffer address + k. The model works relative to (buffer address - 1): place = (1 + start, len), id = 1 + k. *)
let all_sids = [G.SAbbrev; G.SAddr; G.SAranges; G.SInfo; G.SLine; G.SLineStr; G.SMacinfo; G.SMacro; G.SNames; G.SStr;
                G.SStrOffsets; G.STypes; G.SLoc; G.SLocLists; G.SRanges; G.SRngLists]
let sid_index (s : G.sid) = let rec go i = function [] -> -1 | x :: t -> if x = s then i else go (i + 1) t in go 0 all_sids
(* sections whose reader the harness can reach through the public API (all but debug_loc / debug_loclists) *)
let probe_sids = [0; 1; 2; 3; 4; 5; 6; 7; 8; 9; 10; 11; 14; 15]

let lookup_case emit (l : int) (main : (int * int) array) (sup : (int * int) array option) =
  let toks a = cat " " (Array.to_list (Array.map (fun (s, n) -> Printf.sprintf "%d %d" s n) a)) in
  let case = Printf.sprintf "c17.lookup %d %s %d%s" l (toks main) (if sup = None then 0 else 1)
      (match sup with Some a -> " " ^ toks a | None -> "") in
  both emit case (fun dbg ->
    guard (fun () ->
      let place a (s : G.sid) = let (st, n) = a.(sid_index s) in (n_of_int (1 + st), n_of_int n) in
      let sp = match sup with Some a -> Some (place a) | None -> None in
      let show id =
        rs (function
            | None -> "-"
            | Some ((is_sup, s), off) -> Printf.sprintf "%s%d.%s" (if is_sup then "s" else "m") (sid_index s) (sn off))
          (G.lookup_offset_id dbg (place main) sp (n_of_int id)) in
      let sweep = List.init (l + 3) (fun i -> show i) in            (* k = -1 .. l+1 *)
      let probes = List.concat_map (fun i ->
          let (st, n) = main.(i) in
          List.map (fun o -> Printf.sprintf "%d.%d=%s" i o (show (1 + st + o))) [0; n / 2; n]) probe_sids in
      "ok " ^ cat "," sweep ^ " | " ^ cat "," probes))

let gen_lookup ~seed ~n emit =
  let nsec = 16 in
  (* tilings: back to back in the coded order and in reverse (every boundary shared by two sections) *)
  List.iter (fun w ->
    let l = nsec * w in
    let fwd = Array.init nsec (fun i -> (i * w, w)) and bwd = Array.init nsec (fun i -> ((nsec - 1 - i) * w, w)) in
    lookup_case emit l fwd None; lookup_case emit l bwd None;
    lookup_case emit l fwd (Some bwd); lookup_case emit l bwd (Some fwd);
    (* main in the lower half, sup in the upper half; and swapped *)
    let lo = Array.init nsec (fun i -> (i * w, w)) and hi = Array.init nsec (fun i -> (l + i * w, w)) in
    lookup_case emit (2 * l) lo (Some hi); lookup_case emit (2 * l) hi (Some lo)) [0; 1; 2; 3];
  (* each section alone in the middle of the buffer, every other section empty at the end of the buffer:
     for .debug_macinfo / .debug_macro / .debug_names the ids inside are reported as belonging to no section *)
  for i = 0 to nsec - 1 do
    let one = Array.init nsec (fun j -> if j = i then (3, 5) else (12, 0)) in
    let none = Array.make nsec (12, 0) in
    lookup_case emit 12 one None;
    lookup_case emit 12 none (Some one);
    lookup_case emit 12 one (Some one)
  done;
  (* all sections identical; nested sections *)
  lookup_case emit 6 (Array.make nsec (1, 4)) (Some (Array.make nsec (0, 6)));
  lookup_case emit 20 (Array.init nsec (fun i -> (i / 2, 20 - i))) None;
  S_c17.for_random ~seed:(seed + 515151) ~n (fun r ->
    let l = 1 + rand_int r 40 in
    let mk () = Array.init nsec (fun _ ->
        let st = rand_int r (l + 1) in
        let n = match rand_int r 4 with 0 -> 0 | 1 -> l - st | _ -> rand_int r (l - st + 1) in (st, n)) in
    let main = mk () in
    let sup = if rand_int r 3 = 0 then None else Some (mk ()) in
    lookup_case emit l main sup)

let () =
  register "c17.unitglue" ~doc:"Unit::new / new_with_abbreviations, Dwarf::attr_string / attr_line_string / attr_address / unit_ranges, Unit::dwo_name, Dwarf::make_dwo + Unit::copy_relocated_attributes on generated units: versions 2-5 x formats x unit types x {main, dwo} x with/without sup; root attributes in every order of (indexed attribute, base, second base), duplicates, every admissible and inadmissible form (addr/addrx*/GNU_addr_index, string/strp/strx*/line_strp/strp_sup/GNU forms, sec_offset/data4/data8/udata/implicit_const/indirect), boundary offsets and indices, leading null entries, truncated string/offset/address tables and line programs, mutated unit and abbreviation bytes; output = every Unit field, the line program header chosen, dwo_name, attr_string/attr_line_string/attr_address of every root attribute, unit_ranges drained, and for split units the Dwarf after make_dwo"
    gen;
  register "c17.lookup" ~doc:"Dwarf::lookup_offset_id: all sixteen sections of the main and of the supplementary Dwarf are sub-slices of one buffer; every id from one below the buffer to one past its end, plus ids taken from readers positioned at the start, middle and one-past-the-end of each section; tilings with every boundary shared (coded order and reversed), main/sup overlapping and disjoint, each section alone (confirms that .debug_macinfo, .debug_macro and .debug_names are never searched), identical and nested sections, random layouts"
    gen_lookup
let init () = ()
